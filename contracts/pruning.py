"""Sidecar contracts for scenic.core.pruning (C08): containment pruning -- termination of the erosion
retry loop, erosion only by a provable margin, pruned region = base intersected with the (eroded) container.

Geometry is abstract: regions are heap objects; `_erodeOverapproximate`, `buffer`, `intersect` are modelled
by their documented set semantics (trusted, listed)."""
import z3

from pyvc import contracts as C
from pyvc.interp import BuiltinFn
from pyvc.values import Opaque, PObj, SV, compare, sv_and, sv_not, tobool

from .common import repo_class

P = "scenic.core.pruning"
conversion_fails = z3.Function("voxel_mesh_conversion_fails", z3.RealSort(), z3.BoolSort())


def register(reg):
    register_maxdist(reg)
    register_prune_rh(reg)
    register_buffer_overapprox(reg)
    register_prune_visibility(reg)
    register_match_polygonal_field(reg)
    register_same_point(reg)

    def setup(I, env):
        eng = I.eng
        MeshVolume = repo_class("scenic.core.regions:MeshVolumeRegion")
        Voxel = repo_class("scenic.core.regions:VoxelRegion")
        log = []
        env.vars["_log"] = log

        def region(cls, tag, **f):
            r = PObj(cls, tag=tag)
            r.fields.update(f)
            r.fields.setdefault("orientation", None)
            r.fields.setdefault("size", eng.fresh_real(tag + ".size"))
            r.fields.setdefault("dimensionality", 3)
            return r

        base = region(MeshVolume, "base")
        container = region(MeshVolume, "container")
        calls = []

        def erode(maxErosion, pitch):
            calls.append((maxErosion, pitch))
            # the conversion is deterministic: whether it fails is a function of the voxel pitch
            fails = SV(conversion_fails(z3.RealVal(str(pitch)) if not isinstance(pitch, SV) else pitch.e))
            vox = PObj(Voxel, tag=f"voxels@{pitch}")
            if not eng.branch(tobool(fails)):
                vox.fields["mesh"] = region(MeshVolume, f"eroded@{pitch}")
                vox.fields["mesh"].eroded_from = (container, maxErosion, pitch)
            else:
                vox.fields["mesh"] = None  # "(WIP) ... will sometimes return None"
            return vox

        container.fields["_erodeOverapproximate"] = BuiltinFn("_erodeOverapproximate", erode)
        env.vars["_erode_calls"] = calls

        def intersect(other, base=base):
            r = region(MeshVolume, "base&" + other.tag)
            r.parts = (base, other)
            log.append(("intersect", other))
            return r

        base.fields["intersect"] = BuiltinFn("intersect", intersect)
        position = PObj("PositionDist", tag="position")
        conditioned = []
        position.fields["conditionTo"] = BuiltinFn("conditionTo", lambda v: conditioned.append(v))
        env.vars["_conditioned"] = conditioned
        obj = PObj("Object", tag="obj")
        minRadius = eng.fresh_real("minRadius")
        eng.assume(compare(">=", minRadius, 0))
        obj.fields.update(position=position, pitch=0, roll=0, inradius=Opaque("inradius"), planarInradius=Opaque("planarInradius"))
        scenario = PObj("Scenario", tag="scenario")
        scenario.fields["objects"] = (obj,)
        scenario.fields["containerOfObject"] = BuiltinFn("containerOfObject", lambda o: container)
        env.vars.update(scenario=scenario, verbosity=0, _base=base, _container=container, _minRadius=minRadius, _obj=obj)
        eng.input_syms.append(("minRadius", C.Real(), minRadius))

        def support_interval(I2, thing):
            if isinstance(thing, Opaque) and thing.name in ("inradius", "planarInradius"):
                return (minRadius, None)
            if thing == 0:
                return (0, 0)
            return (None, None)

        reg.models["scenic.core.distributions:supportInterval"] = support_interval
        reg.models[f"{P}:matchInRegion"] = lambda I2, pos: (base, None, pos)  # case 1 of the real matcher: the position IS the sampled point
        reg.models["scenic.core.regions:Region.uniformPointIn"] = lambda I2, r: ("uniformPointIn", r)
        reg.models[f"{P}:percentagePruned"] = lambda I2, a, b: None

    def post(I, env, outcome):
        eng = I.eng
        name = "pruning.pruneContainment"
        if outcome[0] != "return":
            return
        cond = env.vars["_conditioned"]
        base, container, minRadius = env.vars["_base"], env.vars["_container"], env.vars["_minRadius"]
        calls = env.vars["_erode_calls"]
        # erosion never exceeds the margin the object is known to keep from the container boundary
        for amount, pitch in calls:
            eng.check(f"{name}#ensures.erosion_amount_is_minRadius_minus_maxOffset", sv_and(compare("==", amount, minRadius), compare(">", amount, 0)))
            eng.check(f"{name}#ensures.erosion_pitch_in_(0,1]", sv_and(compare(">", pitch, 0), compare("<=", pitch, 1)))
        # the position is conditioned to a point drawn uniformly in base ∩ (container or an erosion of it)
        eng.check(f"{name}#ensures.position_conditioned_once", len(cond) == 1)
        if len(cond) == 1:
            kind, region = cond[0]
            parts = getattr(region, "parts", None)
            ok = kind == "uniformPointIn" and parts is not None and parts[0] is base and (parts[1] is container or getattr(parts[1], "eroded_from", (None,))[0] is container)
            eng.check(f"{name}#ensures.new_base_is_base_intersected_with_container_or_its_erosion", ok)

    reg.add(
        C.Contract(
            f"{P}:pruneContainment",
            params=dict(scenario=C.Const(None), verbosity=C.Const(0)),
            setup=setup,
            post=post,
            unroll=12,
            raises=[C.Raises("InvalidScenarioError", mode="may")],
            replay=replay_prune_containment,
            note="scenario of one object placed uniformly in a mesh volume with a mesh-volume container (the voxel-erosion arm); "
            "loop exit within 12 iterations is checked on every path",
            properties=("C08",),
        )
    )
    reg.trust("regions (pruneContainment)", "MeshVolumeRegion._erodeOverapproximate returns a VoxelRegion whose .mesh may be None (documented WIP); intersect/uniformPointIn are abstract")


def replay_prune_containment(inputs, clause):
    """Real pruneContainment on a real scenario whose container erosion never yields a mesh."""
    if "terminates" not in clause:
        return None
    import scenic
    from scenic.core import pruning, regions

    src = (
        "workspace = Workspace(BoxRegion(dimensions=(20, 20, 20)))\n"
        "ego = new Object in BoxRegion(dimensions=(10, 10, 10)), with width 2, with length 2, with height 2\n"
    )
    orig = regions.VoxelRegion.mesh
    regions.VoxelRegion.mesh = property(lambda self: None)  # the documented failure mode of the WIP conversion
    try:
        scenic.scenarioFromString(src, mode2D=False)
    finally:
        regions.VoxelRegion.mesh = orig
    return None


def register_maxdist(reg):
    """maxDistanceBetween: the returned value is the tightest of the distance bounds that actually apply --
    a visibility requirement bounds the distance by the VIEWER's visibility bound towards the seen object."""
    import z3

    from pyvc.values import Infinity, compare, sv_ite

    vb = z3.Function("visibilityBound", z3.IntSort(), z3.IntSort(), z3.RealSort())

    def setup(I, env):
        eng = I.eng
        objs = []
        for k, nm in enumerate(("obj", "target", "third")):
            o = PObj("Object", tag=nm)
            o.k = k
            o.fields.update(requireVisible=eng.fresh_bool(f"{nm}.requireVisible"), _observingEntity=None, _relations=())
            objs.append(o)
        obj, target, third = objs
        ego = [obj, target, third, None][eng.choose(4, "ego?")]
        if eng.choose(2, "obj must be visible from target?") == 1:
            obj.fields["_observingEntity"] = target
        if eng.choose(2, "target must be visible from obj?") == 1:
            target.fields["_observingEntity"] = obj
        DR = repo_class("scenic.syntax.relations:DistanceRelation")
        rels = []
        nrel = eng.choose(3, "distance relations")
        uppers = []
        for j in range(nrel):
            r = PObj(DR, tag=f"rel{j}")
            u = eng.fresh_real(f"rel{j}.upper")
            eng.assume(compare(">=", u, 0))
            r.fields.update(target=target if j == 0 else third, lower=0, upper=u)
            if j == 0:
                uppers.append(u)
            rels.append(r)
        obj.fields["_relations"] = tuple(rels)
        scenario = PObj("Scenario", tag="scenario")
        scenario.fields["egoObject"] = ego
        env.vars.update(scenario=scenario, obj=obj, target=target, _ego=ego, _uppers=uppers)

        def vbound(I2, a, b):
            v = SV(vb(a.k, b.k), True)
            eng.assume(compare(">=", v, 0))
            return v

        reg.models[f"{P}:visibilityBound"] = vbound

    def post(I, env, outcome):
        eng = I.eng
        name = "pruning.maxDistanceBetween"
        if outcome[0] != "return":
            return
        obj, target, ego = env.vars["obj"], env.vars["target"], env.vars["_ego"]
        res = outcome[1]
        V = lambda a, b: SV(vb(a.k, b.k), True)
        applicable = []
        if obj is ego:
            applicable.append((target.fields["requireVisible"], V(obj, target)))  # ego must see target
        if target is ego:
            applicable.append((obj.fields["requireVisible"], V(target, obj)))  # ego must see obj
        if obj.fields["_observingEntity"] is target:
            applicable.append((True, V(target, obj)))  # target must see obj
        if target.fields["_observingEntity"] is obj:
            applicable.append((True, V(obj, target)))  # obj must see target
        for u in env.vars["_uppers"]:
            applicable.append((True, u))
        # soundness: the result never exceeds ... and never undercuts: it is below-or-equal every applicable bound
        # and equal to one of them (or infinite when none applies)
        finite = not isinstance(res, Infinity)
        conds = []
        for c, b in applicable:
            if finite:
                eng.check(f"{name}#ensures.result_at_most_every_applicable_bound", z3.Implies(tobool(c) if not isinstance(c, bool) else z3.BoolVal(c), tobool(compare("<=", res, b))))
            conds.append((c, b))
        if finite:
            eng.check(f"{name}#ensures.result_is_one_of_the_applicable_bounds", z3.Or(*[z3.And(tobool(c) if not isinstance(c, bool) else z3.BoolVal(c), tobool(compare("==", res, b))) for c, b in conds]) if conds else z3.BoolVal(False))
        else:
            eng.check(f"{name}#ensures.infinite_only_if_no_bound_applies", z3.And(*[z3.Not(tobool(c) if not isinstance(c, bool) else z3.BoolVal(c)) for c, b in conds]) if conds else z3.BoolVal(True))

    def replay(inputs, clause):
        """The real maxDistanceBetween on real objects, for every combination of ego / observing entities / visibility
        flags / distance relations of the contract's input space; the three objects have different visible distances,
        so the bound of the wrong viewer is a different number."""
        import itertools
        import types

        import scenic.core.pruning as RP
        from scenic.core.object_types import Object
        from scenic.core.vectors import Vector
        from scenic.syntax.relations import DistanceRelation

        inf = float("inf")
        for egok, oe_obj, oe_tgt, rv_obj, rv_tgt, nrel in itertools.product(range(4), (False, True), (False, True), (False, True), (False, True), range(3)):
            objs = [Object._with(position=Vector(10 * k, 0, 0), visibleDistance=d, requireVisible=False) for k, d in enumerate((7.0, 19.0, 31.0))]
            obj, target, third = objs
            object.__setattr__(obj, "requireVisible", rv_obj)
            object.__setattr__(target, "requireVisible", rv_tgt)
            for o in objs:
                object.__setattr__(o, "_observingEntity", None)
                object.__setattr__(o, "_relations", [])
            if oe_obj:
                object.__setattr__(obj, "_observingEntity", target)
            if oe_tgt:
                object.__setattr__(target, "_observingEntity", obj)
            rels = [DistanceRelation(target if j == 0 else third, 0, 23.0 + j) for j in range(nrel)]
            object.__setattr__(obj, "_relations", rels)
            ego = [obj, target, third, None][egok]
            scenario = types.SimpleNamespace(egoObject=ego)
            got = RP.maxDistanceBetween(scenario, obj, target)
            bounds = []
            if obj is ego and rv_tgt:
                bounds.append(("ego (obj) must see target", RP.visibilityBound(obj, target)))
            if target is ego and rv_obj:
                bounds.append(("ego (target) must see obj", RP.visibilityBound(target, obj)))
            if oe_obj:
                bounds.append(("obj must be visible from target", RP.visibilityBound(target, obj)))
            if oe_tgt:
                bounds.append(("target must be visible from obj", RP.visibilityBound(obj, target)))
            if nrel >= 1:
                bounds.append(("distance relation", 23.0))
            want = min([b for _, b in bounds], default=inf)
            if abs(got - want) > 1e-9 if want != inf else got != inf:
                return (
                    f"maxDistanceBetween(obj, target) = {got} but the tightest applicable bound is {want} {bounds} "
                    f"(visible distances obj 7, target 19, third 31; ego = {['obj', 'target', 'third', 'none'][egok]})"
                )
        return None

    reg.add(
        C.Contract(
            f"{P}:maxDistanceBetween",
            params=dict(scenario=C.Const(None), obj=C.Const(None), target=C.Const(None)),
            setup=setup,
            post=post,
            replay=replay,
            properties=("C08",),
        )
    )
    reg.trust("visibilityBound (in maxDistanceBetween)", "abstract non-negative bound vb(viewer, seen) on the distance at which `viewer` can see `seen`")


# =================================================================================================
# pruneRelativeHeading (C08: "pruning introduces no new scenes ... leaves non-positional properties untouched")
#
# Property-level postcondition: the region the position is conditioned to is a SUBSET of the region the object was
# placed in -- in all three coordinates (a PolygonalRegion is a polygon at a height z) -- and carries the same
# preferred orientation.  Shapely geometry is abstract (polygons are heap objects, `&` is intersection).


def register_prune_rh(reg):
    from pyvc.values import Infinity, PDict

    RG = "scenic.core.regions"
    name = "pruning.pruneRelativeHeading"

    def setup(I, env):
        eng = I.eng
        PolyReg = repo_class(f"{RG}:PolygonalRegion")
        RHR = repo_class("scenic.syntax.relations:RelativeHeadingRelation")
        basePoly = PObj("Polygon", tag="basePoly")
        basePoly.within = ()
        z = eng.fresh_real("base.z")
        eng.input_syms.append(("base.z", C.Real(), z))
        orientation = [None, PObj("VectorField", tag="base.orientation")][eng.choose(2, "base region has a preferred orientation?")]
        base = PObj(PolyReg, tag="base")
        base.fields.update(polygons=basePoly, z=z, orientation=orientation, name=None)
        field, tField = PObj("PolygonalVectorField", tag="field"), PObj("PolygonalVectorField", tag="tField")
        conditioned = []

        def mkobj(tag):
            o = PObj("Object", tag=tag)
            pos = PObj("PositionDist", tag=tag + ".position")
            pos.fields["_conditioned"] = pos
            pos.fields["conditionTo"] = BuiltinFn("conditionTo", lambda v, o=o: conditioned.append((o, v)))
            o.fields.update(position=pos, heading=PObj("HeadingDist", tag=tag + ".heading"), _relations=())
            return o

        obj, target = mkobj("obj"), mkobj("target")
        lo, hi = eng.fresh_real("rel.lower"), eng.fresh_real("rel.upper")
        nrel = eng.choose(3, "relative-heading relations of obj")
        rels = []
        for j in range(nrel):
            r = PObj(RHR, tag=f"rel{j}")
            r.fields.update(target=target, lower=lo, upper=hi)
            rels.append(r)
        obj.fields["_relations"] = tuple(rels)
        scenario = PObj("Scenario", tag="scenario")
        scenario.fields.update(objects=(obj, target), egoObject=obj)
        env.vars.update(scenario=scenario, verbosity=0, _base=base, _basePoly=basePoly, _conditioned=conditioned, _obj=obj)

        bounded = eng.choose(2, "distance between the objects bounded?") == 1
        prunes = eng.choose(2, "feasibleRHPolygon restricts the space?") == 1
        counter = [0]

        def feasible(I2, *a):
            if not prunes:
                return None
            counter[0] += 1
            return PObj("Polygon", tag=f"feasible{counter[0]}")

        def intersect(a, b):
            r = PObj("Polygon", tag=f"({a.tag}&{b.tag})")
            r.within = (a,) + tuple(getattr(a, "within", ())) + (b,) + tuple(getattr(b, "within", ()))
            return r

        def binop(I2, sym, a, b):
            # the engine passes sym=None for the bitwise operators; the only one the carrier applies to polygons is `&`
            if sym in (None, "&") and isinstance(a, PObj) and a.cls == "Polygon" and isinstance(b, PObj) and b.cls == "Polygon":
                return intersect(a, b)
            raise Exception(f"binary operator {sym} on {a!r}, {b!r} not modelled")

        reg.binop_fallback = binop
        reg.models[f"{P}:matchPolygonalField"] = lambda I2, heading, position: (field, 0, 0) if heading is obj.fields["heading"] else (tField, 0, 0)
        reg.models[f"{P}:matchInRegion"] = lambda I2, pos: (base, None, pos) if pos is obj.fields["position"] else (None, None, None)
        reg.models["scenic.core.distributions:needsSampling"] = lambda I2, v: False
        reg.models[f"{RG}:toPolygon"] = lambda I2, r: basePoly if r is base else None
        reg.models[f"{P}:maxDistanceBetween"] = lambda I2, sc, a, b: eng.fresh_real("maxDist") if bounded else Infinity(1)
        reg.models[f"{P}:feasibleRHPolygon"] = feasible
        reg.models[f"{RG}:Region.uniformPointIn"] = lambda I2, r: ("uniformPointIn", r)

        def polygonal_region_ctor(I2, cls, args, kwargs):
            """PolygonalRegion(...): the fields are the constructor's arguments, defaults taken from the REAL signature."""
            r = PObj(cls, tag="newBase")
            init = I2.find_method(cls, "__init__")
            bound = I2.bind_args(init, [r] + list(args), dict(kwargs))
            r.fields.update(polygons=bound.vars["polygon"], z=bound.vars["z"], orientation=bound.vars["orientation"], name=bound.vars.get("name"))
            return r

        reg.constructors[f"{RG}:PolygonalRegion"] = polygonal_region_ctor

    def post(I, env, outcome):
        eng = I.eng
        if outcome[0] != "return":
            eng.check(f"{name}#no_exception", False)
            return
        base, basePoly, cond, obj = env.vars["_base"], env.vars["_basePoly"], env.vars["_conditioned"], env.vars["_obj"]
        eng.check(f"{name}#ensures.position_conditioned_at_most_once", len(cond) <= 1)
        for o, v in cond:
            ok_shape = o is obj and isinstance(v, tuple) and v[0] == "uniformPointIn" and isinstance(v[1], PObj)
            eng.check(f"{name}#ensures.conditioned_to_a_uniform_point_of_a_region", ok_shape)
            if not ok_shape:
                continue
            nb = v[1]
            poly = nb.fields.get("polygons")
            # no new scenes: every point of the new region is a point of the region the object was placed in
            eng.check(f"{name}#ensures.new_region_polygon_within_base_polygon", poly is basePoly or basePoly in getattr(poly, "within", ()))
            eng.check(f"{name}#ensures.new_region_at_the_height_of_the_base_region", compare("==", nb.fields.get("z"), base.fields["z"]))
            # non-positional properties untouched: the orientation drawn from the region is the same field
            eng.check(f"{name}#ensures.new_region_keeps_the_preferred_orientation", nb.fields.get("orientation") is base.fields["orientation"])

    reg.add(
        C.Contract(
            f"{P}:pruneRelativeHeading",
            params=dict(scenario=C.Const(None), verbosity=C.Const(0)),
            setup=setup,
            post=post,
            replay=replay_prune_rh,
            note="two objects aligned to polygonal vector fields, the first placed uniformly in a PolygonalRegion at a symbolic height z "
            "with 0-2 relative-heading relations to the second; shapely polygons abstract (& = intersection)",
            properties=("C08",),
        )
    )
    reg.trust("shapely (pruneRelativeHeading)", "`&` of polygons is their intersection; matchPolygonalField/matchInRegion/maxDistanceBetween/feasibleRHPolygon abstract (own contracts)")


RH_PROGRAM = """
r1 = PolygonalRegion([0@0, 10@0, 10@10, 0@10], z={z})      # first cell: heading 0 deg
r2 = PolygonalRegion([20@0, 30@0, 30@10, 20@10], z={z})    # second cell: heading 90 deg
vf = PolygonalVectorField("Foo", [[r1.polygons, 0], [r2.polygons, 90 deg]])
half = PolygonalRegion([0@0, 30@0, 30@5, 0@5], z={z})             # the objects are placed in the lower half of the cells only
union = r1.union(r2).intersect(half)
ego = new Object in union, facing vf, with visibleDistance 100
other = new Object in union, facing vf
require (relative heading of other) >= 60 deg
require (distance to other) <= 35
"""


def replay_prune_rh(inputs, clause):
    """The real compiler on a real program: objects placed in a polygon at height z, relative-heading pruning applies;
    compare the region the position is conditioned to (and generated scenes) with the program compiled without pruning."""
    import random

    import scenic
    import scenic.syntax.translator as T

    z = inputs.get("base.z", 5.0)
    try:
        z = float(z)
    except (TypeError, ValueError):
        z = 5.0
    if z == 0:
        z = 5.0
    src = RH_PROGRAM.format(z=repr(z))
    old = T.usePruning
    try:
        T.usePruning = False
        random.seed(3)
        plain = scenic.scenarioFromString(src, mode2D=False)
        zs_plain = {round(float(plain.generate(maxIterations=2000)[0].objects[0].position.z), 9) for _ in range(3)}
        random.seed(3)
        pruned = scenic.scenarioFromString(src, mode2D=False)
    finally:
        T.usePruning = old
    import scenic.core.pruning as RP
    from scenic.core.vectors import VectorField

    ego = pruned.objects[0]
    # a preferred orientation on the region the object was placed in (the object itself is `facing vf`)
    ego.position.region.orientation = VectorField("preferred", lambda pos: 0.5)
    RP.pruneRelativeHeading(pruned, 0)  # the real pruning pass on the real scenario
    region = getattr(ego.position._conditioned, "region", None)
    if region is None or ego.position._conditioned is ego.position:
        return None  # nothing was pruned
    zs = {round(float(pruned.generate(maxIterations=2000)[0].objects[0].position.z), 9) for _ in range(3)}
    if "height" in clause and (abs(float(region.z) - z) > 1e-9 or zs != zs_plain):
        return (
            f"`ego = new Object in union, facing vf` with union a PolygonalRegion at z={z}, `require (relative heading of other) >= 60 deg`, "
            f"`require (distance to other) <= 35`: without pruning the ego is generated at z in {sorted(zs_plain)}, with pruning its position is "
            f"conditioned to a PolygonalRegion at z={float(region.z)} and it is generated at z in {sorted(zs)}"
        )
    base = ego.position.region  # the region the program placed the object in
    if "orientation" in clause and region.orientation is not base.orientation:
        return f"the region the position is conditioned to has preferred orientation {region.orientation!r}, the region of the program {base.orientation!r}"
    if "within_base_polygon" in clause and region.polygons.difference(base.polygons.buffer(1e-9)).area > 1e-9:
        return f"the region the position is conditioned to ({region.polygons.wkt}) is not contained in the region of the program ({base.polygons.wkt})"
    return None


# =================================================================================================
# MeshVolumeRegion._bufferOverapproximate (C08: visibility pruning "never reports a satisfiable scenario as infeasible")
#
# pruneVisibility intersects the base region with the observer's view region buffered by (radius + offset): sound only
# if the buffered region CONTAINS every point within `minBuffer` of the view region.  Checked here per axis: the extent
# of the result covers [mesh.bounds[0] - minBuffer, mesh.bounds[1] + minBuffer] (for the box path this is the whole
# statement; for the voxel path -- cube structuring element, axes independent -- it is its projection on an axis).
# The region's `position` is NOT tied to the bounds (a ViewRegion is built with centerMesh=False).


def register_buffer_overapprox(reg):
    from pyvc.builtins_model import NativeModule
    from pyvc.values import arith

    RG = "scenic.core.regions"
    name = "regions.MeshVolumeRegion._bufferOverapproximate"

    class NdArr:
        """numpy array of concrete shape with symbolic elements (1-D: scalars, 2-D: rows); only what the carrier uses"""

        def __init__(self, items):
            self.items = list(items)

        @property
        def ndim(self):
            return 2 if self.items and isinstance(self.items[0], NdArr) else 1

    class Dense:
        """Dense boolean voxel array, seen along one axis: n cells, the filled cells span [lo, hi]."""

        def __init__(self, n, lo, hi):
            self.n, self.lo, self.hi = n, lo, hi

    class Affine:
        """index -> coordinate along the axis: origin + pitch * index"""

        def __init__(self, origin, pitch):
            self.origin, self.pitch = origin, pitch

    class Shift:
        def __init__(self, d):
            self.d = d

    def setup(I, env):
        eng = I.eng
        MeshVolume = repo_class(f"{RG}:MeshVolumeRegion")
        Voxel = repo_class(f"{RG}:VoxelRegion")
        lo = [eng.fresh_real(f"bounds.lo.{a}") for a in "xyz"]
        ext = [eng.fresh_real(f"extent.{a}") for a in "xyz"]
        for e in ext:
            eng.assume(compare(">", e, 0))
        hi = [arith("+", l, e) for l, e in zip(lo, ext)]
        pos = [eng.fresh_real(f"position.{a}") for a in "xyz"]  # e.g. the camera of a ViewRegion: anywhere
        minBuffer = eng.fresh_real("minBuffer")
        eng.assume(compare(">=", minBuffer, 0))
        for nm, v in [("minBuffer", minBuffer)] + [(f"bounds.lo.{a}", v) for a, v in zip("xyz", lo)] + [(f"extent.{a}", v) for a, v in zip("xyz", ext)] + [(f"position.{a}", v) for a, v in zip("xyz", pos)]:
            eng.input_syms.append((nm, C.Real(), v))
        pitches = [1, 0.15, 0.3, 0.6]  # the fast path and the pitches pruneVisibility tries (PRUNING_PITCH, doubled)
        pitch = pitches[eng.choose(len(pitches), "pitch: 1 (bounding box) / 0.15 / 0.3 / 0.6 (voxels)")]
        eng.input_syms.append(("pitch", C.Const(None), pitch))
        mesh = PObj("Trimesh", tag="mesh")
        mesh.fields.update(bounds=NdArr([NdArr(lo), NdArr(hi)]), extents=NdArr(ext))
        region = PObj(MeshVolume, tag="region")
        region.fields.update(mesh=mesh, position=tuple(pos), orientation=None)
        env.vars.update(self=region, minBuffer=minBuffer, pitch=pitch, _lo=lo, _hi=hi, _minBuffer=minBuffer)

        # ---- numpy on the 2x3 bounds array (documented semantics)
        def np_mean(a, axis=None):
            assert axis == 0 and isinstance(a, NdArr) and a.ndim == 2
            rows = a.items
            return NdArr([arith("/", sum_(r.items[j] for r in rows), len(rows)) for j in range(len(rows[0].items))])

        def sum_(xs):
            t = 0
            for x in xs:
                t = arith("+", t, x)
            return t

        def np_diff(a, axis=-1):
            assert axis == 0 and isinstance(a, NdArr) and a.ndim == 2
            rows = a.items
            return NdArr([NdArr([arith("-", rows[i + 1].items[j], rows[i].items[j]) for j in range(len(rows[0].items))]) for i in range(len(rows) - 1)])

        def np_pad(a, k):
            assert isinstance(a, Dense)
            return Dense(arith("+", a.n, arith("*", 2, k)), arith("+", a.lo, k), arith("+", a.hi, k))

        reg.extra_modules = getattr(reg, "extra_modules", None) or {}
        reg.extra_modules["numpy"] = NativeModule("numpy", {"mean": BuiltinFn("numpy.mean", np_mean), "diff": BuiltinFn("numpy.diff", np_diff), "pad": BuiltinFn("numpy.pad", np_pad)})

        # ---- voxel grids along the x axis
        def morph(sign):
            def f(a, structure=None, iterations=1):
                assert isinstance(a, Dense) and structure == "cube"
                from pyvc.values import sv_ite

                k = iterations
                if sign > 0:  # cannot grow past the array
                    nlo = arith("-", a.lo, k)
                    nhi = arith("+", a.hi, k)
                    return Dense(a.n, sv_ite(compare("<", nlo, 0), 0, nlo), sv_ite(compare(">", nhi, arith("-", a.n, 1)), arith("-", a.n, 1), nhi))
                return Dense(a.n, arith("+", a.lo, k), arith("-", a.hi, k))

            return BuiltinFn("scipy.ndimage.binary_dilation" if sign > 0 else "scipy.ndimage.binary_erosion", f)

        ndimage = NativeModule("scipy.ndimage", {"binary_dilation": morph(+1), "binary_erosion": morph(-1), "generate_binary_structure": BuiltinFn("generate_binary_structure", lambda rank, conn: "cube")})
        reg.extra_modules["scipy"] = NativeModule("scipy", {"ndimage": ndimage})

        def encoding(dense):
            e = PObj("DenseEncoding", tag="encoding")
            e.fields.update(dense=dense, is_empty=False)
            return e

        def grid(enc, transform=None):
            g = PObj("VoxelGrid", tag="voxel grid")
            g.fields.update(encoding=enc, transform=transform)
            return g

        tv = NativeModule("trimesh.voxel", {
            "encoding": NativeModule("trimesh.voxel.encoding", {"DenseEncoding": BuiltinFn("DenseEncoding", encoding)}),
            "morphology": NativeModule("trimesh.voxel.morphology", {"_dense": BuiltinFn("_dense", lambda enc, rank=3: enc.fields["dense"])}),
            "VoxelGrid": BuiltinFn("VoxelGrid", grid),
        })
        reg.extra_modules["trimesh"] = NativeModule("trimesh", {"voxel": tv})
        reg.models["trimesh.transformations:translation_matrix"] = lambda I2, v: Shift(I2.iterate(v)[0])
        reg.global_overrides[f"{RG}:translation_matrix"] = lambda I2: BuiltinFn("translation_matrix", lambda v: Shift(list(I2.iterate(v))[0]))

        def binop(I2, sym, a, b):
            if isinstance(a, Affine) and isinstance(b, Shift):  # transform @ translation: index i -> origin + pitch * (i + d)
                return Affine(arith("+", a.origin, arith("*", a.pitch, b.d)), a.pitch)
            if sym in ("+", "-", "*") and isinstance(a, NdArr) and a.ndim == 1 and not isinstance(b, NdArr):  # broadcast a scalar
                return NdArr([arith(sym, x, b) for x in a.items])
            raise Exception(f"binary operator {sym} on {a!r}, {b!r} not modelled")

        reg.binop_fallback = binop
        reg.iterate_fallback = lambda I2, v, *a, **k: list(v.items) if isinstance(v, NdArr) else (_ for _ in ()).throw(Exception(f"iteration over {v!r} not modelled"))
        reg.getitem_fallback = lambda I2, v, i, *a: v.items[i] if isinstance(v, NdArr) and isinstance(i, int) else (_ for _ in ()).throw(Exception(f"indexing {v!r} not modelled"))

        def voxel_region(I2, cls, args, kwargs):
            v = PObj(cls, tag="voxel region")
            v.fields["voxelGrid"] = kwargs.get("voxelGrid", args[0] if args else None)
            return v

        reg.constructors[f"{RG}:VoxelRegion"] = voxel_region

        def voxelized(I2, self_, vpitch, lazy=False):
            """trimesh voxelization (trusted, as documented in the carrier): a grid tight around the mesh, which contains
            the mesh after ONE dilation: along an axis n >= 1 cells, all of [0, n-1] met, and
            origin - 1.5 pitch <= bounds.lo, bounds.hi <= origin + (n - 1 + 1.5) pitch"""
            n = eng.fresh_int("voxels.n")
            origin = eng.fresh_real("voxels.origin")
            eng.assume(compare(">=", n, 1))
            eng.assume(compare("<=", arith("-", origin, arith("*", 1.5, vpitch)), lo[0]))
            eng.assume(compare("<=", hi[0], arith("+", origin, arith("*", arith("+", n, 0.5), vpitch))))
            eng.input_syms.append(("voxels.n", C.Int(), n))
            env.vars["_vpitch"] = vpitch
            return voxel_region(I2, Voxel, (), dict(voxelGrid=grid(encoding(Dense(n, 0, arith("-", n, 1))), Affine(origin, vpitch))))

        reg.models[f"{RG}:MeshVolumeRegion.voxelized"] = voxelized
        reg.models["scenic.core.type_support:toVector"] = lambda I2, v, *a, **k: tuple(I2.iterate(v))

        def box_region(I2, cls, args, kwargs):
            b = PObj(cls, tag="box")
            b.fields.update(position=kwargs.get("position"), dimensions=kwargs.get("dimensions"))
            return b

        reg.constructors[f"{RG}:BoxRegion"] = box_region

    def post(I, env, outcome):
        eng = I.eng
        if outcome[0] != "return":
            eng.check(f"{name}#no_exception", False)
            return
        res = outcome[1]
        lo, hi, mb = env.vars["_lo"], env.vars["_hi"], env.vars["_minBuffer"]
        if isinstance(res, PObj) and getattr(res.cls, "name", None) == "BoxRegion":
            pos = list(I.iterate(res.fields["position"]))
            dims = list(I.iterate(res.fields["dimensions"]))
            for a, ax in enumerate("xyz"):
                half = arith("/", dims[a], 2)
                eng.check(f"{name}#ensures.box_covers_every_point_within_minBuffer_of_the_mesh.lower", compare("<=", arith("-", pos[a], half), arith("-", lo[a], mb)))
                eng.check(f"{name}#ensures.box_covers_every_point_within_minBuffer_of_the_mesh.upper", compare(">=", arith("+", pos[a], half), arith("+", hi[a], mb)))
            return
        ok = isinstance(res, PObj) and getattr(res.cls, "name", None) == "VoxelRegion"
        eng.check(f"{name}#ensures.result_is_a_box_or_a_voxel_region", ok)
        if not ok:
            return
        g = res.fields["voxelGrid"]
        d, t = g.fields["encoding"].fields["dense"], g.fields["transform"]
        half = arith("/", t.pitch, 2)
        low_face = arith("-", arith("+", t.origin, arith("*", t.pitch, d.lo)), half)
        high_face = arith("+", arith("+", t.origin, arith("*", t.pitch, d.hi)), half)
        eng.check(f"{name}#ensures.voxels_cover_every_point_within_minBuffer_of_the_mesh.lower", compare("<=", low_face, arith("-", lo[0], mb)))
        eng.check(f"{name}#ensures.voxels_cover_every_point_within_minBuffer_of_the_mesh.upper", compare(">=", high_face, arith("+", hi[0], mb)))
        eng.check(f"{name}#ensures.voxels_inside_the_dense_array", sv_and(compare(">=", d.lo, 0), compare("<=", d.hi, arith("-", d.n, 1))))

    reg.add(
        C.Contract(
            f"{RG}:MeshVolumeRegion._bufferOverapproximate",
            params=dict(self=C.Const(None), minBuffer=C.Const(None), pitch=C.Const(None)),
            setup=setup,
            post=post,
            inline=["VoxelRegion.dilation"],
            replay=replay_buffer_overapprox,
            note="mesh bounds, extents, region position and minBuffer symbolic; pitch 1 (box path) or one of the pitches pruneVisibility uses "
            "(0.15, 0.3, 0.6: voxel path); voxel grids seen along one axis (cube structuring element: axes independent); VoxelRegion.dilation is the real code",
            properties=("C08",),
        )
    )
    reg.trust("voxels (_bufferOverapproximate)", "trimesh voxelization is tight and contains the mesh after one dilation; scipy binary_dilation with the 3x3x3 cube grows the filled cells by one layer per iteration but never past the array; numpy.pad adds empty layers; transform @ translation_matrix(d) shifts indices by d")


def replay_buffer_overapprox(inputs, clause):
    """The real function on a real MeshVolumeRegion built like a ViewRegion (centerMesh=False: position != centre of the mesh):
    look for a point within minBuffer of the mesh that the buffered region does not contain."""
    import itertools

    import numpy
    import trimesh

    from scenic.core.regions import MeshVolumeRegion, VoxelRegion
    from scenic.core.vectors import Vector

    def f(k, d):
        try:
            return float(inputs.get(k, d))
        except (TypeError, ValueError):
            return d

    ext = [min(max(f(f"extent.{a}", 2.0), 0.25), 8.0) for a in "xyz"]
    lo = [max(min(f(f"bounds.lo.{a}", 3.0), 50.0), -50.0) for a in "xyz"]
    pos = [max(min(f(f"position.{a}", 0.0), 50.0), -50.0) for a in "xyz"]
    mb = min(max(f("minBuffer", 1.0), 0.0), 6.0)
    pitch = inputs.get("pitch", 1)
    pitch = float(pitch) if not isinstance(pitch, str) else float(pitch)
    cases = [(ext, lo, pos, mb)]
    if mb < 0.5:
        cases.append((ext, lo, pos, 1.0))
    cases.append(([2.0, 2.0, 2.0], [3.0, -1.0, 9.0], [0.0, 0.0, 0.0], 1.0))
    cases.append(([0.5, 0.5, 0.5], [3.0, -1.0, 9.0], [0.0, 0.0, 0.0], 1.0))
    for ext, lo, pos, mb in cases:
        box = trimesh.creation.box(extents=ext)
        box.apply_translation([l + e / 2 for l, e in zip(lo, ext)])
        region = MeshVolumeRegion(mesh=box, position=Vector(*pos), centerMesh=False)
        res = region._bufferOverapproximate(mb, pitch)
        centre = [l + e / 2 for l, e in zip(lo, ext)]
        for axis, sign in itertools.product(range(3), (-1, 1)):
            p = list(centre)
            p[axis] += sign * (ext[axis] / 2 + 0.98 * mb)
            pt = Vector(*p)
            if region.distanceTo(pt) <= mb and not res.containsPoint(pt):
                kind = type(res).__name__
                return (
                    f"MeshVolumeRegion(box of extents {ext} with bounds.lo {lo}, position={tuple(pos)}, centerMesh=False)._bufferOverapproximate({mb}, {pitch}) "
                    f"returned a {kind} that does not contain {tuple(round(c, 4) for c in p)}, at distance {region.distanceTo(pt):.4f} <= {mb} from the region"
                )
    return None


# =================================================================================================
# pruneVisibility (C08: "every scene that ... can be generated without pruning can still be generated with it")
#
# An object visible from an observer has some point within the view region; its position is at most `radius` from that
# point, and the sampled base point at most sup|offset| from the position -- the norm of the FULL 3-D offset (for an
# object `on` a polygon the offset is mostly vertical; the footprint argument of pruneContainment does not apply).  So
# the view region must be buffered by at least radius + sup|offset|.


def register_prune_visibility(reg):
    RG = "scenic.core.regions"
    name = "pruning.pruneVisibility"

    def setup(I, env):
        eng = I.eng
        base_kind = ["PolygonalRegion", "MeshVolumeRegion"][eng.choose(2, "base region: polygon / mesh volume")]
        who = eng.choose(2, "requireVisible (seen from the ego) / visible from another observer")
        has_offset = eng.choose(2, "position = base point / base point + offset") == 1
        base = PObj(repo_class(f"{RG}:{base_kind}"), tag="base")
        base.fields.update(orientation=None, dimensionality=2 if base_kind == "PolygonalRegion" else 3)
        radius = eng.fresh_real("obj.radius")
        sup3, sup2 = eng.fresh_real("sup|offset|"), eng.fresh_real("sup|(offset.x, offset.y, 0)|")
        eng.assume(sv_and(compare(">=", radius, 0), compare(">=", sup2, 0), compare("<=", sup2, sup3)))
        for nm, v in (("obj.radius", radius), ("sup|offset|", sup3), ("sup|(offset.x, offset.y, 0)|", sup2)):
            eng.input_syms.append((nm, C.Real(), v))
        eng.input_syms.append(("base", C.Const(None), base_kind))

        def vector(tag, norm_name):
            v = PObj("Vector", tag=tag)
            v.fields.update(x=Opaque(tag + ".x"), y=Opaque(tag + ".y"), z=Opaque(tag + ".z"), norm=BuiltinFn("norm", lambda: Opaque(norm_name)))
            return v

        offset = vector("offset", "|offset|") if has_offset else None
        # a planar projection Vector(offset.x, offset.y, 0) built by the carrier has a (possibly) smaller norm
        reg.constructors["scenic.core.vectors:Vector"] = lambda I2, cls, args, kwargs: vector("offset_2d", "|offset_2d|")

        def support_interval(I2, thing):
            if isinstance(thing, Opaque) and thing.name == "|offset|":
                return (0, sup3)
            if isinstance(thing, Opaque) and thing.name == "|offset_2d|":
                return (0, sup2)
            return (None, None)

        reg.models["scenic.core.distributions:supportInterval"] = support_interval
        reg.models["scenic.core.distributions:needsSampling"] = lambda I2, v: False
        buffers = []

        def view_region(tag):
            r = PObj("ViewRegion", tag=tag)

            def buf(q, pitch):
                buffers.append(q)
                b = PObj("BufferedRegion", tag=f"{tag} buffered")
                return b

            r.fields["_bufferOverapproximate"] = BuiltinFn("_bufferOverapproximate", buf)
            return r

        def mkobj(tag):
            o = PObj("Object", tag=tag)
            o.fields.update(requireVisible=False, _observingEntity=None, radius=radius, visibleRegion=view_region(tag + ".visibleRegion"))
            return o

        ego, obj, observer = mkobj("ego"), mkobj("obj"), mkobj("observer")
        if who == 0:
            obj.fields["requireVisible"] = True
        else:
            obj.fields["_observingEntity"] = observer
        pir = PObj("PointIn", tag="point in base")
        position = PObj("PositionDist", tag="obj.position")
        conditioned = []
        position.fields["_conditioned"] = position
        position.fields["conditionTo"] = BuiltinFn("conditionTo", lambda v: conditioned.append(v))
        pir.fields["_conditioned"] = pir  # the sampled point is a Samplable too: a pass may condition it instead of the sum
        pir.fields["conditionTo"] = BuiltinFn("conditionTo", lambda v: conditioned.append(v))
        obj.fields["position"] = position
        egopos = PObj("PositionDist", tag="ego.position")
        egopos.fields["_conditioned"] = egopos
        ego.fields["position"] = egopos
        reg.models[f"{P}:matchInRegion"] = lambda I2, pos: (base, offset, pir) if pos is position else (None, None, None)

        def intersect(other, tag="base"):
            r = PObj("Region", tag=f"{tag}&{other.tag}")
            r.fields.update(dimensionality=base.fields["dimensionality"])
            r.fields["intersect"] = BuiltinFn("intersect", lambda o, t=r.tag: intersect(o, t))
            return r

        base.fields["intersect"] = BuiltinFn("intersect", intersect)
        reg.models[f"{RG}:Region.uniformPointIn"] = lambda I2, r: PObj("PointIn", tag=f"point in {r.tag}")
        reg.models[f"{P}:checkConditionedCycle"] = lambda I2, a, b: False
        reg.models[f"{P}:percentagePruned"] = lambda I2, a, b: [None, 50.0][eng.choose(2, "percentage pruned computable?")]

        def binop(I2, sym, a, b):
            if sym == "+" and isinstance(a, PObj) and a.cls == "PointIn" and b is offset:
                return PObj("PositionSum", tag=f"{a.tag} + offset")
            raise Exception(f"binary operator {sym} on {a!r}, {b!r} not modelled")

        reg.binop_fallback = binop
        scenario = PObj("Scenario", tag="scenario")
        scenario.fields.update(objects=(ego, obj), egoObject=ego)
        env.vars.update(scenario=scenario, verbosity=0, _buffers=buffers, _radius=radius, _sup3=sup3, _has_offset=has_offset)

    def post(I, env, outcome):
        eng = I.eng
        if outcome[0] != "return":
            return
        from pyvc.values import arith

        need = arith("+", env.vars["_radius"], env.vars["_sup3"] if env.vars["_has_offset"] else 0)
        eng.check(f"{name}#ensures.view_region_of_the_observer_is_buffered", len(env.vars["_buffers"]) == 1)
        for q in env.vars["_buffers"]:
            eng.check(f"{name}#ensures.view_region_buffered_by_at_least_radius_plus_the_bound_on_the_full_3d_offset", compare(">=", q, need))

    reg.add(
        C.Contract(
            f"{P}:pruneVisibility",
            params=dict(scenario=C.Const(None), verbosity=C.Const(0)),
            setup=setup,
            post=post,
            raises=[C.Raises("InvalidScenarioError", mode="may")],
            replay=replay_prune_visibility,
            note="one object placed uniformly in a polygon or a mesh volume (with or without an offset) that must be visible from the ego or from another observer; "
            "support bounds of |offset| and of its planar projection symbolic (planar <= full); regions abstract",
            properties=("C08",),
        )
    )
    reg.trust("regions (pruneVisibility)", "intersect/uniformPointIn/_bufferOverapproximate abstract (the latter has its own contract); supportInterval returns a sound upper bound (C05 contracts)")


TOWER_PROGRAM = """
workspace = Workspace(RectangularRegion(0@0, 0, 40, 40))
ego = new Object at (0, 0, 12), with visibleDistance 3, with viewAngles (360 deg, 180 deg), with width 1, with length 1, with height 1, with allowCollisions True
tower = new Object on workspace, with width 1, with length 1, with height 10, with requireVisible True, with allowCollisions True
"""


def replay_prune_visibility(inputs, clause):
    """Real compiler: an observer at height 12 that sees 3 m, a 1x1x10 tower standing `on` the workspace that must be
    visible: base points of scenes accepted without pruning must lie in the region the pruned program samples from."""
    import random

    import scenic
    import scenic.syntax.translator as T
    from scenic.core.errors import InvalidScenarioError
    from scenic.core.vectors import Vector

    old = T.usePruning
    try:
        T.usePruning = False
        random.seed(7)
        plain = scenic.scenarioFromString(TOWER_PROGRAM, mode2D=False)
        scenes = [plain.generate(maxIterations=20000)[0] for _ in range(6)]
        T.usePruning = True
        try:
            pruned = scenic.scenarioFromString(TOWER_PROGRAM, mode2D=False)
        except InvalidScenarioError as e:
            p = scenes[0].objects[1].position
            # is the buffer DISTANCE to blame?  If the buffered view region does not even contain a point well within
            # the correct distance (radius + full offset), the defect is in _bufferOverapproximate (its own contract)
            egoP, towerP = plain.objects[0], plain.objects[1]
            q = float(towerP.radius) + (float(p.z) - 0.0)
            buffered = egoP.visibleRegion._bufferOverapproximate(q, 0.15)
            if not buffered.containsPoint(Vector(0, 0, 12 - 3 - 0.9 * q)):
                return None
            return f"ego at height 12 seeing 3 m, 1x1x10 tower `on workspace` with requireVisible True: satisfiable without pruning (tower at {tuple(round(c, 2) for c in p)}) but compiling with pruning reports: {e}"
    finally:
        T.usePruning = old
    cond = pruned.objects[1].position._conditioned
    region = getattr(getattr(cond, "object", cond), "region", None)
    if region is None:
        return None
    for sc in scenes:
        p = sc.objects[1].position
        basept = Vector(p.x, p.y, 0)
        if not region.containsPoint(basept):
            return (
                f"ego at height 12 seeing 3 m, 1x1x10 tower `on workspace` with requireVisible True: the scene with the tower at {tuple(round(c, 2) for c in p)} "
                f"is accepted without pruning, but its base point {tuple(round(c, 2) for c in basept)} is outside the region the pruned program samples from ({region})"
            )
    return None


# =================================================================================================
# matchPolygonalField (C08: "compiling with pruning never reports a satisfiable scenario as infeasible")
#
# The matcher is handed the heading and the position of EVERY object of the scenario.  Both are random values, and
# random values refuse `==` (Distribution.__eq__ raises RandomControlFlowError: a program must not branch on them).
# Whether the heading is "the field read at the position" is a question of IDENTITY of the argument of the field
# lookup; asking it with `==` makes the compiler refuse any program in which the heading is read from a polygonal
# field at a point that is not the position object itself (`new Object on R`: the field is read at the base point,
# the position is base point + contact offset).


def register_match_polygonal_field(reg):
    from pyvc.builtins_model import IdToken
    from pyvc.values import arith

    D = "scenic.core.distributions"
    name = "pruning.matchPolygonalField[random-arguments]"

    class RandomValue(IdToken):
        """A random value (scenic Distribution) as far as the matcher can observe it: it has an identity, and comparing
        it with `==` / `!=` raises RandomControlFlowError (Distribution._comparisonError, assigned to __eq__/__ne__)."""

        def __init__(self, tag, I):
            super().__init__(self)
            self.tag, self.I = tag, I

        def _refuse(self, other):
            self.I.raise_(repo_class(f"{D}:RandomControlFlowError"), "random values cannot be compared (and control flow cannot depend on them)")

        __eq__ = __ne__ = _refuse

        def __hash__(self):
            return id(self)

        def __repr__(self):
            return f"<random value {self.tag}>"

    def setup(I, env):
        eng = I.eng
        position = RandomValue("position", I)
        other = RandomValue("another random point (e.g. the base point of `on R`)", I)
        shapes = [("(position,)", (position,)), ("(other point,)", (other,)), ("()", ()), ("(position, other point)", (position, other))]
        k = eng.choose(len(shapes), "arguments of the field lookup: " + " / ".join(s for s, _ in shapes))
        eng.input_syms.append(("arguments", C.Const(None), shapes[k][0]))
        field = PObj(repo_class("scenic.core.vectors:PolygonalVectorField"), tag="field")
        orientation = PObj(repo_class("scenic.core.vectors:VectorMethodDistribution"), tag="field[...]")
        orientation.fields.update(object=field, arguments=shapes[k][1], kwargs={})
        yaw = PObj(repo_class(f"{D}:AttributeDistribution"), tag="field[...].yaw")
        yaw.fields.update(attribute="yaw", object=orientation)
        heading = yaw
        lo = hi = 0
        wrapped = eng.choose(2, "heading = field[...].yaw / field[...].yaw + bounded disturbance")
        eng.input_syms.append(("disturbance", C.Const(None), bool(wrapped)))
        if wrapped:
            noise = Opaque("disturbance")
            lo, hi = eng.fresh_real("disturbance.lower"), eng.fresh_real("disturbance.upper")
            eng.assume(compare("<=", lo, hi))
            heading = PObj(repo_class(f"{D}:OperatorDistribution"), tag="field[...].yaw + disturbance")
            heading.fields.update(operator="__add__", object=yaw, operands=(noise,))
            reg.models[f"{D}:supportInterval"] = lambda I2, v: (lo, hi) if v is noise else (None, None)
        # the decorator plumbing of `VectorField.__getitem__` is not the subject: a method call is recognised by identity
        reg.models[f"{P}:isMethodCall"] = lambda I2, thing, method: thing is orientation
        reg.models[f"{P}:isFunctionCall"] = lambda I2, thing, function: False
        env.vars.update(heading=heading, position=position, _field=field, _match=(k == 0), _lo=lo, _hi=hi)

    def post(I, env, outcome):
        eng = I.eng
        if outcome[0] != "return":
            return  # reported by the engine as <contract>#no-unexpected-exception
        res = tuple(I.iterate(outcome[1]))
        eng.check(f"{name}#ensures.result_is_a_triple", len(res) == 3)
        if len(res) != 3:
            return
        if env.vars["_match"]:
            # the heading IS the field read at this object's position: pruning may use the field's cells
            eng.check(f"{name}#ensures.field_matched_when_read_at_the_position_itself", res[0] is env.vars["_field"])
            eng.check(f"{name}#ensures.disturbance_bounds_are_the_support_of_the_disturbance", sv_and(compare("==", res[1], env.vars["_lo"]), compare("==", res[2], env.vars["_hi"])))
        else:
            # read anywhere else (or not a single-argument lookup): nothing may be concluded about this object's cells
            eng.check(f"{name}#ensures.no_field_matched_when_read_elsewhere", res[0] is None)

    reg.add(
        C.Contract(
            f"{P}:matchPolygonalField",
            params=dict(heading=C.Const(None), position=C.Const(None)),
            setup=setup,
            post=post,
            inline=["matchPolygonalField"],
            replay=replay_match_polygonal_field,
            note="heading = yaw of a PolygonalVectorField lookup (optionally + a disturbance with symbolic support); the arguments of the lookup are "
            "(position,), (another random value,), () or (position, another random value); random values refuse `==`; no exception is allowed",
            properties=("C08",),
        ),
        key=f"{P}:matchPolygonalField[random-arguments]",
    )
    reg.trust("random values (matchPolygonalField)", "Distribution.__eq__/__ne__ raise RandomControlFlowError (class-body assignment of _comparisonError); tuple == compares element-wise by identity, then ==; isMethodCall/isFunctionCall abstract")


POLYFIELD_ON_PROGRAM = """
r1 = PolygonalRegion([0@0, 10@0, 10@10, 0@10])
r2 = PolygonalRegion([10@0, 30@0, 30@10, 10@10])
vf = PolygonalVectorField("Foo", [[r1.polygons, 0], [r2.polygons, 90 deg]])
road = PolygonalRegion([0@0, 30@0, 30@10, 0@10], orientation=vf)
workspace = Workspace(PolygonalRegion([0@0, 10@0, 10@10, 0@10]))
ego = new Object on road, with width 1, with length 1, with height 1
"""


def replay_match_polygonal_field(inputs, clause):
    """Real compiler: an object `on` a region oriented by a PolygonalVectorField (3D mode) -- the field is read at the
    base point, the position is base point + contact offset.  Compiled without and with pruning; then the real matcher
    on the real heading with each shape of position argument."""
    import random

    import scenic
    import scenic.core.pruning as RP
    import scenic.syntax.translator as T

    old = T.usePruning
    try:
        T.usePruning = False
        random.seed(5)
        plain = scenic.scenarioFromString(POLYFIELD_ON_PROGRAM, mode2D=False)
        scene = plain.generate(maxIterations=2000)[0]
        T.usePruning = True
        try:
            scenic.scenarioFromString(POLYFIELD_ON_PROGRAM, mode2D=False)
        except Exception as e:
            p = scene.objects[0].position
            return (
                f"`new Object on road` with road oriented by a PolygonalVectorField, 3D mode: without pruning the program compiles and generates "
                f"(ego at {tuple(round(float(c), 2) for c in p)}); with pruning compilation fails with {type(e).__name__}: {e}"
            )
    finally:
        T.usePruning = old
    ego = plain.objects[0]
    base_point = ego.position.object  # the PointInRegionDistribution the field is read at
    for what, pos, want in (("the position (base point + offset)", ego.position, False), ("the base point the field is read at", base_point, True)):
        try:
            field, lo, hi = RP.matchPolygonalField(ego.heading, pos)
        except Exception as e:
            return f"matchPolygonalField(ego.heading, {what}) raised {type(e).__name__}: {e}"
        if (field is not None) != want:
            return f"matchPolygonalField(ego.heading, {what}) returned field {field!r}; the field lookup's argument is {'not ' if not want else ''}that object"
    return None


# =================================================================================================
# pruneContainment / pruneVisibility with a position that is a FUNCTION of the sampled point
# (C08: "leaves the program's conditional distribution unchanged ... leaves non-positional properties untouched")
#
# `new Object on R` with R oriented: position = p + c.rotatedBy(R.orientation[p]) and parentOrientation = R.orientation[p]
# for ONE random point p of R.  Pruning replaces "p uniform in R" by "p uniform in a subregion R'".  The scenes stay the
# same only if every value the program computed from p is computed from the NEW point: after the pass, the point the
# position is built from, the point the offset is computed from and the point the orientation is read at must be one
# and the same random draw (and that draw is in R').  The ghost function `denote` below is Samplable.sample: a value is
# sampled through its `_conditioned` proxy, dependencies are sampled once per scene (memoised under the dependency
# object itself).  matchInRegion / currentPropValue / unpackWorkspace are the real code (inlined).


def register_same_point(reg):
    from pyvc.interp import ClassVal

    RG = "scenic.core.regions"
    PIR = lambda: repo_class(f"{RG}:PointInRegionDistribution")
    VOD = lambda: repo_class("scenic.core.vectors:VectorOperatorDistribution")

    def is_a(v, clsname):
        return isinstance(v, PObj) and isinstance(v.cls, ClassVal) and v.cls.name == clsname

    def build(I, env, base, log):
        """The object of `new Object in R` (position = p) or `new Object on R` (position = p + offset(p)), with the
        orientation R.orientation[p]."""
        eng = I.eng

        def samplable(cls, tag, **f):
            o = PObj(cls, tag=tag)
            o.fields.update(f)
            o.fields["_conditioned"] = o

            def conditionTo(v, o=o):  # Samplable.conditionTo
                o.fields["_conditioned"] = v
                log.append((o, v))

            o.fields["conditionTo"] = BuiltinFn("conditionTo", conditionTo)
            return o

        has_offset = eng.choose(2, "position = p (`in R`) / p + offset(p) (`on R`, R oriented)") == 1
        eng.input_syms.append(("position", C.Const(None), "p + offset(p)" if has_offset else "p"))
        p = samplable(PIR(), "p", region=base)
        sup3, sup2 = eng.fresh_real("sup|offset|"), eng.fresh_real("sup|(offset.x, offset.y, 0)|")
        eng.assume(sv_and(compare(">=", sup2, 0), compare("<=", sup2, sup3)))

        def vector(tag, norm_name):
            v = PObj("Vector", tag=tag)
            v.fields.update(x=Opaque(tag + ".x"), y=Opaque(tag + ".y"), z=Opaque(tag + ".z"), norm=BuiltinFn("norm", lambda: Opaque(norm_name)))
            return v

        offset = None
        position = p
        if has_offset:
            offset = vector("offset(p)", "|offset|")
            offset.read_at = p  # c.rotatedBy(R.orientation[p])
            position = samplable(VOD(), "p + offset(p)", operator="__add__", object=p, operands=(offset,))
        reg.constructors["scenic.core.vectors:Vector"] = lambda I2, cls, args, kwargs: vector("offset_2d", "|offset_2d|")

        def support_interval(I2, thing):
            if isinstance(thing, Opaque) and thing.name == "|offset|":
                return (0, sup3)
            if isinstance(thing, Opaque) and thing.name == "|offset_2d|":
                return (0, sup2)
            if thing == 0:
                return (0, 0)
            return (None, None)

        reg.models["scenic.core.distributions:supportInterval"] = support_interval
        reg.models["scenic.core.distributions:needsSampling"] = lambda I2, v: False
        reg.models[f"{RG}:Region.uniformPointIn"] = lambda I2, r: samplable(PIR(), f"point in {r.tag}", region=r)

        def binop(I2, sym, a, b):
            if sym == "+" and is_a(a, "PointInRegionDistribution") and b is offset:  # VectorDistribution.__add__
                return samplable(VOD(), f"{a.tag} + offset(p)", operator="__add__", object=a, operands=(b,))
            raise Exception(f"binary operator {sym} on {a!r}, {b!r} not modelled")

        reg.binop_fallback = binop
        orientation = PObj("FieldValue", tag="R.orientation[p]")
        orientation.field, orientation.read_at = base.fields["orientation"], p
        obj = PObj("Object", tag="obj")
        obj.fields.update(position=position, parentOrientation=orientation, pitch=0, roll=0, inradius=Opaque("inradius"), planarInradius=Opaque("planarInradius"))
        env.vars.update(_obj=obj, _p=p, _offset=offset, _position=position, _orientation=orientation)
        return obj

    def denote(x):
        """Samplable.sample(x): which primitive random draw(s) a sample of x is made of."""
        c = x.fields["_conditioned"]
        if is_a(c, "PointInRegionDistribution"):
            return ("draw", x, c.fields["region"])  # memoised under x: every user of x in the scene sees this draw
        if is_a(c, "VectorOperatorDistribution"):
            off = c.fields["operands"][0]
            return ("sum", denote(c.fields["object"]), off, denote(off.read_at))
        return ("?", c)

    def check_same_point(I, env, name, base, allowed_region):
        eng = I.eng
        obj, p, offset, orientation = env.vars["_obj"], env.vars["_p"], env.vars["_offset"], env.vars["_orientation"]
        d = denote(obj.fields["position"])
        at = denote(orientation.read_at)
        if offset is None:
            point = d
            eng.check(f"{name}#ensures.position_is_still_a_uniform_point_of_a_region", d[0] == "draw")
        else:
            ok = d[0] == "sum" and d[1][0] == "draw"
            eng.check(f"{name}#ensures.position_is_still_a_uniform_point_of_a_region_plus_the_offset", ok and d[2] is offset)
            if not ok:
                return
            point = d[1]
            # the offset was computed from the sampled point (rotated by the field value THERE): it must follow the point
            eng.check(f"{name}#ensures.offset_is_computed_from_the_point_the_position_is_built_from", d[3][0] == "draw" and d[3][1] is point[1] and d[3][2] is point[2])
        if point[0] != "draw":
            return
        # non-positional property: the orientation is the field value at the point the object is placed at
        eng.check(f"{name}#ensures.orientation_is_read_at_the_point_the_position_is_built_from", at[0] == "draw" and at[1] is point[1] and at[2] is point[2])
        region = point[2]
        eng.check(f"{name}#ensures.point_drawn_in_the_base_region_or_its_pruned_subregion", region is base or allowed_region(region))
        eng.check(f"{name}#ensures.pruned_region_keeps_the_preferred_orientation", region.fields.get("orientation") is base.fields["orientation"])

    # ---------------------------------------------------------------- pruneContainment
    nameC = "pruning.pruneContainment[point-functions]"

    def setupC(I, env):
        eng = I.eng
        Poly = repo_class(f"{RG}:PolygonalRegion")
        log = []
        field = PObj("VectorField", tag="R.orientation")
        base = PObj(Poly, tag="R")
        base.fields.update(orientation=field, dimensionality=2, size=eng.fresh_real("R.size"))
        container = PObj(Poly, tag="container")
        container.fields.update(orientation=None, dimensionality=2)

        def buffer(d):
            r = PObj(Poly, tag="eroded container")
            r.fields.update(orientation=None, dimensionality=2)
            r.eroded_from = container
            return r

        container.fields["buffer"] = BuiltinFn("buffer", buffer)

        def intersect(other):
            r = PObj(Poly, tag=f"R&{other.tag}")
            r.fields.update(orientation=None, dimensionality=2)  # a region built by intersection has no orientation of its own
            r.parts = (base, other)
            return r

        base.fields["intersect"] = BuiltinFn("intersect", intersect)
        obj = build(I, env, base, log)
        minRadius = eng.fresh_real("minRadius")
        eng.assume(compare(">=", minRadius, 0))
        sup = reg.models["scenic.core.distributions:supportInterval"]
        reg.models["scenic.core.distributions:supportInterval"] = lambda I2, t: (minRadius, None) if isinstance(t, Opaque) and t.name in ("inradius", "planarInradius") else sup(I2, t)
        reg.models[f"{P}:percentagePruned"] = lambda I2, a, b: [None, 50.0][eng.choose(2, "percentage pruned computable?")]
        scenario = PObj("Scenario", tag="scenario")
        scenario.fields.update(objects=(obj,), containerOfObject=BuiltinFn("containerOfObject", lambda o: container))
        env.vars.update(scenario=scenario, verbosity=0, _base=base, _container=container, _log=log)

    def postC(I, env, outcome):
        if outcome[0] != "return":
            return
        base, container = env.vars["_base"], env.vars["_container"]

        def allowed(region):
            parts = getattr(region, "parts", None)
            return parts is not None and parts[0] is base and (parts[1] is container or getattr(parts[1], "eroded_from", None) is container)

        I.eng.check(f"{nameC}#ensures.something_was_conditioned", len(env.vars["_log"]) == 1)
        check_same_point(I, env, nameC, base, allowed)

    reg.add(
        C.Contract(
            f"{P}:pruneContainment",
            params=dict(scenario=C.Const(None), verbosity=C.Const(0)),
            setup=setupC,
            post=postC,
            inline=["matchInRegion", "unpackWorkspace", "currentPropValue"],
            raises=[C.Raises("InvalidScenarioError", mode="may")],
            replay=lambda inputs, clause: replay_same_point(inputs, clause, ("containment",)),
            note="one object `in R` / `on R` (R a polygonal region with a preferred orientation, position = p or p + offset(p), orientation R.orientation[p]) "
            "with a polygonal container; Samplable.sample modelled by the ghost `denote` (conditioned proxy, dependencies memoised); regions abstract",
            properties=("C08",),
        ),
        key=f"{P}:pruneContainment[point-functions]",
    )

    # ---------------------------------------------------------------- pruneVisibility
    nameV = "pruning.pruneVisibility[point-functions]"

    def setupV(I, env):
        eng = I.eng
        Poly = repo_class(f"{RG}:PolygonalRegion")
        log = []
        field = PObj("VectorField", tag="R.orientation")
        base = PObj(Poly, tag="R")
        base.fields.update(orientation=field, dimensionality=2)
        views = []

        def intersect_of(parts, tag):
            def intersect(other):
                r = PObj(Poly, tag=f"{tag}&{other.tag}")
                r.fields.update(orientation=field, dimensionality=2)  # PolygonalRegion.intersect keeps the orientation of self
                r.parts = parts + (other,)
                r.fields["intersect"] = intersect_of(r.parts, r.tag)
                return r

            return BuiltinFn("intersect", intersect)

        base.fields["intersect"] = intersect_of((base,), "R")

        def view_region(tag):
            r = PObj("ViewRegion", tag=tag)

            def buf(q, pitch):
                b = PObj("BufferedRegion", tag=f"{tag} buffered")
                views.append(b)
                return b

            r.fields["_bufferOverapproximate"] = BuiltinFn("_bufferOverapproximate", buf)
            return r

        obj = build(I, env, base, log)
        radius = eng.fresh_real("obj.radius")
        eng.assume(compare(">=", radius, 0))

        def other(tag):
            o = PObj("Object", tag=tag)
            o.fields.update(requireVisible=False, _observingEntity=None, radius=radius, visibleRegion=view_region(tag + ".visibleRegion"))
            pos = PObj("PositionDist", tag=tag + ".position")
            pos.fields["_conditioned"] = pos
            o.fields["position"] = pos
            return o

        ego, observer = other("ego"), other("observer")
        who = eng.choose(3, "requireVisible (seen from the ego) / visible from another observer / both")
        obj.fields.update(requireVisible=who in (0, 2), _observingEntity=observer if who in (1, 2) else None, radius=radius)
        reg.models[f"{P}:checkConditionedCycle"] = lambda I2, a, b: False
        reg.models[f"{P}:percentagePruned"] = lambda I2, a, b: [None, 50.0][eng.choose(2, "percentage pruned computable?")]
        scenario = PObj("Scenario", tag="scenario")
        scenario.fields.update(objects=(obj,), egoObject=ego)
        env.vars.update(scenario=scenario, verbosity=0, _base=base, _views=views, _log=log)

    def postV(I, env, outcome):
        if outcome[0] != "return":
            return
        base, views = env.vars["_base"], env.vars["_views"]

        def allowed(region):
            parts = getattr(region, "parts", None)
            return parts is not None and parts[0] is base and len(parts) >= 2 and all(any(q is v for v in views) for q in parts[1:])

        I.eng.check(f"{nameV}#ensures.something_was_conditioned", len(env.vars["_log"]) == 1)
        check_same_point(I, env, nameV, base, allowed)

    reg.add(
        C.Contract(
            f"{P}:pruneVisibility",
            params=dict(scenario=C.Const(None), verbosity=C.Const(0)),
            setup=setupV,
            post=postV,
            inline=["matchInRegion", "unpackWorkspace", "currentPropValue"],
            raises=[C.Raises("InvalidScenarioError", mode="may")],
            replay=lambda inputs, clause: replay_same_point(inputs, clause, ("visibility",)),
            note="one object with position = p or p + offset(p) and orientation R.orientation[p] (R polygonal with a preferred orientation) that must be visible "
            "from the ego, from another observer, or both; Samplable.sample modelled by the ghost `denote`; regions and view regions abstract; no conditioning cycle",
            properties=("C08",),
        ),
        key=f"{P}:pruneVisibility[point-functions]",
    )
    # ---------------------------------------------------------------- prune: the passes one after the other
    nameP = "pruning.prune[point-functions]"

    def setupP(I, env):
        eng = I.eng
        Poly = repo_class(f"{RG}:PolygonalRegion")
        log = []
        field = PObj("VectorField", tag="R.orientation")
        base = PObj(Poly, tag="R")
        base.fields.update(orientation=field, dimensionality=2)
        container = PObj(Poly, tag="container")
        container.fields.update(orientation=None, dimensionality=2)
        views = []

        def intersect_of(parts, tag):
            def intersect(other):
                r = PObj(Poly, tag=f"{tag}&{other.tag}")
                # first intersection: no orientation of its own (the pass restores it); later ones keep the receiver's
                r.fields.update(orientation=None if len(parts) == 1 else field, dimensionality=2)
                r.parts = parts + (other,)
                r.fields["intersect"] = intersect_of(r.parts, r.tag)
                return r

            return BuiltinFn("intersect", intersect)

        base.fields["intersect"] = intersect_of((base,), "R")

        def view_region(tag):
            r = PObj("ViewRegion", tag=tag)

            def buf(q, pitch):
                b = PObj("BufferedRegion", tag=f"{tag} buffered")
                views.append(b)
                return b

            r.fields["_bufferOverapproximate"] = BuiltinFn("_bufferOverapproximate", buf)
            return r

        obj = build(I, env, base, log)
        radius = eng.fresh_real("obj.radius")
        eng.assume(compare(">=", radius, 0))
        sup = reg.models["scenic.core.distributions:supportInterval"]
        reg.models["scenic.core.distributions:supportInterval"] = lambda I2, t: (None, None) if isinstance(t, Opaque) and t.name in ("inradius", "planarInradius") else sup(I2, t)
        ego = PObj("Object", tag="ego")
        egopos = PObj("PositionDist", tag="ego.position")
        egopos.fields["_conditioned"] = egopos
        ego.fields.update(requireVisible=False, _observingEntity=None, radius=radius, visibleRegion=view_region("ego.visibleRegion"), position=egopos, heading=Opaque("ego.heading"), _relations=())
        obj.fields.update(requireVisible=True, _observingEntity=None, radius=radius, heading=Opaque("obj.heading"), _relations=())
        reg.models[f"{P}:matchPolygonalField"] = lambda I2, heading, position: (None, 0, 0)
        reg.models[f"{P}:checkConditionedCycle"] = lambda I2, a, b: False
        reg.models[f"{P}:percentagePruned"] = lambda I2, a, b: 50.0
        scenario = PObj("Scenario", tag="scenario")
        scenario.fields.update(objects=(obj,), egoObject=ego, containerOfObject=BuiltinFn("containerOfObject", lambda o: container))
        env.vars.update(scenario=scenario, verbosity=0, _base=base, _container=container, _views=views, _log=log)

    def postP(I, env, outcome):
        if outcome[0] != "return":
            return
        base, container, views = env.vars["_base"], env.vars["_container"], env.vars["_views"]

        def allowed(region):
            parts = getattr(region, "parts", None)
            return parts is not None and parts[0] is base and len(parts) >= 2 and all(q is container or any(q is v for v in views) for q in parts[1:])

        check_same_point(I, env, nameP, base, allowed)
        # both passes pruned (percentage 50): the point is finally drawn in R & container & buffered view of the ego
        d = denote(env.vars["_obj"].fields["position"])
        point = d if d[0] == "draw" else d[1]
        parts = getattr(point[2], "parts", ()) if point[0] == "draw" else ()
        I.eng.check(f"{nameP}#ensures.later_passes_keep_what_earlier_passes_pruned", len(parts) == 3 and parts[0] is base and parts[1] is container and len(views) == 1 and parts[2] is views[0])

    reg.add(
        C.Contract(
            f"{P}:prune",
            params=dict(scenario=C.Const(None), verbosity=C.Const(0)),
            setup=setupP,
            post=postP,
            inline=["pruneContainment", "pruneRelativeHeading", "pruneVisibility", "matchInRegion", "unpackWorkspace", "currentPropValue"],
            raises=[C.Raises("InvalidScenarioError", mode="may")],
            replay=replay_same_point,
            note="containment, relative-heading and visibility pruning in sequence on one object with position = p or p + offset(p), orientation R.orientation[p], "
            "a polygonal container and requireVisible; both region passes prune (50%); heading not aligned to a polygonal field",
            properties=("C08",),
        ),
        key=f"{P}:prune[point-functions]",
    )
    reg.trust("sampling (pruning of point functions)", "Samplable.sample samples a value through its _conditioned proxy and every dependency once per scene (memoised under the dependency object); PolygonalRegion.intersect keeps the orientation of its receiver; uniformPointIn(r) is a PointInRegionDistribution over r")


ON_ORIENTED_PROGRAM = """
vf = VectorField("Foo", lambda pos: 0 if pos.x < 10 else 90 deg)
road = PolygonalRegion([0@0, 30@0, 30@10, 0@10], orientation=vf)
workspace = Workspace(PolygonalRegion([0@0, 10@0, 10@10, 0@10]))
ego = new Object on road, with width 1, with length 1, with height 1
"""

SHARED_POINT_VISIBLE_PROGRAM = """
vf = VectorField("Foo", lambda pos: 0 if pos.x < 10 else 90 deg)
road = PolygonalRegion([0@0, 30@0, 30@10, 0@10])
ego = new Object at (3, 5, 0.5), with visibleDistance 4, with viewAngles (360 deg, 180 deg), with width 1, with length 1, with height 1, with allowCollisions True
spot = new Point in road
other = new Object at spot.position + Vector(0, 0, 0.5), with parentOrientation vf[spot.position], with requireVisible True, with width 1, with length 1, with height 1, with allowCollisions True
"""


def replay_same_point(inputs, clause, passes=("containment", "visibility")):
    """Real compiler, real generation: the orientation of every generated object must be the field value at the point
    the object stands on -- with pruning exactly as without.  Containment pruning: `new Object on road` (road oriented,
    workspace = the first third of the road).  Visibility pruning: position and orientation written as functions of one
    explicitly shared point, the object must be visible from an ego that sees 4 m."""
    import math
    import random

    import scenic
    import scenic.syntax.translator as T

    def mismatches(src, k, pruning, n=30):
        old = T.usePruning
        try:
            T.usePruning = pruning
            random.seed(11)
            sc = scenic.scenarioFromString(src, mode2D=False)
        finally:
            T.usePruning = old
        bad = []
        for _ in range(n):
            o = sc.generate(maxIterations=5000)[0].objects[k]
            want = 0.0 if o.position.x < 10 else math.pi / 2
            if abs(float(o.orientation.yaw) - want) > 1e-6:
                bad.append((tuple(round(float(c), 2) for c in o.position), round(float(o.orientation.yaw), 4), want))
        return bad, sc.objects[k]

    for what, src, k in (("containment", ON_ORIENTED_PROGRAM, 0), ("visibility", SHARED_POINT_VISIBLE_PROGRAM, 1)):
        if what not in passes:
            continue
        plain, _ = mismatches(src, k, False)
        pruned, obj = mismatches(src, k, True)
        if pruned and not plain:
            pos, yaw, want = pruned[0]
            return (
                f"{what} pruning, program:{src}without pruning 0 of 30 generated scenes have an orientation different from the field value at the object's base point; "
                f"with pruning {len(pruned)} of 30, e.g. position {pos} with yaw {yaw} although the field value there is {want} "
                f"(position conditioned to {obj.position._conditioned}: the orientation is still read at the point drawn in the unpruned region)"
            )
    if "later_passes" in clause or clause == "*":
        # both passes prune: a 30 x 4 workspace strip, then the 4 m view of the ego; the region the base point is finally
        # drawn in must still lie in the workspace (what containment pruning established)
        import shapely.geometry

        src = SHARED_POINT_VISIBLE_PROGRAM.replace("ego = new", "workspace = Workspace(PolygonalRegion([0@0, 30@0, 30@4, 0@4]))\nego = new", 1).replace("at (3, 5, 0.5)", "at (3, 2, 0.5)")
        random.seed(11)
        sc = scenic.scenarioFromString(src, mode2D=False)
        pos = sc.objects[1].position
        inner = getattr(pos._conditioned, "object", pos._conditioned)._conditioned
        region = getattr(inner, "region", None)
        strip = shapely.geometry.box(0, 0, 30, 4).buffer(1e-6)
        if region is not None and hasattr(region, "polygons"):
            outside = region.polygons.difference(strip).area
            if outside > 1e-6 or region.polygons.area > 30 * 4 - 1:
                return f"object with a 30 x 4 workspace strip and requireVisible from an ego seeing 4 m: after all pruning passes its base point is drawn in {region.polygons.wkt[:160]} (area {region.polygons.area:.1f}, {outside:.1f} outside the workspace): the visibility pass discarded the containment pruning"
    return None
