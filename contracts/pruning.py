"""Sidecar contracts for scenic.core.pruning (C08): containment pruning -- termination of the erosion
retry loop, erosion only by a provable margin, pruned region = base intersected with the (eroded) container.

Geometry is abstract: regions are heap objects; `_erodeOverapproximate`, `buffer`, `intersect` are modelled
by their documented set semantics (trusted, listed)."""
import z3

from pyvc import contracts as C
from pyvc.interp import BuiltinFn
from pyvc.values import Opaque, PObj, SV, compare, sv_and, sv_not, tobool

from .common import repo_class

P = "scenic.core.pruning"
conversion_fails = z3.Function("voxel_mesh_conversion_fails", z3.RealSort(), z3.BoolSort())


def register(reg):
    register_maxdist(reg)

    def setup(I, env):
        eng = I.eng
        MeshVolume = repo_class("scenic.core.regions:MeshVolumeRegion")
        Voxel = repo_class("scenic.core.regions:VoxelRegion")
        log = []
        env.vars["_log"] = log

        def region(cls, tag, **f):
            r = PObj(cls, tag=tag)
            r.fields.update(f)
            r.fields.setdefault("orientation", None)
            r.fields.setdefault("size", eng.fresh_real(tag + ".size"))
            r.fields.setdefault("dimensionality", 3)
            return r

        base = region(MeshVolume, "base")
        container = region(MeshVolume, "container")
        calls = []

        def erode(maxErosion, pitch):
            calls.append((maxErosion, pitch))
            # the conversion is deterministic: whether it fails is a function of the voxel pitch
            fails = SV(conversion_fails(z3.RealVal(str(pitch)) if not isinstance(pitch, SV) else pitch.e))
            vox = PObj(Voxel, tag=f"voxels@{pitch}")
            if not eng.branch(tobool(fails)):
                vox.fields["mesh"] = region(MeshVolume, f"eroded@{pitch}")
                vox.fields["mesh"].eroded_from = (container, maxErosion, pitch)
            else:
                vox.fields["mesh"] = None  # "(WIP) ... will sometimes return None"
            return vox

        container.fields["_erodeOverapproximate"] = BuiltinFn("_erodeOverapproximate", erode)
        env.vars["_erode_calls"] = calls

        def intersect(other, base=base):
            r = region(MeshVolume, "base&" + other.tag)
            r.parts = (base, other)
            log.append(("intersect", other))
            return r

        base.fields["intersect"] = BuiltinFn("intersect", intersect)
        position = PObj("PositionDist", tag="position")
        conditioned = []
        position.fields["conditionTo"] = BuiltinFn("conditionTo", lambda v: conditioned.append(v))
        env.vars["_conditioned"] = conditioned
        obj = PObj("Object", tag="obj")
        minRadius = eng.fresh_real("minRadius")
        eng.assume(compare(">=", minRadius, 0))
        obj.fields.update(position=position, pitch=0, roll=0, inradius=Opaque("inradius"), planarInradius=Opaque("planarInradius"))
        scenario = PObj("Scenario", tag="scenario")
        scenario.fields["objects"] = (obj,)
        scenario.fields["containerOfObject"] = BuiltinFn("containerOfObject", lambda o: container)
        env.vars.update(scenario=scenario, verbosity=0, _base=base, _container=container, _minRadius=minRadius, _obj=obj)
        eng.input_syms.append(("minRadius", C.Real(), minRadius))

        def support_interval(I2, thing):
            if isinstance(thing, Opaque) and thing.name in ("inradius", "planarInradius"):
                return (minRadius, None)
            if thing == 0:
                return (0, 0)
            return (None, None)

        reg.models["scenic.core.distributions:supportInterval"] = support_interval
        reg.models[f"{P}:matchInRegion"] = lambda I2, pos: (base, None, None)
        reg.models["scenic.core.regions:Region.uniformPointIn"] = lambda I2, r: ("uniformPointIn", r)
        reg.models[f"{P}:percentagePruned"] = lambda I2, a, b: None

    def post(I, env, outcome):
        eng = I.eng
        name = "pruning.pruneContainment"
        if outcome[0] != "return":
            return
        cond = env.vars["_conditioned"]
        base, container, minRadius = env.vars["_base"], env.vars["_container"], env.vars["_minRadius"]
        calls = env.vars["_erode_calls"]
        # erosion never exceeds the margin the object is known to keep from the container boundary
        for amount, pitch in calls:
            eng.check(f"{name}#ensures.erosion_amount_is_minRadius_minus_maxOffset", sv_and(compare("==", amount, minRadius), compare(">", amount, 0)))
            eng.check(f"{name}#ensures.erosion_pitch_in_(0,1]", sv_and(compare(">", pitch, 0), compare("<=", pitch, 1)))
        # the position is conditioned to a point drawn uniformly in base ∩ (container or an erosion of it)
        eng.check(f"{name}#ensures.position_conditioned_once", len(cond) == 1)
        if len(cond) == 1:
            kind, region = cond[0]
            parts = getattr(region, "parts", None)
            ok = kind == "uniformPointIn" and parts is not None and parts[0] is base and (parts[1] is container or getattr(parts[1], "eroded_from", (None,))[0] is container)
            eng.check(f"{name}#ensures.new_base_is_base_intersected_with_container_or_its_erosion", ok)

    reg.add(
        C.Contract(
            f"{P}:pruneContainment",
            params=dict(scenario=C.Const(None), verbosity=C.Const(0)),
            setup=setup,
            post=post,
            unroll=12,
            raises=[C.Raises("InvalidScenarioError", mode="may")],
            replay=replay_prune_containment,
            note="scenario of one object placed uniformly in a mesh volume with a mesh-volume container (the voxel-erosion arm); "
            "loop exit within 12 iterations is checked on every path",
            properties=("C08",),
        )
    )
    reg.trust("regions (pruneContainment)", "MeshVolumeRegion._erodeOverapproximate returns a VoxelRegion whose .mesh may be None (documented WIP); intersect/uniformPointIn are abstract")


def replay_prune_containment(inputs, clause):
    """Real pruneContainment on a real scenario whose container erosion never yields a mesh."""
    if "terminates" not in clause:
        return None
    import scenic
    from scenic.core import pruning, regions

    src = (
        "workspace = Workspace(BoxRegion(dimensions=(20, 20, 20)))\n"
        "ego = new Object in BoxRegion(dimensions=(10, 10, 10)), with width 2, with length 2, with height 2\n"
    )
    orig = regions.VoxelRegion.mesh
    regions.VoxelRegion.mesh = property(lambda self: None)  # the documented failure mode of the WIP conversion
    try:
        scenic.scenarioFromString(src, mode2D=False)
    finally:
        regions.VoxelRegion.mesh = orig
    return None


def register_maxdist(reg):
    """maxDistanceBetween: the returned value is the tightest of the distance bounds that actually apply --
    a visibility requirement bounds the distance by the VIEWER's visibility bound towards the seen object."""
    import z3

    from pyvc.values import Infinity, compare, sv_ite

    vb = z3.Function("visibilityBound", z3.IntSort(), z3.IntSort(), z3.RealSort())

    def setup(I, env):
        eng = I.eng
        objs = []
        for k, nm in enumerate(("obj", "target", "third")):
            o = PObj("Object", tag=nm)
            o.k = k
            o.fields.update(requireVisible=eng.fresh_bool(f"{nm}.requireVisible"), _observingEntity=None, _relations=())
            objs.append(o)
        obj, target, third = objs
        ego = [obj, target, third, None][eng.choose(4, "ego?")]
        if eng.choose(2, "obj must be visible from target?") == 1:
            obj.fields["_observingEntity"] = target
        if eng.choose(2, "target must be visible from obj?") == 1:
            target.fields["_observingEntity"] = obj
        DR = repo_class("scenic.syntax.relations:DistanceRelation")
        rels = []
        nrel = eng.choose(3, "distance relations")
        uppers = []
        for j in range(nrel):
            r = PObj(DR, tag=f"rel{j}")
            u = eng.fresh_real(f"rel{j}.upper")
            eng.assume(compare(">=", u, 0))
            r.fields.update(target=target if j == 0 else third, lower=0, upper=u)
            if j == 0:
                uppers.append(u)
            rels.append(r)
        obj.fields["_relations"] = tuple(rels)
        scenario = PObj("Scenario", tag="scenario")
        scenario.fields["egoObject"] = ego
        env.vars.update(scenario=scenario, obj=obj, target=target, _ego=ego, _uppers=uppers)

        def vbound(I2, a, b):
            v = SV(vb(a.k, b.k), True)
            eng.assume(compare(">=", v, 0))
            return v

        reg.models[f"{P}:visibilityBound"] = vbound

    def post(I, env, outcome):
        eng = I.eng
        name = "pruning.maxDistanceBetween"
        if outcome[0] != "return":
            return
        obj, target, ego = env.vars["obj"], env.vars["target"], env.vars["_ego"]
        res = outcome[1]
        V = lambda a, b: SV(vb(a.k, b.k), True)
        applicable = []
        if obj is ego:
            applicable.append((target.fields["requireVisible"], V(obj, target)))  # ego must see target
        if target is ego:
            applicable.append((obj.fields["requireVisible"], V(target, obj)))  # ego must see obj
        if obj.fields["_observingEntity"] is target:
            applicable.append((True, V(target, obj)))  # target must see obj
        if target.fields["_observingEntity"] is obj:
            applicable.append((True, V(obj, target)))  # obj must see target
        for u in env.vars["_uppers"]:
            applicable.append((True, u))
        # soundness: the result never exceeds ... and never undercuts: it is below-or-equal every applicable bound
        # and equal to one of them (or infinite when none applies)
        finite = not isinstance(res, Infinity)
        conds = []
        for c, b in applicable:
            if finite:
                eng.check(f"{name}#ensures.result_at_most_every_applicable_bound", z3.Implies(tobool(c) if not isinstance(c, bool) else z3.BoolVal(c), tobool(compare("<=", res, b))))
            conds.append((c, b))
        if finite:
            eng.check(f"{name}#ensures.result_is_one_of_the_applicable_bounds", z3.Or(*[z3.And(tobool(c) if not isinstance(c, bool) else z3.BoolVal(c), tobool(compare("==", res, b))) for c, b in conds]) if conds else z3.BoolVal(False))
        else:
            eng.check(f"{name}#ensures.infinite_only_if_no_bound_applies", z3.And(*[z3.Not(tobool(c) if not isinstance(c, bool) else z3.BoolVal(c)) for c, b in conds]) if conds else z3.BoolVal(True))

    def replay(inputs, clause):
        """The real maxDistanceBetween on real objects, for every combination of ego / observing entities / visibility
        flags / distance relations of the contract's input space; the three objects have different visible distances,
        so the bound of the wrong viewer is a different number."""
        import itertools
        import types

        import scenic.core.pruning as RP
        from scenic.core.object_types import Object
        from scenic.core.vectors import Vector
        from scenic.syntax.relations import DistanceRelation

        inf = float("inf")
        for egok, oe_obj, oe_tgt, rv_obj, rv_tgt, nrel in itertools.product(range(4), (False, True), (False, True), (False, True), (False, True), range(3)):
            objs = [Object._with(position=Vector(10 * k, 0, 0), visibleDistance=d, requireVisible=False) for k, d in enumerate((7.0, 19.0, 31.0))]
            obj, target, third = objs
            object.__setattr__(obj, "requireVisible", rv_obj)
            object.__setattr__(target, "requireVisible", rv_tgt)
            for o in objs:
                object.__setattr__(o, "_observingEntity", None)
                object.__setattr__(o, "_relations", [])
            if oe_obj:
                object.__setattr__(obj, "_observingEntity", target)
            if oe_tgt:
                object.__setattr__(target, "_observingEntity", obj)
            rels = [DistanceRelation(target if j == 0 else third, 0, 23.0 + j) for j in range(nrel)]
            object.__setattr__(obj, "_relations", rels)
            ego = [obj, target, third, None][egok]
            scenario = types.SimpleNamespace(egoObject=ego)
            got = RP.maxDistanceBetween(scenario, obj, target)
            bounds = []
            if obj is ego and rv_tgt:
                bounds.append(("ego (obj) must see target", RP.visibilityBound(obj, target)))
            if target is ego and rv_obj:
                bounds.append(("ego (target) must see obj", RP.visibilityBound(target, obj)))
            if oe_obj:
                bounds.append(("obj must be visible from target", RP.visibilityBound(target, obj)))
            if oe_tgt:
                bounds.append(("target must be visible from obj", RP.visibilityBound(obj, target)))
            if nrel >= 1:
                bounds.append(("distance relation", 23.0))
            want = min([b for _, b in bounds], default=inf)
            if abs(got - want) > 1e-9 if want != inf else got != inf:
                return (
                    f"maxDistanceBetween(obj, target) = {got} but the tightest applicable bound is {want} {bounds} "
                    f"(visible distances obj 7, target 19, third 31; ego = {['obj', 'target', 'third', 'none'][egok]})"
                )
        return None

    reg.add(
        C.Contract(
            f"{P}:maxDistanceBetween",
            params=dict(scenario=C.Const(None), obj=C.Const(None), target=C.Const(None)),
            setup=setup,
            post=post,
            replay=replay,
            properties=("C08",),
        )
    )
    reg.trust("visibilityBound (in maxDistanceBetween)", "abstract non-negative bound vb(viewer, seen) on the distance at which `viewer` can see `seen`")
