"""Sidecar contracts for scenic.core.pruning (C08): containment pruning -- termination of the erosion
retry loop, erosion only by a provable margin, pruned region = base intersected with the (eroded) container.

Geometry is abstract: regions are heap objects; `_erodeOverapproximate`, `buffer`, `intersect` are modelled
by their documented set semantics (trusted, listed)."""
import z3

from pyvc import contracts as C
from pyvc.interp import BuiltinFn
from pyvc.values import Opaque, PObj, SV, compare, sv_and, sv_not, tobool

from .common import repo_class

P = "scenic.core.pruning"
conversion_fails = z3.Function("voxel_mesh_conversion_fails", z3.RealSort(), z3.BoolSort())


def register(reg):
    def setup(I, env):
        eng = I.eng
        MeshVolume = repo_class("scenic.core.regions:MeshVolumeRegion")
        Voxel = repo_class("scenic.core.regions:VoxelRegion")
        log = []
        env.vars["_log"] = log

        def region(cls, tag, **f):
            r = PObj(cls, tag=tag)
            r.fields.update(f)
            r.fields.setdefault("orientation", None)
            r.fields.setdefault("size", eng.fresh_real(tag + ".size"))
            r.fields.setdefault("dimensionality", 3)
            return r

        base = region(MeshVolume, "base")
        container = region(MeshVolume, "container")
        calls = []

        def erode(maxErosion, pitch):
            calls.append((maxErosion, pitch))
            # the conversion is deterministic: whether it fails is a function of the voxel pitch
            fails = SV(conversion_fails(z3.RealVal(str(pitch)) if not isinstance(pitch, SV) else pitch.e))
            vox = PObj(Voxel, tag=f"voxels@{pitch}")
            if not eng.branch(tobool(fails)):
                vox.fields["mesh"] = region(MeshVolume, f"eroded@{pitch}")
                vox.fields["mesh"].eroded_from = (container, maxErosion, pitch)
            else:
                vox.fields["mesh"] = None  # "(WIP) ... will sometimes return None"
            return vox

        container.fields["_erodeOverapproximate"] = BuiltinFn("_erodeOverapproximate", erode)
        env.vars["_erode_calls"] = calls

        def intersect(other, base=base):
            r = region(MeshVolume, "base&" + other.tag)
            r.parts = (base, other)
            log.append(("intersect", other))
            return r

        base.fields["intersect"] = BuiltinFn("intersect", intersect)
        position = PObj("PositionDist", tag="position")
        conditioned = []
        position.fields["conditionTo"] = BuiltinFn("conditionTo", lambda v: conditioned.append(v))
        env.vars["_conditioned"] = conditioned
        obj = PObj("Object", tag="obj")
        minRadius = eng.fresh_real("minRadius")
        eng.assume(compare(">=", minRadius, 0))
        obj.fields.update(position=position, pitch=0, roll=0, inradius=Opaque("inradius"), planarInradius=Opaque("planarInradius"))
        scenario = PObj("Scenario", tag="scenario")
        scenario.fields["objects"] = (obj,)
        scenario.fields["containerOfObject"] = BuiltinFn("containerOfObject", lambda o: container)
        env.vars.update(scenario=scenario, verbosity=0, _base=base, _container=container, _minRadius=minRadius, _obj=obj)
        eng.input_syms.append(("minRadius", C.Real(), minRadius))

        def support_interval(I2, thing):
            if isinstance(thing, Opaque) and thing.name in ("inradius", "planarInradius"):
                return (minRadius, None)
            if thing == 0:
                return (0, 0)
            return (None, None)

        reg.models["scenic.core.distributions:supportInterval"] = support_interval
        reg.models[f"{P}:matchInRegion"] = lambda I2, pos: (base, None, None)
        reg.models["scenic.core.regions:Region.uniformPointIn"] = lambda I2, r: ("uniformPointIn", r)
        reg.models[f"{P}:percentagePruned"] = lambda I2, a, b: None

    def post(I, env, outcome):
        eng = I.eng
        name = "pruning.pruneContainment"
        if outcome[0] != "return":
            return
        cond = env.vars["_conditioned"]
        base, container, minRadius = env.vars["_base"], env.vars["_container"], env.vars["_minRadius"]
        calls = env.vars["_erode_calls"]
        # erosion never exceeds the margin the object is known to keep from the container boundary
        for amount, pitch in calls:
            eng.check(f"{name}#ensures.erosion_amount_is_minRadius_minus_maxOffset", sv_and(compare("==", amount, minRadius), compare(">", amount, 0)))
            eng.check(f"{name}#ensures.erosion_pitch_in_(0,1]", sv_and(compare(">", pitch, 0), compare("<=", pitch, 1)))
        # the position is conditioned to a point drawn uniformly in base ∩ (container or an erosion of it)
        eng.check(f"{name}#ensures.position_conditioned_once", len(cond) == 1)
        if len(cond) == 1:
            kind, region = cond[0]
            parts = getattr(region, "parts", None)
            ok = kind == "uniformPointIn" and parts is not None and parts[0] is base and (parts[1] is container or getattr(parts[1], "eroded_from", (None,))[0] is container)
            eng.check(f"{name}#ensures.new_base_is_base_intersected_with_container_or_its_erosion", ok)

    reg.add(
        C.Contract(
            f"{P}:pruneContainment",
            params=dict(scenario=C.Const(None), verbosity=C.Const(0)),
            setup=setup,
            post=post,
            unroll=12,
            raises=[C.Raises("InvalidScenarioError", mode="may")],
            replay=replay_prune_containment,
            note="scenario of one object placed uniformly in a mesh volume with a mesh-volume container (the voxel-erosion arm); "
            "loop exit within 12 iterations is checked on every path",
            properties=("C08",),
        )
    )
    reg.trust("regions (pruneContainment)", "MeshVolumeRegion._erodeOverapproximate returns a VoxelRegion whose .mesh may be None (documented WIP); intersect/uniformPointIn are abstract")


def replay_prune_containment(inputs, clause):
    """Real pruneContainment on a real scenario whose container erosion never yields a mesh."""
    if "terminates" not in clause:
        return None
    import scenic
    from scenic.core import pruning, regions

    src = (
        "workspace = Workspace(BoxRegion(dimensions=(20, 20, 20)))\n"
        "ego = new Object in BoxRegion(dimensions=(10, 10, 10)), with width 2, with length 2, with height 2\n"
    )
    orig = regions.VoxelRegion.mesh
    regions.VoxelRegion.mesh = property(lambda self: None)  # the documented failure mode of the WIP conversion
    try:
        scenic.scenarioFromString(src, mode2D=False)
    finally:
        regions.VoxelRegion.mesh = orig
    return None
