"""Property fragment for C03 (points drawn in/on a region lie in it)."""

PROPERTIES = {
    "C03": dict(
        modules=["samplers"],
        level="proof",
        claim="membership of sampled points and rng-trace laws of the samplers; circumcircles enclose their regions",
        note="see evidence.trusted_base",
        assumptions=[],
        not_reached=[],
    )
}
