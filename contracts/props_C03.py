"""Property fragment for C03 (points drawn in/on a region lie in it)."""

PROPERTIES = {
    "C03": dict(
        modules=["samplers"],
        # points drawn in a mesh composed with a polygonal footprint are only in the composed set if the bounded
        # footprint covers the mesh's vertical extent (cache-soundness contract written for C16)
        borrow=dict(modules=["regions"], match=["approxBoundFootprint"]),
        level="proof",
        claim=(
            "membership and RNG-trace laws of the samplers: Rectangular/Circular/SectorRegion.uniformPointInner (draws, their arguments, point as "
            "a function of the draws, membership in the region at its height); PointSetRegion.uniformPointInner (randrange(0, n), result = points[i]); "
            "the point-set x region sampler (candidates = exactly the points of the set in the other region, one uniform choice); "
            "Intersection/Difference/UnionRegion.genericSampler (member of every operand / of A and not B / of the chosen operand of maximal "
            "dimension weighted by size, accepted iff u >= 1 - 1/k with k counted over ALL operands); every circumcircle "
            "(Circular, Sector, Rectangular, Mesh) encloses its region; GridRegion.gridToPoint/pointToGrid (affine map, nearest index, round trip); "
            "polygon sampling: triangulatePolygon (+ triangulatePolygon_mapbox) returns exactly the trusted earcut triangulation of the polygon handed over ring by ring "
            "(so the triangles lie inside it and tile it), PolygonalRegion._samplingData lists all triangles of all polygons with their bounds and the prefix sums of their areas, "
            "PolygonalRegion.uniformPointInner draws the triangle with random.choices over those weights and returns an accepted candidate inside the chosen triangle at height z; "
            "polylines: PolylineRegion.__init__ / segmentsOf (one segment per consecutive pair of vertices of every chain, none between chains, cumulativeLengths = prefix sums of the Euclidean segment lengths), "
            "PolylineRegion.uniformPointInner and PathRegion.uniformPointInner (one random.choices over the segments / edges with weights proportional to their lengths, one uniform parameter t in [0, 1], "
            "result = A + t (B - A) on the drawn segment in all three coordinates, z = 0 for a PolylineRegion); "
            "GridRegion.__init__ (the point table is exactly the grid points of the free cells, one per free cell), GridRegion.containsPoint (true exactly when the nearest grid point is a free cell, "
            "ties excepted; every point that can be drawn is a member)"
        ),
        note="trigonometry by axioms A2 (Pythagoras, quarter-turn shift); polygons of the planar primitives are stubs (membership is judged on the exact disc / sector / rectangle)",
        assumptions=[
            "A3: laws of the library RNG primitives (random, uniform, triangular, randrange, choices, choice)",
            "an operand's own sampler returns one of its members (this property for the operands: assume-guarantee)",
            "KD-tree query_ball_point returns exactly the points within the radius",
            "numpy.where(mask) lists exactly the true entries once, in row-major order (N-where); PointSetRegion.__init__ stores the points in the order given (stub)",
        ],
        not_reached=[
            "uniformity of the continuous samplers (change of variables for triangular radius x uniform angle, triangle rejection in PolygonalRegion.uniformPointInner): statistical, not deductive",
            "termination of the rejection loop of PolygonalRegion.uniformPointInner (almost sure only; an arbitrary iteration is verified)",
            "MeshVolumeRegion/MeshSurfaceRegion/VoxelRegion.uniformPointInner (trimesh.sample / numpy internals)",
            "PathRegion.__init__ (vertex de-duplication through a dict keyed by Vectors, numpy edge arrays): the invariant edge_lengths[i] = |end points of edge i| > 0 is assumed by the sampler's contract",
            "the heading attached to a point drawn on a PolylineRegion (headingOfSegment is a stub: orientation is not part of the property)",
            "GridRegion.containsObject; GridRegion with symbolic grid size (the point table and membership are verified for 1x1, 2x2, 2x3 grids; the index maps for every size)",
        ],
        bounded=[
            "point-set x region sampler: 2 points",
            "generic samplers: 2 (intersection) / 2-3 (union) operands",
            "triangulatePolygon: rings of 3..5 vertices, 0..1 hole; _samplingData: 1..2 polygons; uniformPointInner: 1..3 triangles",
            "PolylineRegion.__init__: one chain of 2..4 vertices (points or LineString); segmentsOf: MultiLineString of two chains (2+2 / 2+3 / 3+2 vertices); PolylineRegion.uniformPointInner: 1..3 segments; PathRegion.uniformPointInner: 1..3 edges over 2..4 vertices",
            "GridRegion.__init__ / containsPoint: grids of 1x1, 2x2, 2x3 cells (symbolic entries, spacings, offsets)",
            "stand-in polygon_catalogue (never counted as proved): real triangulation + sampling on triangles, convex/concave quadrilaterals in every rotation and winding, larger polygons, polygons with holes; exact shapely checks",
        ],
    )
}
