"""Shared types and helpers for contract files."""
import z3

from pyvc import contracts as C
from pyvc import extract
from pyvc.interp import ClassVal
from pyvc.values import PObj, SV


def repo_class(full):
    mod, nm = full.split(":")
    return ClassVal.get(mod, extract.get_module(mod).top[nm])


class VectorT(C.Type):
    """A concrete (non-random) scenic.core.vectors.Vector with symbolic real coordinates."""

    def __init__(self, z=True):
        self.z = z

    def fresh(self, eng, name, I=None):
        o = PObj(repo_class("scenic.core.vectors:Vector"), tag=name)
        coords = (eng.fresh_real(name + ".x"), eng.fresh_real(name + ".y"), eng.fresh_real(name + ".z") if self.z else 0)
        o.fields.update(coordinates=coords, _dependencies=(), _requiredProperties=(), _needsSampling=False, _needsLazyEval=False, _isLazy=False)
        o.fields["_conditioned"] = o
        return o

    def concretize(self, eng, model, val):
        return [eng.eval_model(model, c) for c in val.fields["coordinates"]]


def make_vector(x, y, z=0):
    o = PObj(repo_class("scenic.core.vectors:Vector"))
    o.fields.update(coordinates=(x, y, z), _dependencies=(), _requiredProperties=(), _needsSampling=False, _needsLazyEval=False, _isLazy=False)
    o.fields["_conditioned"] = o
    return o


def install_distribution_stubs(reg):
    """Trusted stubs for the book-keeping constructors (dependency lists only; verified separately under
    C01's Samplable.__init__ contract)."""
    from pyvc.builtins_model import get_attr
    from pyvc.interp import SymRaise

    def is_lazy(I, d):
        if isinstance(d, PObj):
            return bool(d.fields.get("_isLazy", False)) if not isinstance(d.fields.get("_isLazy", False), SV) else True
        return False

    def dist_init(I, self, *deps, valueType=None):
        self.fields["_dependencies"] = tuple(d for d in deps if is_lazy(I, d))
        self.fields["_requiredProperties"] = ()
        self.fields["_needsSampling"] = True
        self.fields["_needsLazyEval"] = False
        self.fields["_isLazy"] = True
        self.fields["_conditioned"] = self
        self.fields["_valueType"] = valueType
        return None

    if "scenic.core.distributions:Distribution.__init__" not in reg.models:
        reg.models["scenic.core.distributions:Distribution.__init__"] = dist_init
        reg.models["scenic.core.type_support:unifyingType"] = lambda I, opts: object
        reg.models["scenic.core.type_support:toScalar"] = lambda I, v, msg=None: v
        reg.trust("Distribution.__init__", "stub: records the lazy dependencies in argument order and marks the node as needing sampling")
        reg.trust("type_support.unifyingType/toScalar", "stubs: type inference only (not a carrier)")
