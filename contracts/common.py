"""Shared types and helpers for contract files."""
import z3

from pyvc import contracts as C
from pyvc import extract
from pyvc.interp import ClassVal
from pyvc.values import PObj, SV


def repo_class(full):
    mod, nm = full.split(":")
    return ClassVal.get(mod, extract.get_module(mod).top[nm])


class VectorT(C.Type):
    """A concrete (non-random) scenic.core.vectors.Vector with symbolic real coordinates."""

    def __init__(self, z=True):
        self.z = z

    def fresh(self, eng, name, I=None):
        o = PObj(repo_class("scenic.core.vectors:Vector"), tag=name)
        coords = (eng.fresh_real(name + ".x"), eng.fresh_real(name + ".y"), eng.fresh_real(name + ".z") if self.z else 0)
        o.fields.update(coordinates=coords, _dependencies=(), _requiredProperties=(), _needsSampling=False, _needsLazyEval=False, _isLazy=False)
        o.fields["_conditioned"] = o
        return o

    def concretize(self, eng, model, val):
        return [eng.eval_model(model, c) for c in val.fields["coordinates"]]


def make_vector(x, y, z=0):
    o = PObj(repo_class("scenic.core.vectors:Vector"))
    o.fields.update(coordinates=(x, y, z), _dependencies=(), _requiredProperties=(), _needsSampling=False, _needsLazyEval=False, _isLazy=False)
    o.fields["_conditioned"] = o
    return o
