"""Sidecar contract for `scenic.syntax.compiler:PropositionTransformer.transform` (C11): requirement syntax -> proposition
factory calls.

Oracle (property statement): the operators of the requirement keep their meaning -- `always/eventually/next X`, `X until Y`,
`X implies Y`, `X and Y`, `X or Y`, `not X` become the factory call of the SAME operator with the operands in source order --
and every maximal non-temporal, non-Boolean sub-expression becomes ONE atomic proposition whose closure evaluates exactly that
expression (`lambda: <expr>`), with syntax ids unique and increasing left to right from the given start; the returned next
id is start + number of atoms.

The input trees are produced by the REAL Scenic parser from a list of requirement sources (bounded: the list below, chosen
to contain every operator, every nesting the grammar admits for them, and n-ary and/or); the transformer itself is
interpreted (its real code; `ast.NodeTransformer.visit/generic_visit` are modelled as dispatch on the node's class name /
traversal of the child nodes)."""
import ast as pyast

from pyvc import contracts as C
from pyvc.interp import BuiltinFn
from pyvc.values import PList, PObj, PyvcError

from .common import repo_class
from .rvltl import short_of

COMP = "scenic.syntax.compiler"

SOURCES = [
    "require always x > 0",
    "require eventually f(x)",
    "require next x.y",
    "require next next x",
    "require x until y",
    "require (x until y) until z",
    "require x until (y until z)",
    "require always x until y",
    "require x implies (always y)",
    "require always (x implies next y)",
    "require (always x) and (eventually y)",
    "require (always x) or y or z",
    "require not (always x)",
    "require always (x and next y and not z)",
    "require eventually (x until y)",
    "require always not x",
    "require x > 0 and y",
    "require x",
    "require not x",
    "require always (x if y else z)",
    "require always (a + b < c or d)",
]

FACTORY = {"Always": "always", "Eventually": "eventually", "Next": "next", "Until": "until", "Implies": "implies", "PropositionAnd": "and", "PropositionOr": "or", "PropositionNot": "not"}


def parse_requirement(src):
    from scenic.syntax.parser import parse_string

    tree = parse_string(src + "\n", "exec")
    return tree.body[0].cond


def expected(node):
    """formula structure read off the SOURCE tree (Scenic syntax classes by name): atoms are unparsed source expressions"""
    name = type(node).__name__
    if name in ("Always", "Eventually", "Next"):
        return (name.lower(), expected(node.value))
    if name == "UntilOp":
        return ("until", expected(node.left), expected(node.right))
    if name == "ImpliesOp":
        return ("implies", expected(node.hypothesis), expected(node.conclusion))
    if isinstance(node, pyast.BoolOp):
        return ("and" if isinstance(node.op, pyast.And) else "or",) + tuple(expected(v) for v in node.values)
    if isinstance(node, pyast.UnaryOp) and isinstance(node.op, pyast.Not):
        return ("not", expected(node.operand))
    return ("atom", pyast.unparse(node))


def items(x):
    return list(x.items) if isinstance(x, PList) else list(x)


def decode(call, ids):
    """formula structure of the OUTPUT tree; appends the atoms' syntax ids to `ids` in left-to-right order"""
    if not (isinstance(call, pyast.Call) and isinstance(call.func, pyast.Name)):
        return ("?", type(call).__name__)
    fid = call.func.id
    args = items(call.args)
    if fid == "AtomicProposition":
        kws = {k.arg: k.value for k in items(call.keywords)}
        lam = args[0] if args else None
        sid = kws.get("syntaxId")
        ids.append(sid.value if isinstance(sid, pyast.Constant) else None)
        if not isinstance(lam, pyast.Lambda) or items(lam.args.args) or items(lam.args.posonlyargs) or items(lam.args.kwonlyargs) or lam.args.vararg or lam.args.kwarg:
            return ("?", "atomic closure is not a zero-argument lambda")
        return ("atom", pyast.unparse(lam.body))
    if fid not in FACTORY:
        return ("?", fid)
    if fid in ("PropositionAnd", "PropositionOr"):
        if len(args) != 1 or not isinstance(args[0], pyast.List):
            return ("?", f"{fid} without operand list")
        return (FACTORY[fid],) + tuple(decode(a, ids) for a in items(args[0].elts))
    return (FACTORY[fid],) + tuple(decode(a, ids) for a in args)


def count_atoms(f):
    return 1 if f[0] == "atom" else sum(count_atoms(g) for g in f[1:])


def register(reg):
    tgt = f"{COMP}:PropositionTransformer.transform"
    cn = short_of(tgt)

    # ---- ast.NodeTransformer protocol (library model): visit = dispatch on the class name, generic_visit = visit the children
    def visit_hook(I, obj):
        def visit(node):
            m = I.find_method(obj.cls, "visit_" + type(node).__name__)
            if m is None:
                g = I.find_method(obj.cls, "generic_visit")
                if g is None:
                    return generic(I, obj, node)
                return I.call_function(g, [obj, node], {})
            return I.call_function(m, [obj, node], {})

        return BuiltinFn("visit", visit)

    def generic(I, obj, node):
        visit = I.get_attr(obj, "visit")
        for fld in getattr(node, "_fields", ()):
            old = getattr(node, fld, None)
            if isinstance(old, (list, PList)):
                for it in items(old):
                    if isinstance(it, pyast.AST):
                        I.call_value(visit, [it])
            elif isinstance(old, pyast.AST):
                I.call_value(visit, [old])
        return node

    for c in ("PropositionTransformer", "AtomicCheckTransformer"):
        reg.attr_hooks[(f"{COMP}:{c}", "visit")] = visit_hook
    reg.attr_hooks[(f"{COMP}:AtomicCheckTransformer", "generic_visit")] = lambda I, obj: BuiltinFn("generic_visit", lambda node: generic(I, obj, node))
    reg.trust("ast.NodeTransformer", "model: visit(node) calls visit_<ClassName> if defined else generic_visit; generic_visit visits every child node and returns the node")

    def setup(I, env):
        eng = I.eng
        src = SOURCES[eng.choose(len(SOURCES), "requirement")]
        start = [0, 5][eng.choose(2, "first syntax id")]
        eng.input_syms.append(("source", C.Const(src), src))
        eng.input_syms.append(("start", C.Const(start), start))
        node = parse_requirement(src)
        want = expected(node)  # read before the transformer runs (it edits nodes in place)
        self = PObj(repo_class(f"{COMP}:PropositionTransformer"), tag="self")
        self.fields.update(filename="<test>", nextSyntaxId=0)
        env.vars.update(self=self, node=node, nextSyntaxId=start, _want=want, _start=start)

    def post(I, env, outcome):
        eng = I.eng
        if outcome[0] != "return":
            return
        want, start = env.vars["_want"], env.vars["_start"]
        res = outcome[1]
        ok = isinstance(res, tuple) and len(res) == 2
        eng.check(f"{cn}#ensures.returns_tree_and_next_id", ok)
        if not ok:
            return
        ids = []
        got = decode(res[0], ids)
        eng.check(f"{cn}#ensures.same_operators_same_operand_order_atoms_are_the_source_expressions", got == want, detail=f"got {got}, expected {want}")
        n = count_atoms(want)
        eng.check(f"{cn}#ensures.syntax_ids_unique_increasing_from_start", ids == list(range(start, start + n)), detail=f"ids {ids}")
        eng.check(f"{cn}#ensures.next_id_is_start_plus_number_of_atoms", res[1] == start + n)

    def replay(inputs, clause):
        from scenic.syntax.compiler import PropositionTransformer

        srcs = ([inputs["source"]] if inputs.get("source") in SOURCES else []) + SOURCES
        for src in srcs:
            for start in (int(inputs.get("start", 0) or 0), 0, 5):
                node = parse_requirement(src)
                want = expected(node)
                out, nxt = PropositionTransformer("<test>").transform(node, start)
                ids = []
                got = decode(out, ids)
                n = count_atoms(want)
                if got != want:
                    return f"`{src}` is compiled to the proposition {got}; the source means {want}"
                if ids != list(range(start, start + n)) or nxt != start + n:
                    return f"`{src}` (first id {start}): atoms get the syntax ids {ids}, next id {nxt}; expected {list(range(start, start + n))} and {start + n}"
        return None

    reg.add(
        C.Contract(
            tgt,
            params=dict(self=C.Const(None), node=C.Const(None), nextSyntaxId=C.Const(None)),
            setup=setup,
            post=post,
            raises=[C.Raises("ScenicParseError", mode="may")],
            inline_all=True,
            replay=replay,
            bounded=True,
            note=f"{len(SOURCES)} requirement sources parsed by the real Scenic parser (every operator, the nestings the grammar admits, n-ary and/or), first syntax id 0 or 5",
            properties=("C11",),
        )
    )
