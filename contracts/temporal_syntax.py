"""Sidecar contract for `scenic.syntax.compiler:PropositionTransformer.transform` (C11): requirement syntax -> proposition
factory calls.

Oracle (property statement): the operators of the requirement keep their meaning -- `always/eventually/next X`, `X until Y`,
`X implies Y`, `X and Y`, `X or Y`, `not X` become the factory call of the SAME operator with the operands in source order --
and every maximal non-temporal, non-Boolean sub-expression becomes ONE atomic proposition whose closure evaluates exactly that
expression (`lambda: <expr>`), with syntax ids unique and increasing left to right from the given start; the returned next
id is start + number of atoms.

The input trees are produced by the REAL Scenic parser from a list of requirement sources (bounded: the list below, chosen
to contain every operator, every nesting the grammar admits for them, and n-ary and/or); the transformer itself is
interpreted (its real code; `ast.NodeTransformer.visit/generic_visit` are modelled as dispatch on the node's class name /
traversal of the child nodes)."""
import ast as pyast

from pyvc import contracts as C
from pyvc.interp import BuiltinFn
from pyvc.values import PList, PObj, PyvcError

from .common import repo_class
from .rvltl import short_of

COMP = "scenic.syntax.compiler"

SOURCES = [
    "require always x > 0",
    "require eventually f(x)",
    "require next x.y",
    "require next next x",
    "require x until y",
    "require (x until y) until z",
    "require x until (y until z)",
    "require always x until y",
    "require x implies (always y)",
    "require always (x implies next y)",
    "require (always x) and (eventually y)",
    "require (always x) or y or z",
    "require not (always x)",
    "require always (x and next y and not z)",
    "require eventually (x until y)",
    "require always not x",
    "require x > 0 and y",
    "require x",
    "require not x",
    "require always (x if y else z)",
    "require always (a + b < c or d)",
]

FACTORY = {"Always": "always", "Eventually": "eventually", "Next": "next", "Until": "until", "Implies": "implies", "PropositionAnd": "and", "PropositionOr": "or", "PropositionNot": "not"}


def parse_requirement(src):
    from scenic.syntax.parser import parse_string

    tree = parse_string(src + "\n", "exec")
    return tree.body[0].cond


def expected(node):
    """formula structure read off the SOURCE tree (Scenic syntax classes by name): atoms are unparsed source expressions"""
    name = type(node).__name__
    if name in ("Always", "Eventually", "Next"):
        return (name.lower(), expected(node.value))
    if name == "UntilOp":
        return ("until", expected(node.left), expected(node.right))
    if name == "ImpliesOp":
        return ("implies", expected(node.hypothesis), expected(node.conclusion))
    if isinstance(node, pyast.BoolOp):
        return ("and" if isinstance(node.op, pyast.And) else "or",) + tuple(expected(v) for v in node.values)
    if isinstance(node, pyast.UnaryOp) and isinstance(node.op, pyast.Not):
        return ("not", expected(node.operand))
    return ("atom", pyast.unparse(node))


def items(x):
    return list(x.items) if isinstance(x, PList) else list(x)


def decode(call, ids):
    """formula structure of the OUTPUT tree; appends the atoms' syntax ids to `ids` in left-to-right order"""
    if not (isinstance(call, pyast.Call) and isinstance(call.func, pyast.Name)):
        return ("?", type(call).__name__)
    fid = call.func.id
    args = items(call.args)
    if fid == "AtomicProposition":
        kws = {k.arg: k.value for k in items(call.keywords)}
        lam = args[0] if args else None
        sid = kws.get("syntaxId")
        ids.append(sid.value if isinstance(sid, pyast.Constant) else None)
        if not isinstance(lam, pyast.Lambda) or items(lam.args.args) or items(lam.args.posonlyargs) or items(lam.args.kwonlyargs) or lam.args.vararg or lam.args.kwarg:
            return ("?", "atomic closure is not a zero-argument lambda")
        return ("atom", pyast.unparse(lam.body))
    if fid not in FACTORY:
        return ("?", fid)
    if fid in ("PropositionAnd", "PropositionOr"):
        if len(args) != 1 or not isinstance(args[0], pyast.List):
            return ("?", f"{fid} without operand list")
        return (FACTORY[fid],) + tuple(decode(a, ids) for a in items(args[0].elts))
    return (FACTORY[fid],) + tuple(decode(a, ids) for a in args)


def count_atoms(f):
    return 1 if f[0] == "atom" else sum(count_atoms(g) for g in f[1:])


def register(reg):
    tgt = f"{COMP}:PropositionTransformer.transform"
    cn = short_of(tgt)

    # ---- ast.NodeTransformer protocol (library model): visit = dispatch on the class name, generic_visit = visit the children
    def visit_hook(I, obj):
        def visit(node):
            m = I.find_method(obj.cls, "visit_" + type(node).__name__)
            if m is None:
                g = I.find_method(obj.cls, "generic_visit")
                if g is None:
                    return generic(I, obj, node)
                return I.call_function(g, [obj, node], {})
            return I.call_function(m, [obj, node], {})

        return BuiltinFn("visit", visit)

    def generic(I, obj, node):
        visit = I.get_attr(obj, "visit")
        for fld in getattr(node, "_fields", ()):
            old = getattr(node, fld, None)
            if isinstance(old, (list, PList)):
                for it in items(old):
                    if isinstance(it, pyast.AST):
                        I.call_value(visit, [it])
            elif isinstance(old, pyast.AST):
                I.call_value(visit, [old])
        return node

    for c in ("PropositionTransformer", "AtomicCheckTransformer"):
        reg.attr_hooks[(f"{COMP}:{c}", "visit")] = visit_hook
    reg.attr_hooks[(f"{COMP}:AtomicCheckTransformer", "generic_visit")] = lambda I, obj: BuiltinFn("generic_visit", lambda node: generic(I, obj, node))
    reg.trust("ast.NodeTransformer", "model: visit(node) calls visit_<ClassName> if defined else generic_visit; generic_visit visits every child node and returns the node")

    def setup(I, env):
        eng = I.eng
        src = SOURCES[eng.choose(len(SOURCES), "requirement")]
        start = [0, 5][eng.choose(2, "first syntax id")]
        eng.input_syms.append(("source", C.Const(src), src))
        eng.input_syms.append(("start", C.Const(start), start))
        node = parse_requirement(src)
        want = expected(node)  # read before the transformer runs (it edits nodes in place)
        self = PObj(repo_class(f"{COMP}:PropositionTransformer"), tag="self")
        self.fields.update(filename="<test>", nextSyntaxId=0)
        env.vars.update(self=self, node=node, nextSyntaxId=start, _want=want, _start=start)

    def post(I, env, outcome):
        eng = I.eng
        if outcome[0] != "return":
            return
        want, start = env.vars["_want"], env.vars["_start"]
        res = outcome[1]
        ok = isinstance(res, tuple) and len(res) == 2
        eng.check(f"{cn}#ensures.returns_tree_and_next_id", ok)
        if not ok:
            return
        ids = []
        got = decode(res[0], ids)
        eng.check(f"{cn}#ensures.same_operators_same_operand_order_atoms_are_the_source_expressions", got == want, detail=f"got {got}, expected {want}")
        n = count_atoms(want)
        eng.check(f"{cn}#ensures.syntax_ids_unique_increasing_from_start", ids == list(range(start, start + n)), detail=f"ids {ids}")
        eng.check(f"{cn}#ensures.next_id_is_start_plus_number_of_atoms", res[1] == start + n)

    def replay(inputs, clause):
        from scenic.syntax.compiler import PropositionTransformer

        srcs = ([inputs["source"]] if inputs.get("source") in SOURCES else []) + SOURCES
        for src in srcs:
            for start in (int(inputs.get("start", 0) or 0), 0, 5):
                node = parse_requirement(src)
                want = expected(node)
                out, nxt = PropositionTransformer("<test>").transform(node, start)
                ids = []
                got = decode(out, ids)
                n = count_atoms(want)
                if got != want:
                    return f"`{src}` is compiled to the proposition {got}; the source means {want}"
                if ids != list(range(start, start + n)) or nxt != start + n:
                    return f"`{src}` (first id {start}): atoms get the syntax ids {ids}, next id {nxt}; expected {list(range(start, start + n))} and {start + n}"
        return None

    reg.add(
        C.Contract(
            tgt,
            params=dict(self=C.Const(None), node=C.Const(None), nextSyntaxId=C.Const(None)),
            setup=setup,
            post=post,
            raises=[C.Raises("ScenicParseError", mode="may")],
            inline_all=True,
            replay=replay,
            bounded=True,
            note=f"{len(SOURCES)} requirement sources parsed by the real Scenic parser (every operator, the nestings the grammar admits, n-ary and/or), first syntax id 0 or 5",
            properties=("C11",),
        )
    )


# ====================================================================================================
# ScenicToPythonTransformer.createRequirementLike: the proposition tree is wrapped, unchanged, into the veneer call
#
# Oracle (property statement + reference of `require`): the compiled statement is ONE call of the function implementing the
# statement (`require`) whose arguments are the id under which the source syntax is registered, the proposition tree of the
# SOURCE formula (same operators, operands in source order, atoms = the source expressions), the line number and the name
# given by the user, and -- as keyword -- the probability written in the statement; the transformer's atom counter advances
# by the number of atoms so that later requirements get fresh ids.

RL_CASES = [
    # (index into SOURCES, line, name, probability, already registered requirements, first syntax id)
    (0, 3, None, None, 0, 0),
    (4, 7, "safe", None, 2, 5),
    (9, 12, None, None, 1, 3),
    (13, 1, "r", None, 0, 0),
    (16, 4, "both", 0.5, 3, 2),
    (17, 9, None, 0.25, 0, 7),
    (20, 2, None, None, 1, 1),
]


def register_create_requirement_like(reg):
    tgt = f"{COMP}:ScenicToPythonTransformer.createRequirementLike"
    cn = short_of(tgt)

    def setup(I, env):
        eng = I.eng
        k = eng.choose(len(RL_CASES), "requirement statement")
        idx, line, name, prob, n_prev, start = RL_CASES[k]
        src = SOURCES[idx]
        eng.input_syms.append(("case", C.Const(k), k))
        node = parse_requirement(src)
        want = expected(node)
        self = PObj(repo_class(f"{COMP}:ScenicToPythonTransformer"), tag="transformer")
        prev = [pyast.Name(id=f"earlier_requirement_{j}", ctx=pyast.Load()) for j in range(n_prev)]
        visited = []

        def visit(x):
            visited.append(x)
            return x

        self.fields.update(filename="<test>", nextSyntaxId=start, requirements=PList(list(prev)), visit=BuiltinFn("visit", visit))
        probnode = pyast.Constant(prob) if prob is not None else None
        kwargs = {"prob": probnode} if prob is not None else {}
        from pyvc.values import PDict

        env.vars.update(self=self, functionName="require", body=node, lineno=line, name=name, kwargs=PDict(list(kwargs.items())), _want=want, _case=RL_CASES[k], _prev=prev, _probnode=probnode, _visited=visited)

    def post(I, env, outcome):
        eng = I.eng
        if outcome[0] != "return":
            return
        idx, line, name, prob, n_prev, start = env.vars["_case"]
        want, self = env.vars["_want"], env.vars["self"]
        res = outcome[1]
        ok = isinstance(res, pyast.Expr) and isinstance(res.value, pyast.Call) and isinstance(res.value.func, pyast.Name)
        eng.check(f"{cn}#ensures.one_call_statement", ok)
        if not ok:
            return
        call = res.value
        args = items(call.args)
        eng.check(f"{cn}#ensures.calls_the_function_implementing_the_statement", call.func.id == "require")
        ok = len(args) == 4
        eng.check(f"{cn}#ensures.arguments_are_id_proposition_line_name", ok)
        if not ok:
            return
        ids = []
        got = decode(args[1], ids)
        eng.check(f"{cn}#ensures.proposition_tree_of_the_source_formula_unchanged", got == want, detail=f"got {got}, expected {want}")
        eng.check(f"{cn}#ensures.proposition_tree_is_what_the_expression_compiler_returned_for_the_transformed_tree", len(env.vars["_visited"]) == 1 and env.vars["_visited"][0] is args[1])
        eng.check(f"{cn}#ensures.line_number_unchanged", isinstance(args[2], pyast.Constant) and args[2].value == line)
        eng.check(f"{cn}#ensures.name_unchanged", isinstance(args[3], pyast.Constant) and args[3].value == name and (name is None) == (args[3].value is None))
        kws = items(call.keywords)
        if prob is None:
            eng.check(f"{cn}#ensures.no_probability_keyword_unless_written", kws == [])
        else:
            eng.check(f"{cn}#ensures.probability_passed_unchanged_as_keyword", len(kws) == 1 and kws[0].arg == "prob" and kws[0].value is env.vars["_probnode"])
        n = count_atoms(want)
        eng.check(f"{cn}#ensures.atom_ids_fresh_and_counter_advanced_by_the_number_of_atoms", ids == list(range(start, start + n)) and self.fields["nextSyntaxId"] == start + n, detail=f"ids {ids}, next {self.fields['nextSyntaxId']}")
        reqs = items(self.fields["requirements"])
        rid = args[0].value if isinstance(args[0], pyast.Constant) else None
        eng.check(f"{cn}#ensures.source_syntax_registered_once_under_the_id_passed_to_the_call", len(reqs) == n_prev + 1 and rid == n_prev and reqs[rid] is env.vars["body"] and all(a is b for a, b in zip(reqs, env.vars["_prev"])))

    def replay(inputs, clause):
        """The whole front end on `require[p] <formula> as <name>` statements placed on given lines."""
        from scenic.syntax.compiler import compileScenicAST
        from scenic.syntax.parser import parse_string

        for idx, line, name, prob, n_prev, start in RL_CASES:
            formula = SOURCES[idx][len("require ") :]
            stmt = "require" + (f"[{prob}]" if prob is not None else "") + " " + formula + (f" as {name}" if name else "")
            filler = "".join(f"require always earlier{j}\n" for j in range(n_prev))
            src = filler + "\n" * (line - 1 - n_prev if line - 1 - n_prev > 0 else 0) + stmt + "\n"
            real_line = src.count("\n")
            want = expected(parse_string(stmt + "\n", "exec").body[0].cond)
            tree, reqs = compileScenicAST(parse_string(src, "exec"))
            calls = [c for c in pyast.walk(tree) if isinstance(c, pyast.Call) and isinstance(c.func, pyast.Name) and c.func.id == "require"]
            if len(calls) != n_prev + 1:
                return f"`{stmt}` after {n_prev} other requirements compiles to {len(calls)} `require` calls"
            call = calls[-1]
            got = decode(call.args[1], [])
            if got != want:
                return f"`{stmt}`: the compiled call carries the proposition {got}; the source formula is {want}"
            ln, nm = call.args[2].value, call.args[3].value
            kw = {k.arg: getattr(k.value, "value", None) for k in call.keywords}
            if ln != real_line or nm != name or kw != ({"prob": prob} if prob is not None else {}):
                return f"`{stmt}` on line {real_line}: compiled call has line {ln}, name {nm!r}, keywords {kw}; written: line {real_line}, name {name!r}, probability {prob}"
            if call.args[0].value != n_prev or len(reqs) != n_prev + 1:
                return f"`{stmt}` as requirement number {n_prev} of the module: compiled with requirement id {call.args[0].value}, {len(reqs)} syntax trees registered"
            all_ids = []
            for c in calls:
                decode(c.args[1], all_ids)
            if all_ids != list(range(len(all_ids))):
                return f"`{stmt}` after {n_prev} other requirements: the atoms of the module's requirements carry the syntax ids {all_ids}; they must be unique and increasing across requirements ({list(range(len(all_ids)))})"
        return None

    reg.add(
        C.Contract(
            tgt,
            params=dict(self=C.Const(None), functionName=C.Const(None), body=C.Const(None), lineno=C.Const(None), name=C.Const(None), kwargs=C.Const(None)),
            setup=setup,
            post=post,
            raises=[C.Raises("ScenicParseError", mode="may")],
            inline_all=True,
            replay=replay,
            bounded=True,
            note=f"{len(RL_CASES)} requirement statements (sources of the list above; with / without name and probability; 0-3 requirements registered before; first atom id 0-7); "
            "the expression compiler (`self.visit` on the transformed tree) is modelled as the identity: compilation of ordinary expressions is C09/C10",
            properties=("C11",),
        )
    )


_register_transform = register


def register(reg):  # noqa: F811
    _register_transform(reg)
    register_create_requirement_like(reg)
