"""Property fragment for C09 (plain Python compiles to what CPython would parse)."""

PROPERTIES = {
    "C09": dict(
        modules=["rewrites"],
        level="other",
        claim="proof part: the three documented rewrites (visit_Name, visit_Call, visit_ClassDef + transformPropertyDef) produce exactly the documented "
        "shapes on real ast nodes and keep the line of the node they replace; the control-flow hooks are transparent at top level; no other Python node "
        "class has a visitor (census against the ast module). Equality of the generated PEG parser with CPython's parser is NOT proved (bounded stand-in).",
        note="the transformer's recursive child visit is abstract inside each rewrite; ast.NodeTransformer.generic_visit trusted (stdlib)",
        assumptions=[
            "ast.NodeVisitor.visit dispatches on the class name; NodeTransformer.generic_visit only replaces children",
            "AttributeFinder.find modelled (attributes read from self)",
        ],
        not_reached=["generated PEG parser == CPython parser on every module"],
        bounded=[
            "standins/python_corpus.py: real parse_string + compileScenicAST vs ast.parse (all fields, lineno, end_lineno) modulo the documented rewrites; "
            "quick tier 100 files <= 4 kB (70 stdlib + 30 site-packages, VERIF_SEED-chosen) + 4 fixed regression snippets, thorough tier every file; file list and bytes in evidence/C09_corpus.json",
        ],
    )
}
