"""Sidecar contracts for C07: built-in specifiers and operators have their documented geometric meaning.

Oracle: the property statement of C07 and the language reference (docs/reference/specifiers.rst, operators.rst,
the Vector / Orientation docstrings): heading 0 = +Y, positive angles counter-clockwise, local frames
X = right, Y = ahead, Z = up, `orientation = parentOrientation * (yaw, pitch, roll)`.

Rotations are ABSTRACT group elements and trigonometric functions are uninterpreted (pyvc/models_geom.py):
every obligation below is proved relative to the named axioms listed in the evidence (`L-rot.*`, `A2.*`)."""
import math

import z3

from pyvc import contracts as C
from pyvc import models_geom as G
from pyvc.interp import BuiltinFn, ClassVal, FuncVal
from pyvc.models_geom import AP, ATAN2, COS, EUL, EULER, HALF_PI, IDENT, INV, MUL, NdArr, PI, SIN, TAU, rz, sv
from pyvc.values import PDict, PList, PObj, PyvcError, SV, arith, compare, sv_and, sv_ite, sv_not, sv_or, tobool, toz3

from .common import VectorT, make_vector, repo_class

V = "scenic.core.vectors"
GEO = "scenic.core.geometry"
VEN = "scenic.syntax.veneer"
OT = "scenic.core.object_types"
TS = "scenic.core.type_support"


# =================================================================================================
# symbolic inputs


def co(v):
    """coordinates of a model Vector / array / tuple as z3 reals"""
    if isinstance(v, PObj) and "coordinates" in v.fields:
        v = v.fields["coordinates"]
    elif isinstance(v, NdArr):
        v = v.items
    return tuple(rz(c) for c in v)


def is_vector(v):
    return isinstance(v, PObj) and isinstance(v.cls, ClassVal) and v.cls.full == f"{V}:Vector"


def make_orientation(I, term):
    """A concrete scenic.core.vectors.Orientation wrapping the abstract rotation `term`."""
    o = PObj(repo_class(f"{V}:Orientation"))
    r = G.make_rotation(I, term)
    o.fields.update(r=r, q=r.fields["as_quat"].fn())
    return o


class OrientationT(C.Type):
    """Orientation with an arbitrary (abstract) rotation; `yaw_only` makes it the planar rotation by a symbolic yaw."""

    def __init__(self, yaw_only=False):
        self.yaw_only = yaw_only

    def fresh(self, eng, name, I=None):
        if self.yaw_only:
            a = eng.fresh_real(name + ".yaw")
            o = make_orientation(I, EULER(a.e, 0, 0))
            o.yaw_sym = a
        else:
            o = make_orientation(I, z3.Const(eng.fresh_name(name + ".rotation"), G.ROT))
        o.tag = name
        return o

    def concretize(self, eng, model, val):
        if getattr(val, "yaw_sym", None) is not None:
            return {"yaw": eng.eval_model(model, val.yaw_sym)}
        return "abstract rotation"


def rot(o):
    """z3 term of the rotation carried by an Orientation (or scipy Rotation) model value"""
    if G.is_rotation(o):
        return o.term
    return o.fields["r"].term


def apply3(r, v):
    return tuple(f(r, *v) for f in AP)


def eq3(a, b):
    return z3.And(*[x == y for x, y in zip(a, b)])


def is_turns(x):
    t = x / TAU
    return t == z3.ToReal(z3.ToInt(t))


def sq(x):
    return x * x


def norm2(v):
    return sum(sq(c) for c in v)


class _InlineAll:
    """Frame contract for real code run from a postcondition (second run of a carrier, delayed specifier values)."""

    inline_all = True
    inline = set()
    loops = {}
    env = {}
    assert_mode = "raise"
    unroll = 0
    ghost_inst = {}
    short = "post"
    target = "post"
    _is_inline_view = True

    def inlines(self, q):
        return False  # contracts of callees (normalizeAngle) are used where they exist, everything else is interpreted

    def inline_view(self):
        return self


def call_real(I, f, args, kwargs=None):
    """Interpret a repository function / closure / bound method (real code) from a postcondition."""
    from pyvc.interp import BoundMethod

    if isinstance(f, BoundMethod):
        f, args = f.func, [f.self_obj] + list(args)
    if isinstance(f, BuiltinFn):
        return f.fn(*args, **(kwargs or {}))
    return I.run_function(f, list(args), kwargs or {}, _InlineAll())


def input_real(eng, name, lo=None, hi=None):
    v = eng.fresh_real(name)
    if lo is not None:
        eng.assume(compare(">=", v, lo))
    if hi is not None:
        eng.assume(compare("<=", v, hi))
    eng.input_syms.append((name, C.Real(), v))
    return v


def input_vector(eng, name, I=None):
    t = VectorT()
    v = t.fresh(eng, name, I)
    eng.input_syms.append((name, t, v))
    return v


# =================================================================================================
# replay helpers (REAL code, floats)


def _close(a, b, tol=1e-6):
    return abs(a - b) <= tol * (1 + abs(a) + abs(b))


def _angle_close(a, b, tol=1e-6):
    d = (a - b) % math.tau
    return min(d, math.tau - d) <= tol


def _fl(x):
    return float(x)


def _vec(inputs, k):
    from scenic.core.vectors import Vector

    return Vector(*[float(c) for c in inputs[k]])


ROTATION_CATALOGUE = [(0.0, 0.0, 0.0), (math.pi / 2, 0.0, 0.0), (-math.pi / 2, 0.0, 0.0), (math.pi, 0.0, 0.0), (0.0, math.pi / 2, 0.0), (0.7, 0.4, -0.3), (2.5, -1.1, 0.9)]


def _orientations(inputs, key):
    """Real Orientation objects to try for an abstract-rotation input: the counter-model's yaw when it has one,
    then the concretisation catalogue of DESIGN.md 2.4."""
    from scenic.core.vectors import Orientation

    v = inputs.get(key)
    out = []
    if isinstance(v, dict) and "yaw" in v:
        out.append(Orientation.fromEuler(float(v["yaw"]), 0.0, 0.0))
    for e in ROTATION_CATALOGUE:
        out.append(Orientation.fromEuler(*e))
    return out


def _local(orientation, vec):
    """R^-1 * vec for a real Orientation and a real Vector/sequence"""
    import numpy as np

    return orientation.getRotation().inv().apply(np.array([float(c) for c in vec]))


# =================================================================================================
# 1. Vector algebra (scenic.core.vectors.Vector), real class interpreted by the engine


def register(reg):
    G.install(reg)
    register_vector_algebra(reg)
    register_directional(reg)
    register_facing(reg)


def _vec_contract(reg, method, params, post, replay, key=None, raises=(), requires=(), setup=None):
    name = f"vectors.Vector.{method}" + (key or "")

    def post_(I, env, outcome):
        if outcome[0] != "return":
            return
        post(I, env, outcome[1], lambda clause, goal: I.eng.check(f"{name}#ensures.{clause}", goal))

    reg.add(
        C.Contract(f"{V}:Vector.{method}", params=params, post=post_, replay=replay, inline_all=True, raises=list(raises), requires=list(requires), setup=setup, properties=("C07",)),
        key=(f"{V}:Vector.{method}{key}" if key else None),
    )


def register_vector_algebra(reg):
    VT = VectorT

    # ---------------------------------------------------------------- + - * /
    def lin(op):
        def post(I, env, res, check):
            a, b = co(env.vars["self"]), co(env.vars["other"])
            want = {"__add__": [x + y for x, y in zip(a, b)], "__radd__": [x + y for x, y in zip(a, b)], "__sub__": [x - y for x, y in zip(a, b)], "__rsub__": [y - x for x, y in zip(a, b)]}[op]
            check("is_a_vector", is_vector(res))
            if is_vector(res):
                check("componentwise", eq3(co(res), want))

        def replay(inputs, clause):
            a, b = _vec(inputs, "self"), _vec(inputs, "other")
            r = getattr(a, op)(b)
            want = {"__add__": [x + y for x, y in zip(a, b)], "__radd__": [x + y for x, y in zip(a, b)], "__sub__": [x - y for x, y in zip(a, b)], "__rsub__": [y - x for x, y in zip(a, b)]}[op]
            if not all(_close(p, q) for p, q in zip(r, want)):
                return f"{a!r}.{op}({b!r}) = {r!r}, expected {want}"

        return post, replay

    for op in ("__add__", "__radd__", "__sub__", "__rsub__"):
        p, r = lin(op)
        _vec_contract(reg, op, dict(self=VT(), other=VT()), p, r)

    def post_mul(I, env, res, check):
        a, k = co(env.vars["self"]), rz(env.vars["other"])
        check("scales_every_coordinate", eq3(co(res), [x * k for x in a]))

    def replay_mul(inputs, clause):
        a, k = _vec(inputs, "self"), _fl(inputs["other"])
        r = a * k
        if not all(_close(p, q * k) for p, q in zip(r, a)):
            return f"{a!r} * {k} = {r!r}"

    _vec_contract(reg, "__mul__", dict(self=VT(), other=C.Real()), post_mul, replay_mul)

    def post_div(I, env, res, check):
        a, k = co(env.vars["self"]), rz(env.vars["other"])
        check("divides_every_coordinate", eq3([x * k for x in co(res)], a))

    def replay_div(inputs, clause):
        a, k = _vec(inputs, "self"), _fl(inputs["other"])
        try:
            r = a / k
        except ZeroDivisionError:
            return None if k == 0 else f"{a!r} / {k} raised ZeroDivisionError"
        if k == 0:
            return f"{a!r} / 0 returned {r!r}"
        if not all(_close(p * k, q) for p, q in zip(r, a)):
            return f"{a!r} / {k} = {r!r}"

    _vec_contract(reg, "__truediv__", dict(self=VT(), other=C.Real()), post_div, replay_div, raises=[C.Raises("ZeroDivisionError", when="other == 0", mode="iff")])

    # ---------------------------------------------------------------- dot / cross
    def post_dot(I, env, res, check):
        a, b = co(env.vars["self"]), co(env.vars["other"])
        check("sum_of_products", rz(res) == sum(x * y for x, y in zip(a, b)))

    def replay_dot(inputs, clause):
        a, b = _vec(inputs, "self"), _vec(inputs, "other")
        r = a.dot(b)
        if not _close(r, sum(x * y for x, y in zip(a, b))):
            return f"{a!r}.dot({b!r}) = {r}"

    _vec_contract(reg, "dot", dict(self=VT(), other=VT()), post_dot, replay_dot)

    def post_cross(I, env, res, check):
        a, b, c = co(env.vars["self"]), co(env.vars["other"]), co(res)
        dot = lambda p, q: sum(x * y for x, y in zip(p, q))
        check("orthogonal_to_self", dot(c, a) == 0)
        check("orthogonal_to_other", dot(c, b) == 0)
        # |a x b|^2 = |a|^2 |b|^2 - (a.b)^2  and  det[a, b, a x b] = |a x b|^2 >= 0 (right-handed)
        check("lagrange_identity", dot(c, c) == dot(a, a) * dot(b, b) - sq(dot(a, b)))
        det = a[0] * (b[1] * c[2] - b[2] * c[1]) - a[1] * (b[0] * c[2] - b[2] * c[0]) + a[2] * (b[0] * c[1] - b[1] * c[0])
        check("right_handed", det == dot(c, c))
        f = I.find_method(env.vars["self"].cls, "cross")
        back = call_real(I, f, [env.vars["other"], env.vars["self"]])
        check("anti_symmetric", eq3(co(back), [-x for x in c]))

    def replay_cross(inputs, clause):
        a, b = _vec(inputs, "self"), _vec(inputs, "other")
        r = a.cross(b)  # NameError on the unchanged tree is reported by the replay harness
        want = (a.y * b.z - a.z * b.y, a.z * b.x - a.x * b.z, a.x * b.y - a.y * b.x)
        if not all(_close(p, q) for p, q in zip(r, want)):
            return f"{a!r}.cross({b!r}) = {r!r}, expected {want}"

    _vec_contract(reg, "cross", dict(self=VT(), other=VT()), post_cross, replay_cross)

    # ---------------------------------------------------------------- norm / normalized / distanceTo
    def post_norm(I, env, res, check):
        a = co(env.vars["self"])
        check("euclidean_length", z3.And(rz(res) >= 0, sq(rz(res)) == norm2(a)))

    def replay_norm(inputs, clause):
        a = _vec(inputs, "self")
        r = a.norm()
        if not _close(r, math.sqrt(sum(x * x for x in a))):
            return f"{a!r}.norm() = {r}"

    _vec_contract(reg, "norm", dict(self=VT()), post_norm, replay_norm)

    def post_normalized(I, env, res, check):
        a, r = co(env.vars["self"]), co(res)
        zero = z3.And(*[x == 0 for x in a])
        check("zero_stays_zero", z3.Implies(zero, eq3(r, (0, 0, 0))))
        L = z3.Real("L!norm")
        hyp = z3.And(L >= 0, sq(L) == norm2(a), z3.Not(zero))
        check("same_direction", z3.Implies(hyp, eq3([x * L for x in r], a)))
        for i, n in enumerate("xyz"):
            check(f"unit_length_lemma_{n}", z3.Implies(hyp, sq(r[i]) * norm2(a) == sq(a[i])))

    def replay_normalized(inputs, clause):
        a = _vec(inputs, "self")
        r = a.normalized()
        n = math.sqrt(sum(x * x for x in a))
        want = [0, 0, 0] if n == 0 else [x / n for x in a]
        if not all(_close(p, q) for p, q in zip(r, want)):
            return f"{a!r}.normalized() = {r!r}"

    _vec_contract(reg, "normalized", dict(self=VT()), post_normalized, replay_normalized)

    def post_dist(I, env, res, check):
        a, b = co(env.vars["self"]), co(env.vars["other"])
        check("euclidean_distance", z3.And(rz(res) >= 0, sq(rz(res)) == norm2([y - x for x, y in zip(a, b)])))

    def replay_dist(inputs, clause):
        a, b = _vec(inputs, "self"), _vec(inputs, "other")
        r = a.distanceTo(b)
        if not _close(r, math.dist(a, b)):
            return f"{a!r}.distanceTo({b!r}) = {r}"

    _vec_contract(reg, "distanceTo", dict(self=VT(), other=VT()), post_dist, replay_dist)

    # ---------------------------------------------------------------- rotations: positive angles are counter-clockwise
    def ccw(theta, v):
        c, s = COS(theta), SIN(theta)
        return (c * v[0] - s * v[1], s * v[0] + c * v[1], v[2])

    def ccw_f(theta, v):
        c, s = math.cos(theta), math.sin(theta)
        return (c * v[0] - s * v[1], s * v[0] + c * v[1], v[2])

    def post_rot_angle(I, env, res, check):
        G.use(I.eng, "trig")
        a, t, r = co(env.vars["self"]), rz(env.vars["angleOrOrientation"]), co(res)
        want = ccw(t, a)
        for i, n in enumerate("xyz"):
            check(f"counter_clockwise_matrix_{n}", r[i] == want[i])
        check("length_preserved", norm2(r) == norm2(a))
        check("plus_y_turns_toward_minus_x", z3.Implies(z3.And(a[0] == 0, a[1] == 1), z3.And(r[0] == -SIN(t), r[1] == COS(t))))

    def replay_rot_angle(inputs, clause):
        a, t = _vec(inputs, "self"), _fl(inputs["angleOrOrientation"])
        r, want = a.rotatedBy(t), ccw_f(t, a)
        if not all(_close(p, q) for p, q in zip(r, want)):
            return f"{a!r}.rotatedBy({t}) = {r!r}, counter-clockwise rotation gives {want}"

    _vec_contract(reg, "rotatedBy", dict(self=VT(), angleOrOrientation=C.Real()), post_rot_angle, replay_rot_angle, key="[angle]")

    def post_rot_orient(I, env, res, check):
        a, R = co(env.vars["self"]), rot(env.vars["angleOrOrientation" if "angleOrOrientation" in env.vars else "rotation"])
        check("is_the_rotation_applied_to_the_vector", eq3(co(res), apply3(R, a)))

    def replay_rot_orient(method):
        def replay(inputs, clause):
            import numpy as np

            a = _vec(inputs, "self")
            for o in _orientations(inputs, "angleOrOrientation" if method == "rotatedBy" else "rotation"):
                r = getattr(a, method)(o)
                want = o.getRotation().apply(np.array(list(a)))
                if not all(_close(p, q) for p, q in zip(r, want)):
                    return f"{a!r}.{method}({o!r}) = {r!r}, rotation applied to the vector gives {list(want)}"

        return replay

    _vec_contract(reg, "rotatedBy", dict(self=VT(), angleOrOrientation=OrientationT()), post_rot_orient, replay_rot_orient("rotatedBy"), key="[orientation]")
    _vec_contract(reg, "applyRotation", dict(self=VT(), rotation=OrientationT()), post_rot_orient, replay_rot_orient("applyRotation"))

    def post_off_rot(I, env, res, check):
        G.use(I.eng, "trig")
        a, t, o = co(env.vars["self"]), rz(env.vars["angleOrOrientation"]), co(env.vars["offset"])
        check("self_plus_offset_turned_counter_clockwise", eq3(co(res), [x + y for x, y in zip(a, ccw(t, o))]))

    def replay_off_rot(inputs, clause):
        a, t, o = _vec(inputs, "self"), _fl(inputs["angleOrOrientation"]), _vec(inputs, "offset")
        r, want = a.offsetRotated(t, o), [x + y for x, y in zip(a, ccw_f(t, o))]
        if not all(_close(p, q) for p, q in zip(r, want)):
            return f"{a!r}.offsetRotated({t}, {o!r}) = {r!r}, expected {want}"

    _vec_contract(reg, "offsetRotated", dict(self=VT(), angleOrOrientation=C.Real(), offset=VT()), post_off_rot, replay_off_rot, key="[angle]")

    def post_off_rot_o(I, env, res, check):
        a, R, o = co(env.vars["self"]), rot(env.vars["angleOrOrientation" if "angleOrOrientation" in env.vars else "orientation"]), co(env.vars["offset"])
        check("self_plus_rotated_offset", eq3(co(res), [x + y for x, y in zip(a, apply3(R, o))]))

    def replay_off_o(method, key):
        def replay(inputs, clause):
            import numpy as np

            a, o = _vec(inputs, "self"), _vec(inputs, "offset")
            for ori in _orientations(inputs, key):
                r = getattr(a, method)(ori, o)
                want = np.array(list(a)) + ori.getRotation().apply(np.array(list(o)))
                if not all(_close(p, q) for p, q in zip(r, want)):
                    return f"{a!r}.{method}({ori!r}, {o!r}) = {r!r}, expected {list(want)}"

        return replay

    _vec_contract(reg, "offsetRotated", dict(self=VT(), angleOrOrientation=OrientationT(), offset=VT()), post_off_rot_o, replay_off_o("offsetRotated", "angleOrOrientation"), key="[orientation]")
    _vec_contract(reg, "offsetLocally", dict(self=VT(), orientation=OrientationT(), offset=VT()), post_off_rot_o, replay_off_o("offsetLocally", "orientation"))

    def post_off_rad(I, env, res, check):
        G.use(I.eng, "trig")
        a, rad, h, r = co(env.vars["self"]), rz(env.vars["radius"]), rz(env.vars["heading"]), co(res)
        # heading 0 = +Y, positive headings counter-clockwise: the unit vector of heading h is (-sin h, cos h, 0)
        check("heading_zero_is_plus_y", z3.Implies(h == 0, eq3(r, (a[0], a[1] + rad, a[2]))))
        check("offset_along_heading_x", r[0] == a[0] - rad * SIN(h))
        check("offset_along_heading_y", r[1] == a[1] + rad * COS(h))
        check("offset_along_heading_z", r[2] == a[2])

    def replay_off_rad(inputs, clause):
        a, rad, h = _vec(inputs, "self"), _fl(inputs["radius"]), _fl(inputs["heading"])
        r = a.offsetRadially(rad, h)
        want = (a.x - rad * math.sin(h), a.y + rad * math.cos(h), a.z)
        if not all(_close(p, q) for p, q in zip(r, want)):
            return f"{a!r}.offsetRadially({rad}, {h}) = {r!r}, expected {want}"

    _vec_contract(reg, "offsetRadially", dict(self=VT(), radius=C.Real(), heading=C.Real()), post_off_rad, replay_off_rad)

    # ---------------------------------------------------------------- angles: heading 0 = +Y, counter-clockwise positive
    def azimuth_obligations(check, r, d, prefix=""):
        """r = azimuth of the direction d (angle from +Y, counter-clockwise positive, normalised to [-pi, pi])"""
        dx, dy = d[0], d[1]
        check(prefix + "in_range", z3.And(-PI <= r, r <= PI))
        check(prefix + "is_angle_from_plus_y_ccw", is_turns(r - (ATAN2(dy, dx) - HALF_PI)))
        check(prefix + "plus_y_is_zero", z3.Implies(z3.And(dx == 0, dy > 0), r == 0))
        check(prefix + "minus_x_is_plus_quarter_turn", z3.Implies(z3.And(dx < 0, dy == 0), r == HALF_PI))
        check(prefix + "plus_x_is_minus_quarter_turn", z3.Implies(z3.And(dx > 0, dy == 0), r == -HALF_PI))
        check(prefix + "minus_y_is_half_turn", z3.Implies(z3.And(dx == 0, dy < 0), z3.Or(r == PI, r == -PI)))
        check(prefix + "left_half_plane_is_positive", z3.Implies(dx < 0, z3.And(r > 0, r < PI)))

    def azimuth_f(d):
        a = math.atan2(d[1], d[0]) - math.pi / 2
        while a > math.pi:
            a -= math.tau
        while a < -math.pi:
            a += math.tau
        return a

    def post_azimuth(I, env, res, check):
        G.use(I.eng, "atan2")
        a, b = co(env.vars["self"]), co(env.vars["other"])
        azimuth_obligations(check, rz(res), [y - x for x, y in zip(a, b)])

    def replay_azimuth(method):
        def replay(inputs, clause):
            a, b = _vec(inputs, "self"), _vec(inputs, "other")
            r = getattr(a, method)(b)
            want = azimuth_f([y - x for x, y in zip(a, b)])
            if not (-math.pi <= r <= math.pi) or not _angle_close(r, want):
                return f"{a!r}.{method}({b!r}) = {r}, azimuth (from +Y, counter-clockwise) is {want}"

        return replay

    _vec_contract(reg, "azimuthTo", dict(self=VT(), other=VT()), post_azimuth, replay_azimuth("azimuthTo"))
    _vec_contract(reg, "angleTo", dict(self=VT(), other=VT()), post_azimuth, replay_azimuth("angleTo"))

    def altitude_obligations(check, r, d, hyp, prefix=""):
        check(prefix + "in_range", z3.And(-HALF_PI <= r, r <= HALF_PI))
        check(prefix + "is_elevation_above_the_xy_plane", r == ATAN2(d[2], hyp))
        check(prefix + "sign_follows_dz", z3.And(z3.Implies(d[2] > 0, r > 0), z3.Implies(d[2] < 0, r < 0), z3.Implies(z3.And(d[2] == 0, z3.Or(d[0] != 0, d[1] != 0)), r == 0)))
        check(prefix + "straight_up_is_quarter_turn", z3.Implies(z3.And(d[0] == 0, d[1] == 0, d[2] > 0), r == HALF_PI))

    def post_altitude(I, env, res, check):
        G.use(I.eng, "atan2")
        a, b = co(env.vars["self"]), co(env.vars["other"])
        d = [y - x for x, y in zip(a, b)]
        h = z3.Real("H!xy")
        I.eng.assume(z3.And(h >= 0, sq(h) == sq(d[0]) + sq(d[1])))
        altitude_obligations(check, rz(res), d, h)

    def replay_altitude(inputs, clause):
        a, b = _vec(inputs, "self"), _vec(inputs, "other")
        r = a.altitudeTo(b)
        d = [y - x for x, y in zip(a, b)]
        want = math.atan2(d[2], math.hypot(d[0], d[1]))
        if not _close(r, want):
            return f"{a!r}.altitudeTo({b!r}) = {r}, elevation angle is {want}"

    _vec_contract(reg, "altitudeTo", dict(self=VT(), other=VT()), post_altitude, replay_altitude)

    def post_angle_with(I, env, res, check):
        G.use(I.eng, "atan2")
        a, b, r = co(env.vars["self"]), co(env.vars["other"]), rz(res)
        check("in_range", z3.And(-PI <= r, r <= PI))
        check("difference_of_directions", is_turns(r - (ATAN2(b[1], b[0]) - ATAN2(a[1], a[0]))))
        check("plus_y_is_counter_clockwise_of_plus_x", z3.Implies(z3.And(a[0] > 0, a[1] == 0, b[0] == 0, b[1] > 0), r == HALF_PI))
        check("plus_x_is_clockwise_of_plus_y", z3.Implies(z3.And(b[0] > 0, b[1] == 0, a[0] == 0, a[1] > 0), r == -HALF_PI))
        check("same_direction_is_zero", z3.Implies(z3.And(a[0] == b[0], a[1] == b[1]), r == 0))

    def replay_angle_with(inputs, clause):
        a, b = _vec(inputs, "self"), _vec(inputs, "other")
        r = a.angleWith(b)
        want = math.atan2(b.y, b.x) - math.atan2(a.y, a.x)
        if not (-math.pi <= r <= math.pi) or not _angle_close(r, want):
            return f"{a!r}.angleWith({b!r}) = {r}, signed angle is {want} (mod tau)"

    _vec_contract(reg, "angleWith", dict(self=VT(), other=VT()), post_angle_with, replay_angle_with)

    def post_spherical(I, env, res, check):
        G.use(I.eng, "atan2")
        a, r = co(env.vars["self"]), co(res)
        h = z3.Real("H!xy")
        I.eng.assume(z3.And(h >= 0, sq(h) == sq(a[0]) + sq(a[1])))
        check("rho_is_the_length", z3.And(r[0] >= 0, sq(r[0]) == norm2(a)))
        check("theta_is_angle_from_plus_y_ccw", r[1] == ATAN2(a[1], a[0]) - HALF_PI)
        check("theta_of_plus_y_is_zero", z3.Implies(z3.And(a[0] == 0, a[1] > 0), r[1] == 0))
        check("theta_of_minus_x_is_quarter_turn", z3.Implies(z3.And(a[0] < 0, a[1] == 0), r[1] == HALF_PI))
        check("phi_is_elevation", r[2] == ATAN2(a[2], h))
        check("phi_sign_follows_z", z3.And(z3.Implies(a[2] > 0, r[2] > 0), z3.Implies(a[2] < 0, r[2] < 0)))

    def replay_spherical(inputs, clause):
        a = _vec(inputs, "self")
        r = a.sphericalCoordinates()
        want = (math.sqrt(sum(x * x for x in a)), math.atan2(a.y, a.x) - math.pi / 2, math.atan2(a.z, math.hypot(a.x, a.y)))
        if not all(_close(p, q) for p, q in zip(r, want)):
            return f"{a!r}.sphericalCoordinates() = {r!r}, expected {want}"

    _vec_contract(reg, "sphericalCoordinates", dict(self=VT()), post_spherical, replay_spherical)


# =================================================================================================
# trusted stubs for the book-keeping layers around the geometric carriers (coercion, specifier records, ego)

WORLD = {}  # per-path holder: ego object etc. (filled by the setup of each contract)


def is_orientation(v):
    return isinstance(v, PObj) and isinstance(v.cls, ClassVal) and v.cls.full == f"{V}:Orientation"


def class_name(v):
    return v.cls.name if isinstance(v, PObj) and isinstance(v.cls, ClassVal) else None


def is_num(v):
    return isinstance(v, (int, float, SV)) and not isinstance(v, bool) and not (isinstance(v, SV) and z3.is_bool(v.e))


def install_veneer_stubs(reg):
    if getattr(reg, "_c07_stubs", False):
        return
    reg._c07_stubs = True
    from pyvc import builtins_model as bm

    def has_method(I, thing, name):
        return isinstance(thing, PObj) and isinstance(thing.cls, ClassVal) and I.find_method(thing.cls, name) is not None

    def type_name(ty):
        if isinstance(ty, ClassVal):
            return ty.name
        if isinstance(ty, BuiltinFn) and hasattr(ty, "pytype"):
            return ty.pytype.__name__
        return getattr(ty, "name", None) or getattr(ty, "__name__", repr(ty))

    def can_coerce(I, thing, ty, exact=False):
        tn = type_name(ty)
        if tn == "float":
            return is_num(thing)
        if tn == "Heading":
            return is_num(thing) or is_orientation(thing) or has_method(I, thing, "toHeading")
        if tn == "Vector":
            if is_vector(thing) or has_method(I, thing, "toVector"):
                return True
            return isinstance(thing, (tuple, PList, NdArr))
        if tn == "Orientation":
            return is_num(thing) or is_orientation(thing) or is_vector(thing) or isinstance(thing, (tuple, PList)) or has_method(I, thing, "toOrientation")
        if tn in ("numbers.Real", "numbers.Number"):
            return is_num(thing)
        if isinstance(ty, ClassVal):
            return isinstance(thing, PObj) and isinstance(thing.cls, ClassVal) and I.is_subclass(thing.cls, ty)
        raise PyvcError(f"coercion to {ty!r} not modelled")

    def do_coerce(I, thing, ty, error="wrong type"):
        tn = type_name(ty)
        if tn == "float":
            return thing
        if tn == "Heading":
            if is_orientation(thing):
                return I.get_attr(thing, "yaw")
            if has_method(I, thing, "toHeading"):
                return I.call_value(I.get_attr(thing, "toHeading"), [])
            return thing
        if tn in ("Vector", "Orientation"):
            cls = repo_class(f"{V}:{tn}")
            if isinstance(thing, PObj) and isinstance(thing.cls, ClassVal) and thing.cls is cls:
                return thing
            f = I.find_method(cls, "_coerce")
            try:
                return I.run_function(f, [thing], {}, None)
            except Exception as e:
                from pyvc.interp import SymRaise

                if isinstance(e, SymRaise) and getattr(e.exc.cls, "name", "") == "CoercionFailure":
                    I.raise_("TypeError", error)
                raise
        return thing

    def to_types(I, thing, types, typeError="wrong type"):
        for ty in I.iterate(types):
            if can_coerce(I, thing, ty):
                return do_coerce(I, thing, ty, typeError)
        I.raise_("TypeError", typeError)

    def underlying(I, thing):
        if isinstance(thing, PObj):
            return thing.cls
        if isinstance(thing, SV):
            return I.builtins["float"] if thing.isfloat else I.builtins["int"]
        if isinstance(thing, bool):
            return I.builtins["bool"]
        if isinstance(thing, int):
            return I.builtins["int"]
        if isinstance(thing, float):
            return I.builtins["float"]
        if isinstance(thing, tuple):
            return I.builtins["tuple"]
        if isinstance(thing, PList):
            return I.builtins["list"]
        return type(thing)

    def is_a(I, thing, ty):
        if isinstance(ty, tuple):
            return any(is_a(I, thing, t) for t in ty)
        tn = type_name(ty)
        if tn in ("numbers.Real", "numbers.Number", "float"):
            return is_num(thing) if tn != "float" else (isinstance(thing, float) or (isinstance(thing, SV) and thing.isfloat))
        if isinstance(ty, ClassVal):
            return isinstance(thing, PObj) and isinstance(thing.cls, ClassVal) and I.is_subclass(thing.cls, ty)
        return False

    m = reg.models
    m[f"{TS}:isA"] = is_a
    m[f"{TS}:canCoerce"] = can_coerce
    m[f"{TS}:coerce"] = do_coerce
    m[f"{TS}:toTypes"] = to_types
    m[f"{TS}:underlyingType"] = underlying
    m[f"{TS}:canCoerceType"] = lambda I, a, b: type_name(b) == "float" and a in (I.builtins["float"], I.builtins["int"], float, int)
    m[f"{TS}:coerceToFloat"] = lambda I, x: x
    m["scenic.core.distributions:toDistribution"] = lambda I, x: x
    reg.trust(
        "type_support.isA/canCoerce/coerce/toTypes/underlyingType (geometry_ops)",
        "stubs for concrete (non-random) values: numbers are floats/headings, Vectors/tuples/points coerce to Vector (via the real Vector._coerce / toVector), "
        "numbers/Orientations/vectors/tuples/oriented points coerce to Orientation (via the real Orientation._coerce), otherwise instance-of; random values are C05's concern",
    )

    # ---- specifier records
    def specifier_ctor(I, cls, args, kwargs):
        name, priorities, value = args[0], args[1], args[2]
        o = PObj(cls)
        req = set()
        if isinstance(value, PObj) and value.cls == "DelayedArgument":
            req = set(value.fields["_requiredProperties"])
        o.fields.update(name=name, priorities=priorities, value=value, requiredProperties=tuple(sorted(req)), modifiable_props=kwargs.get("modifiable_props"))
        return o

    def delayed_ctor(I, cls, args, kwargs):
        props, fn = args[0], args[1]
        o = PObj("DelayedArgument")
        o.fields.update(_requiredProperties=tuple(I.iterate(props)), value=fn, _needsLazyEval=True, _isLazy=True)
        return o

    reg.constructors["scenic.core.specifiers:Specifier"] = specifier_ctor
    reg.constructors["scenic.core.specifiers:ModifyingSpecifier"] = specifier_ctor
    reg.constructors["scenic.core.lazy_eval:DelayedArgument"] = delayed_ctor
    reg.trust("Specifier / DelayedArgument constructors (geometry_ops)", "records: name, priorities, value (dict or delayed function of the object under construction), required properties; resolution is C06's concern")

    # valueInContext / requiredProperties on concrete values: identity / no requirements
    def value_in_context(I, value, context):
        if isinstance(value, PObj) and value.cls == "DelayedArgument":
            return I.call_value(value.fields["value"], [context])
        return value

    m["scenic.core.lazy_eval:valueInContext"] = value_in_context
    m["scenic.core.lazy_eval:requiredProperties"] = lambda I, thing: bm.PSet(thing.fields["_requiredProperties"]) if isinstance(thing, PObj) and thing.cls == "DelayedArgument" else bm.PSet()
    reg.trust("lazy_eval.valueInContext / requiredProperties (geometry_ops)", "stubs: a delayed argument is evaluated by calling its function on the context; concrete values are returned unchanged")

    # ---- Orientation equality = equality of the rotations (q and -q are the same rotation)
    def orientation_eq(I, a, b):
        if not is_orientation(b):
            return NotImplemented
        ra, rb = rot(a), rot(b)
        if ra.eq(rb):
            return True
        return SV(ra == rb)

    m[f"{V}:Orientation.__eq__"] = orientation_eq
    reg.trust("Orientation.__eq__ (geometry_ops)", "model: two orientations are equal iff they are the same rotation (the code compares quaternions up to sign)")

    # ---- OrientedPoint._with(position=..., parentOrientation=...): default yaw = pitch = roll = 0
    def oriented_point_with(I, cls, **props):
        o = PObj(repo_class(f"{OT}:OrientedPoint"))
        o.fields.update(props)
        if "parentOrientation" in props:
            o.fields.update(yaw=0, pitch=0, roll=0, orientation=props["parentOrientation"])
            o.fields["heading"] = I.get_attr(props["parentOrientation"], "yaw") if False else None
            del o.fields["heading"]
        return o

    m["scenic.core.object_types:Constructible._with"] = oriented_point_with
    reg.trust("Constructible._with (geometry_ops)", "stub: an OrientedPoint with the given position and parentOrientation and the documented defaults yaw = pitch = roll = 0, hence orientation = parentOrientation")

    # ---- ego(): the real function reads veneer.currentScenario._ego
    def current_scenario(I):
        s = PObj("Scenario")
        s.fields.update(_ego=WORLD.get("ego"), _objects=WORLD.get("objects", ()), _workspace=None)
        return s

    reg.global_overrides[f"{VEN}:currentScenario"] = current_scenario

    # ---- Point.__getattr__ forwards Vector attributes to self.toVector() (real method interpreted)
    def forward(name):
        def hook(I, obj):
            f = I.find_method(obj.cls, "__getattr__")
            return I.run_function(f, [obj, name], {}, None)

        return hook

    for cls in ("Point", "OrientedPoint", "Object"):
        for name in ("angleTo", "azimuthTo", "altitudeTo", "angleWith", "offsetRotated", "offsetLocally", "offsetRadially", "x", "y", "z", "norm", "dot", "applyRotation", "rotatedBy", "coordinates") + (("distanceTo",) if cls != "Object" else ()):
            reg.attr_hooks[(f"{OT}:{cls}", name)] = forward(name)

    if "builtins" not in bm.EXTRA_MODULES:
        bm.EXTRA_MODULES["builtins"] = lambda I: bm.NativeModule("builtins", dict(I.builtins))


# ---------------------------------------------------------------- scene objects as model values


def make_point(I, name, kind="Object", orientation=None, register_inputs=True, dims=True):
    """A concrete (already sampled) Point / OrientedPoint / Object with symbolic pose and size."""
    eng = I.eng
    o = PObj(repo_class(f"{OT}:{kind}"), tag=name)
    pos = VectorT().fresh(eng, name + ".position", I)
    if register_inputs:
        eng.input_syms.append((name + ".position", VectorT(), pos))
    o.fields.update(position=pos, _needsSampling=False, _needsLazyEval=False, _isLazy=False, _dependencies=(), _requiredProperties=())
    o.fields["_conditioned"] = o
    if kind in ("OrientedPoint", "Object"):
        if orientation is None:
            t = OrientationT()
            orientation = t.fresh(eng, name + ".orientation", I)
            if register_inputs:
                eng.input_syms.append((name + ".orientation", t, orientation))
        o.fields["orientation"] = orientation
    if kind == "Object" and dims:
        for d in ("width", "length", "height"):
            v = eng.fresh_real(f"{name}.{d}")
            eng.assume(compare(">", v, 0))
            o.fields[d] = v
            if register_inputs:
                eng.input_syms.append((f"{name}.{d}", C.Real(), v))
        o.fields.update(hw=o.fields["width"] / 2, hl=o.fields["length"] / 2, hh=o.fields["height"] / 2)
        ct = eng.fresh_real(f"{name}.contactTolerance")
        eng.assume(compare(">=", ct, 0))
        o.fields["contactTolerance"] = ct
        if register_inputs:
            eng.input_syms.append((f"{name}.contactTolerance", C.Real(), ct))
    return o


def spec_value(I, spec, context):
    """values a Specifier record provides for the object under construction `context` -> PDict"""
    val = spec.fields["value"]
    if isinstance(val, PObj) and val.cls == "DelayedArgument":
        val = call_real(I, val.fields["value"], [context])
    return val


def pd(d, k):
    if not d.has(k):
        raise PyvcError(f"specifier does not provide {k}")
    return d.get(k)


# =================================================================================================
# 2. directional specifiers: left of / right of / ahead of / behind / above / below  X [by D]

DIRECTIONS = {
    # name: (axis index in X's local frame, sign, dimension property, function name)
    "LeftSpec": (0, -1, "width"),
    "RightSpec": (0, +1, "width"),
    "Ahead": (1, +1, "length"),
    "Behind": (1, -1, "length"),
    "Above": (2, +1, "height"),
    "Below": (2, -1, "height"),
}
SYNTAX = {"LeftSpec": "left of", "RightSpec": "right of", "Ahead": "ahead of", "Behind": "behind", "Above": "above", "Below": "below"}
TARGET_KINDS = ["Object", "OrientedPoint", "Vector"]
DIST_KINDS = ["none", "scalar", "vector"]


def register_directional(reg):
    install_veneer_stubs(reg)

    def make(fname):
        axis, sign, dim = DIRECTIONS[fname]
        name = f"veneer.{fname}"

        def setup(I, env):
            eng = I.eng
            WORLD.clear()
            tk = TARGET_KINDS[eng.choose(3, "target kind")]
            dk = DIST_KINDS[eng.choose(3, "by")]
            if tk == "Vector":
                pos = input_vector(eng, "X.position", I)
            else:
                pos = make_point(I, "X", tk)
            if dk == "none":
                dist = None
            elif dk == "scalar":
                dist = input_real(eng, "D")
            else:
                dist = input_vector(eng, "Dvec", I)
            new = make_point(I, "new", "Object")  # the object under construction (its own size, contact tolerance, orientation)
            env.vars.update(pos=pos, dist=dist, _tk=tk, _dk=dk, _new=new)
            eng.input_syms.append(("case", C.Const(None), f"{tk}/{dk}"))

        def post(I, env, outcome):
            eng = I.eng
            if outcome[0] != "return":
                return
            spec, tk, dk, new, X, dist = outcome[1], env.vars["_tk"], env.vars["_dk"], env.vars["_new"], env.vars["pos"], env.vars["dist"]
            chk = lambda clause, goal: eng.check(f"{name}#ensures.{clause}", goal)
            pri = spec.fields["priorities"]
            chk("specifies_position_with_priority_1", pri.has("position") and pri.get("position") == 1)
            chk("optionally_specifies_parentOrientation_iff_target_is_oriented", (pri.has("parentOrientation") and pri.get("parentOrientation") == 3) if tk != "Vector" else not pri.has("parentOrientation"))
            req = set(spec.fields["requiredProperties"])
            want_req = {dim} | ({"contactTolerance"} if tk == "Object" else set()) | ({"orientation"} if tk == "Vector" else set())
            chk("depends_on_the_documented_properties", req == want_req)
            vals = spec_value(I, spec, new)
            p2 = co(pd(vals, "position"))
            if tk == "Vector":
                P, R, dims = co(X), rot(new.fields["orientation"]), (0, 0, 0)
            else:
                P, R = co(X.fields["position"]), rot(X.fields["orientation"])
                dims = tuple(rz(X.fields[d]) for d in ("width", "length", "height")) if tk == "Object" else (0, 0, 0)
                chk("inherits_the_orientation_of_X", is_orientation(pd(vals, "parentOrientation")) and rot(pd(vals, "parentOrientation")).eq(R))
            # position of the new object in the local frame of X (of the new object itself when X is a bare vector)
            L = apply3(INV(R), [a - b for a, b in zip(p2, P)])
            own = rz(new.fields[dim])
            # gap between the facing sides of the two bounding boxes along the axis
            gap = (L[axis] - own / 2) - dims[axis] / 2 if sign > 0 else (-dims[axis] / 2) - (L[axis] + own / 2)
            if dk == "none":
                want = rz(new.fields["contactTolerance"]) / 2 if tk == "Object" else z3.RealVal(0)
                lateral = (0, 0, 0)
            elif dk == "scalar":
                want, lateral = rz(dist), (0, 0, 0)
            else:
                d = co(dist)
                want, lateral = d[axis], d
            chk("gap_between_bounding_boxes_along_the_axis", gap == want)
            for i, n in enumerate("xyz"):
                if i != axis:
                    chk(f"lateral_offset_{n}", L[i] == lateral[i])

        reg.add(
            C.Contract(
                f"{VEN}:{fname}",
                params=dict(pos=C.Const(None), dist=C.Const(None)),
                setup=setup,
                post=post,
                inline_all=True,
                replay=make_replay_directional(fname),
                properties=("C07",),
            )
        )

    for fname in DIRECTIONS:
        make(fname)


def _scenic_scene(text):
    import scenic

    sc = scenic.scenarioFromString(text, mode2D=False)
    scene, _ = sc.generate(maxIterations=50, verbosity=0)
    return scene


def _tup(v):
    return "(" + ", ".join(repr(float(c)) for c in v) + ")"


def make_replay_directional(fname):
    axis, sign, dim = DIRECTIONS[fname]

    def one(inputs, tk, dk, D, Dvec, e):
        g = lambda k, default: inputs.get(k, default)
        P = [float(c) for c in g("X.position", [0, 0, 0])]
        by = ""
        if dk == "scalar":
            by = f" by {D!r}"
        elif dk == "vector":
            by = f" by {_tup(Dvec)}"
        nw, nl, nh = (abs(float(g(f"new.{d}", 1.0))) or 1.0 for d in ("width", "length", "height"))
        ct = abs(float(g("new.contactTolerance", 0.5))) or 0.5
        common = "with allowCollisions True, with requireVisible False"
        dims = (0, 0, 0)
        new_or = ""
        if tk == "Object":
            dims = tuple(abs(float(g(f"X.{d}", 2.0))) or 1.0 for d in ("width", "length", "height"))
            decl = f"X = new Object at {_tup(P)}, facing {_tup(e)}, with width {dims[0]}, with length {dims[1]}, with height {dims[2]}, {common}\n"
        elif tk == "OrientedPoint":
            decl = f"X = new OrientedPoint at {_tup(P)}, facing {_tup(e)}\n"
        else:
            decl = f"X = {_tup(P)}\n"
            new_or = f", facing {_tup(e)}"
        last = f"n = new Object {SYNTAX[fname]} X{by}{new_or}, with width {nw}, with length {nl}, with height {nh}, with contactTolerance {ct}, {common}"
        scene = _scenic_scene(f"ego = new Object at (1000, 1000, 1000), {common}\n" + decl + last + "\n")
        n = scene.objects[-1]
        from scenic.core.vectors import Orientation

        R = Orientation.fromEuler(*e)
        if tk != "Vector" and not n.parentOrientation.approxEq(R):
            return f"`{last}` with X a {tk} facing {e}: the new object's parentOrientation is {n.parentOrientation}, not the orientation of X"
        L = _local(R, [a - b for a, b in zip(n.position, P)])
        own = (nw, nl, nh)[axis]
        gap = (L[axis] - own / 2) - dims[axis] / 2 if sign > 0 else (-dims[axis] / 2) - (L[axis] + own / 2)
        if dk == "none":
            want, lateral = (ct / 2 if tk == "Object" else 0.0), (0, 0, 0)
        elif dk == "scalar":
            want, lateral = D, (0, 0, 0)
        else:
            want, lateral = Dvec[axis], Dvec
        if not _close(gap, want, 1e-6):
            return f"`{last}` with X a {tk} at {P} facing {e}: the gap between the bounding boxes along X's local {'xyz'[axis]} axis is {gap:.6g}, expected {want:.6g}"
        for i in range(3):
            if i != axis and not _close(L[i], lateral[i], 1e-6):
                return f"`{last}` with X a {tk} at {P} facing {e}: offset along X's local {'xyz'[i]} axis is {L[i]:.6g}, expected {lateral[i]:.6g}"
        return None

    def replay(inputs, clause):
        tk, dk = inputs.get("case", "Object/none").split("/")
        Ds = [float(inputs.get("D", 1.5)), 1.5, -0.25]
        Dvecs = [[float(c) for c in inputs.get("Dvec", [1.0, 2.0, 3.0])], [1.0, 2.0, 3.0]]
        for k, e in enumerate(ROTATION_CATALOGUE):
            r = one(inputs, tk, dk, Ds[min(k, len(Ds) - 1)] if k < len(Ds) else Ds[1], Dvecs[min(k, 1)], e)
            if r:
                return r
        return None

    return replay


# =================================================================================================
# 3. the facing family


def make_context(I, name="new", parent=None, parent_yaw_only=False):
    """The object under construction as seen by a delayed specifier argument: position and parentOrientation."""
    eng = I.eng
    o = PObj(repo_class(f"{OT}:Object"), tag=name)
    pos = input_vector(eng, f"{name}.position", I)
    if parent is None:
        t = OrientationT(yaw_only=parent_yaw_only)
        parent = t.fresh(eng, f"{name}.parentOrientation", I)
        eng.input_syms.append((f"{name}.parentOrientation", t, parent))
    o.fields.update(position=pos, parentOrientation=parent)
    return o


def global_rotation_of(ctx, vals):
    """rotation of the finished object: parentOrientation * fromEuler(yaw, pitch, roll), unspecified angles default to 0"""
    g = lambda k: rz(vals.get(k)) if vals.has(k) else z3.RealVal(0)
    return MUL(rot(ctx.fields["parentOrientation"]), EULER(g("yaw"), g("pitch"), g("roll")))


def priorities_are(pri, want):
    return len(pri.keys) == len(want) and all(pri.has(k) and pri.get(k) == v for k, v in want.items())


def register_facing(reg):
    install_veneer_stubs(reg)

    # ---------------------------------------------------------------- facing <heading | orientation | field>
    def setup_facing(I, env):
        eng = I.eng
        WORLD.clear()
        kind = ["heading", "orientation", "field"][eng.choose(3, "argument")]
        ctx = make_context(I)
        if kind == "heading":
            h = input_real(eng, "heading")
            arg, target = h, EULER(rz(h), 0, 0)
        elif kind == "orientation":
            t = OrientationT()
            arg = t.fresh(eng, "target", I)
            target = rot(arg)
        else:
            t = OrientationT()
            at_pos = t.fresh(eng, "field_value", I)
            target = rot(at_pos)
            arg = PObj(repo_class(f"{V}:VectorField"), tag="field")
            arg.fields.update(name="field", value=BuiltinFn("field.value", lambda pos: at_pos), valueType=repo_class(f"{V}:Orientation"))
            arg.asked = []
            arg.fields["value"] = BuiltinFn("field.value", lambda pos: (arg.asked.append(pos), at_pos)[1])
        env.vars.update(heading=arg, _kind=kind, _ctx=ctx, _target=target)
        eng.input_syms.append(("case", C.Const(None), kind))

    def post_facing(I, env, outcome):
        eng = I.eng
        if outcome[0] != "return":
            return
        name = "veneer.Facing"
        spec, kind, ctx, target = outcome[1], env.vars["_kind"], env.vars["_ctx"], env.vars["_target"]
        chk = lambda clause, goal: eng.check(f"{name}#ensures.{clause}", goal)
        chk("specifies_yaw_pitch_roll_with_priority_1", priorities_are(spec.fields["priorities"], dict(yaw=1, pitch=1, roll=1)))
        req = set(spec.fields["requiredProperties"])
        chk("depends_on_parentOrientation_and_position_for_fields", req == ({"parentOrientation", "position"} if kind == "field" else {"parentOrientation"}))
        vals = spec_value(I, spec, ctx)
        chk("global_orientation_is_the_given_orientation", global_rotation_of(ctx, vals) == target)
        if kind == "field":
            asked = env.vars["heading"].asked
            chk("field_is_evaluated_at_the_object_position", len(asked) >= 1 and all(a is ctx.fields["position"] for a in asked))

    def replay_facing(inputs, clause):
        from scenic.core.vectors import Orientation

        kind = inputs.get("case", "orientation")
        for pe in ROTATION_CATALOGUE:
            for te in ROTATION_CATALOGUE[1:6]:
                if kind == "heading":
                    h = float(inputs.get("heading", 0.5)) or 0.5
                    tgt, want = repr(h), Orientation.fromEuler(h, 0, 0)
                else:
                    tgt, want = _tup(te), Orientation.fromEuler(*te)
                if kind == "field":
                    text = f"vf = VectorField('f', lambda pos: Orientation.fromEuler{_tup(te)})\nego = new Object at (5, 6, 7), with parentOrientation {_tup(pe)}, facing vf\n"
                    text = "from scenic.core.vectors import Orientation\n" + text
                else:
                    text = f"ego = new Object at (5, 6, 7), with parentOrientation {_tup(pe)}, facing {tgt}\n"
                o = _scenic_scene(text).objects[0]
                if not o.orientation.approxEq(want, 1e-9):
                    return f"`{text.strip().splitlines()[-1]}`: global orientation is {o.orientation}, expected {want}"
        return None

    reg.add(C.Contract(f"{VEN}:Facing", params=dict(heading=C.Const(None)), setup=setup_facing, post=post_facing, inline_all=True, replay=replay_facing, properties=("C07",)))

    # ---------------------------------------------------------------- facing [directly] (toward | away from) <vector>
    def make_toward(fname, away, directly):
        name = f"veneer.{fname}"

        def setup(I, env):
            WORLD.clear()
            t = input_vector(I.eng, "target", I)
            env.vars.update(pos=t, _ctx=make_context(I))

        def post(I, env, outcome):
            eng = I.eng
            if outcome[0] != "return":
                return
            G.use(eng, "atan2", "trig")
            spec, ctx = outcome[1], env.vars["_ctx"]
            chk = lambda clause, goal: eng.check(f"{name}#ensures.{clause}", goal)
            chk("specifies_the_documented_angles_with_priority_1", priorities_are(spec.fields["priorities"], dict(yaw=1, pitch=1) if directly else dict(yaw=1)))
            chk("depends_on_position_and_parentOrientation", set(spec.fields["requiredProperties"]) == {"position", "parentOrientation"})
            vals = spec_value(I, spec, ctx)
            chk("provides_exactly_the_documented_angles", set(vals.keys) == ({"yaw", "pitch"} if directly else {"yaw"}))
            t, p = co(env.vars["pos"]), co(ctx.fields["position"])
            d = [a - b for a, b in zip(p, t)] if away else [a - b for a, b in zip(t, p)]
            r = apply3(INV(rot(ctx.fields["parentOrientation"])), d)  # line of sight in the parent frame
            yaw = rz(pd(vals, "yaw"))
            h = G.hyp_term(eng, [r[0], r[1]])  # horizontal range of the target in the parent frame
            alpha = ATAN2(r[1], r[0])
            turns = (yaw - (alpha - HALF_PI)) / TAU
            chk("yaw_is_the_azimuth_of_the_line_of_sight_in_the_parent_frame", is_turns(yaw - (alpha - HALF_PI)))
            # geometric meaning (heading 0 = +Y, counter-clockwise): the horizontal line of sight is h * (-sin yaw, cos yaw),
            # i.e. after turning by yaw about the parent's Z axis the target is straight ahead
            G.instance(eng, "A2.atan2_polar_form", h, r[1], r[0])
            G.instance(eng, "A2.sin_cos_quarter_shift", alpha)
            G.instance(eng, "A2.sin_cos_periodic", alpha - HALF_PI, turns)
            chk("horizontal_line_of_sight_points_along_heading_yaw_x", r[0] == -h * SIN(yaw))
            chk("horizontal_line_of_sight_points_along_heading_yaw_y", r[1] == h * COS(yaw))
            if directly:
                pitch = rz(pd(vals, "pitch"))
                rho = G.hyp_term(eng, [h, r[2]])
                G.instance(eng, "A2.atan2_polar_form", rho, r[2], h)
                chk("pitch_is_the_elevation_of_the_line_of_sight_in_the_parent_frame", pitch == ATAN2(r[2], h))
                chk("line_of_sight_is_raised_by_pitch_horizontal_part", h == rho * COS(pitch))
                chk("line_of_sight_is_raised_by_pitch_vertical_part", r[2] == rho * SIN(pitch))

        def replay(inputs, clause):
            from scenic.core.vectors import Vector

            t = [float(c) for c in inputs.get("target", [3, 4, 5])]
            p = [float(c) for c in inputs.get("new.position", [1, 1, 1])]
            cands = [(t, p), ([3.0, 4.0, 5.0], [1.0, -2.0, 0.5])]
            syntax = f"facing {'directly ' if directly else ''}{'away from' if away else 'toward'}"
            for t, p in cands:
                if _close(t[0], p[0]) and _close(t[1], p[1]):
                    continue
                for pe in ROTATION_CATALOGUE:
                    text = f"ego = new Object at {_tup(p)}, with parentOrientation {_tup(pe)}, {syntax} {_tup(t)}\n"
                    o = _scenic_scene(text).objects[0]
                    d = [a - b for a, b in zip(p, t)] if away else [a - b for a, b in zip(t, p)]
                    if directly:
                        L = _local(o.orientation, d)  # in the object's own frame the target must be on +Y
                        n = math.sqrt(sum(c * c for c in d))
                        if not (_close(L[0], 0, 1e-6) and _close(L[2], 0, 1e-6) and _close(L[1], n, 1e-6)):
                            return f"`{text.strip()}`: direction in the object's frame is {list(L)}, expected (0, {n}, 0)"
                    else:
                        from scenic.core.vectors import Orientation

                        par = Orientation.fromEuler(*pe)
                        r = _local(par, d)
                        L = _local(Orientation.fromEuler(o.yaw, 0, 0), r)
                        if not (_close(L[0], 0, 1e-6) and L[1] >= -1e-9):
                            return f"`{text.strip()}`: after the yaw {o.yaw} the line of sight in the parent frame is {list(L)}, expected x = 0, y >= 0"
            return None

        reg.add(C.Contract(f"{VEN}:{fname}", params=dict(pos=C.Const(None)), setup=setup, post=post, inline_all=True, replay=replay, properties=("C07",)))

    make_toward("FacingToward", False, False)
    make_toward("FacingAwayFrom", True, False)
    make_toward("FacingDirectlyToward", False, True)
    make_toward("FacingDirectlyAwayFrom", True, True)

    # ---------------------------------------------------------------- apparently facing H [from V]
    def setup_apparent(I, env):
        eng = I.eng
        WORLD.clear()
        H = input_real(eng, "heading")
        use_ego = eng.choose(2, "from?") == 1
        ctx = make_context(I, parent_yaw_only=True)
        if use_ego:
            ego = make_point(I, "ego", "Object")
            WORLD["ego"] = ego
            V_, fromPt = ego.fields["position"], None
        else:
            V_ = input_vector(eng, "from", I)
            fromPt = V_
        p, v = co(ctx.fields["position"]), co(V_)
        eng.assume(z3.Or(p[0] != v[0], p[1] != v[1]))  # the line of sight must have a direction in the XY plane
        env.vars.update(heading=H, fromPt=fromPt, _ctx=ctx, _V=V_)

    def post_apparent(I, env, outcome):
        eng = I.eng
        if outcome[0] != "return":
            return
        name = "veneer.ApparentlyFacing"
        G.use(eng, "atan2", "trig", "rot.yaw")
        spec, ctx = outcome[1], env.vars["_ctx"]
        chk = lambda clause, goal: eng.check(f"{name}#ensures.{clause}", goal)
        chk("specifies_yaw_with_priority_1", priorities_are(spec.fields["priorities"], dict(yaw=1)))
        chk("depends_on_position_and_parentOrientation", set(spec.fields["requiredProperties"]) == {"position", "parentOrientation"})
        vals = spec_value(I, spec, ctx)
        yaw, H = rz(pd(vals, "yaw")), rz(env.vars["heading"])
        yawP = rz(ctx.fields["parentOrientation"].yaw_sym)
        G.use(eng, "atan2.yaw")
        Vcls = repo_class(f"{V}:Vector")
        # the line of sight V -> position and the same vector turned by H (computed with the REAL Vector code, so that the
        # lemma instances below talk about the very terms the carrier builds); hints only -- the goal does not mention them
        d_vec = call_real(I, I.find_method(Vcls, "__sub__"), [ctx.fields["position"], env.vars["_V"]])
        dx, dy = co(d_vec)[0], co(d_vec)[1]
        G.instance(eng, "A2.atan2_of_rotated_vector", H, dx, dy)
        G.instance(eng, "A2.planar_rotation_fixes_only_the_zero_vector", H, dx, dy)
        # parent is the planar rotation by yawP: global orientation = yaw(yawP) * yaw(yaw) = yaw(yawP + yaw); its heading is yawP + yaw (mod tau)
        chk("global_heading_is_the_azimuth_of_the_line_of_sight_plus_H", is_turns((yawP + yaw) - ((ATAN2(dy, dx) - HALF_PI) + H)))

    def replay_apparent(inputs, clause):
        H = float(inputs.get("heading", 0.0))
        p = [float(c) for c in inputs.get("new.position", [0, 10, 0])]
        v = [float(c) for c in inputs.get("from", inputs.get("ego.position", [0, 0, 0]))]
        par = inputs.get("new.parentOrientation")
        yawPs = [float(par["yaw"])] if isinstance(par, dict) and "yaw" in par else []
        for yawP in yawPs + [math.pi / 2, 1.0, -2.0]:
            for (pp, vv) in ((p, v), ([0.0, 10.0, 0.0], [0.0, 0.0, 0.0])):
                if _close(pp[0], vv[0]) and _close(pp[1], vv[1]):
                    continue
                text = f"ego = new Object at (500, 500, 0)\na = new Object at {_tup(pp)}, with parentOrientation ({yawP!r}, 0, 0), apparently facing {H!r} from {_tup(vv)}\n"
                o = _scenic_scene(text).objects[1]
                want = math.atan2(pp[1] - vv[1], pp[0] - vv[0]) - math.pi / 2 + H
                if not _angle_close(o.heading, want, 1e-6):
                    return (
                        f"`new Object at {_tup(pp)}, with parentOrientation ({yawP:.6g}, 0, 0), apparently facing {H:.6g} from {_tup(vv)}`: global heading is {o.heading:.6g} rad, "
                        f"the line of sight has azimuth {want - H:.6g} so the heading should be {want:.6g} (mod tau)"
                    )
        return None

    reg.add(C.Contract(f"{VEN}:ApparentlyFacing", params=dict(heading=C.Const(None), fromPt=C.Const(None)), setup=setup_apparent, post=post_apparent, inline_all=True, replay=replay_apparent, properties=("C07",)))
