"""Sidecar contracts for C07: built-in specifiers and operators have their documented geometric meaning.

Oracle: the property statement of C07 and the language reference (docs/reference/specifiers.rst, operators.rst,
the Vector / Orientation docstrings): heading 0 = +Y, positive angles counter-clockwise, local frames
X = right, Y = ahead, Z = up, `orientation = parentOrientation * (yaw, pitch, roll)`.

Rotations are ABSTRACT group elements and trigonometric functions are uninterpreted (pyvc/models_geom.py):
every obligation below is proved relative to the named axioms listed in the evidence (`L-rot.*`, `A2.*`)."""
import math

import z3

from pyvc import contracts as C
from pyvc import models_geom as G
from pyvc.interp import BuiltinFn, ClassVal, FuncVal
from pyvc.models_geom import AP, ATAN2, COS, EUL, EULER, HALF_PI, IDENT, INV, MUL, NdArr, PI, SIN, TAU, rz, sv
from pyvc.values import PDict, PList, PObj, PyvcError, SV, arith, compare, sv_and, sv_ite, sv_not, sv_or, tobool, toz3

from .common import VectorT, make_vector, repo_class

V = "scenic.core.vectors"
GEO = "scenic.core.geometry"
VEN = "scenic.syntax.veneer"
OT = "scenic.core.object_types"
TS = "scenic.core.type_support"


# =================================================================================================
# symbolic inputs


def co(v):
    """coordinates of a model Vector / array / tuple as z3 reals"""
    if isinstance(v, PObj) and "coordinates" in v.fields:
        v = v.fields["coordinates"]
    elif isinstance(v, NdArr):
        v = v.items
    return tuple(rz(c) for c in v)


def is_vector(v):
    return isinstance(v, PObj) and isinstance(v.cls, ClassVal) and v.cls.full == f"{V}:Vector"


ROT_AXIOMS = ("rot", "rot.group", "rot.euler", "rot.planar")  # axiom groups available wherever C07 contracts handle orientations


def make_orientation(I, term, axioms=ROT_AXIOMS):
    """A concrete scenic.core.vectors.Orientation wrapping the abstract rotation `term`."""
    G.use(I.eng, *axioms)
    o = PObj(repo_class(f"{V}:Orientation"))
    r = G.make_rotation(I, term)
    o.fields.update(r=r, q=r.fields["as_quat"].fn())
    return o


class OrientationT(C.Type):
    """Orientation with an arbitrary (abstract) rotation; `yaw_only` makes it the planar rotation by a symbolic yaw."""

    def __init__(self, yaw_only=False, axioms=ROT_AXIOMS):
        self.yaw_only = yaw_only
        self.axioms = axioms

    def fresh(self, eng, name, I=None):
        if self.yaw_only:
            a = eng.fresh_real(name + ".yaw")
            o = make_orientation(I, EULER(a.e, 0, 0), self.axioms)
            o.yaw_sym = a
        else:
            o = make_orientation(I, z3.Const(eng.fresh_name(name + ".rotation"), G.ROT), self.axioms)
        o.tag = name
        return o

    def concretize(self, eng, model, val):
        if getattr(val, "yaw_sym", None) is not None:
            return {"yaw": eng.eval_model(model, val.yaw_sym)}
        return "abstract rotation"


def rot(o):
    """z3 term of the rotation carried by an Orientation (or scipy Rotation) model value"""
    if G.is_rotation(o):
        return o.term
    return o.fields["r"].term


def apply3(r, v):
    v = [z3.simplify(rz(c)) for c in v]  # canonical argument terms (syntactically equal to the interpreter's)
    return tuple(f(r, *v) for f in AP)


def eq3(a, b):
    return z3.And(*[x == y for x, y in zip(a, b)])


def is_turns(x):
    t = x / TAU
    return t == z3.ToReal(z3.ToInt(t))


def sq(x):
    return x * x


def norm2(v):
    return sum(sq(c) for c in v)


class _InlineAll:
    """Frame contract for real code run from a postcondition (second run of a carrier, delayed specifier values)."""

    inline_all = True
    inline = set()
    loops = {}
    env = {}
    assert_mode = "raise"
    unroll = 0
    ghost_inst = {}
    short = "post"
    target = "post"
    _is_inline_view = True

    def inlines(self, q):
        return False  # contracts of callees (normalizeAngle) are used where they exist, everything else is interpreted

    def inline_view(self):
        return self


def call_real(I, f, args, kwargs=None):
    """Interpret a repository function / closure / bound method (real code) from a postcondition."""
    from pyvc.interp import BoundMethod

    if isinstance(f, BoundMethod):
        f, args = f.func, [f.self_obj] + list(args)
    if isinstance(f, BuiltinFn):
        return f.fn(*args, **(kwargs or {}))
    return I.run_function(f, list(args), kwargs or {}, _InlineAll())


def input_real(eng, name, lo=None, hi=None):
    v = eng.fresh_real(name)
    if lo is not None:
        eng.assume(compare(">=", v, lo))
    if hi is not None:
        eng.assume(compare("<=", v, hi))
    eng.input_syms.append((name, C.Real(), v))
    return v


def input_vector(eng, name, I=None):
    t = VectorT()
    v = t.fresh(eng, name, I)
    eng.input_syms.append((name, t, v))
    return v


# =================================================================================================
# replay helpers (REAL code, floats)


def _close(a, b, tol=1e-6):
    return abs(a - b) <= tol * (1 + abs(a) + abs(b))


def _angle_close(a, b, tol=1e-6):
    d = (a - b) % math.tau
    return min(d, math.tau - d) <= tol


def _fl(x):
    return float(x)


def _vec(inputs, k):
    from scenic.core.vectors import Vector

    return Vector(*[float(c) for c in inputs.get(k, [1.0, -2.0, 0.5] if k == "self" else [0.25, 3.0, -1.5])])


ROTATION_CATALOGUE = [(0.0, 0.0, 0.0), (math.pi / 2, 0.0, 0.0), (-math.pi / 2, 0.0, 0.0), (math.pi, 0.0, 0.0), (0.0, math.pi / 2, 0.0), (0.7, 0.4, -0.3), (2.5, -1.1, 0.9)]


def catalogue(clause, full=None):
    """rotations to try: the whole concretisation catalogue when hunting for a failing input of a refuted obligation,
    two representative ones (yaw 90 deg, a generic 3-D rotation) in the routine cross-check of proved contracts"""
    full = ROTATION_CATALOGUE if full is None else full
    return [full[1], full[5]] if clause == "*" and len(full) > 5 else full


def _orientations(inputs, key):
    """Real Orientation objects to try for an abstract-rotation input: the counter-model's yaw when it has one,
    then the concretisation catalogue of DESIGN.md 2.4."""
    from scenic.core.vectors import Orientation

    v = inputs.get(key)
    out = []
    if isinstance(v, dict) and "yaw" in v:
        out.append(Orientation.fromEuler(float(v["yaw"]), 0.0, 0.0))
    for e in ROTATION_CATALOGUE:
        out.append(Orientation.fromEuler(*e))
    return out


def _local(orientation, vec):
    """R^-1 * vec for a real Orientation and a real Vector/sequence"""
    import numpy as np

    return orientation.getRotation().inv().apply(np.array([float(c) for c in vec]))


# =================================================================================================
# 1. Vector algebra (scenic.core.vectors.Vector), real class interpreted by the engine


def register(reg):
    G.install(reg)
    register_vector_algebra(reg)
    register_directional(reg)
    register_facing(reg)
    register_frames(reg)
    register_local_frames(reg)
    register_orientation_algebra(reg)
    register_fields_and_surfaces(reg)


def _vec_contract(reg, method, params, post, replay, key=None, raises=(), requires=(), setup=None):
    name = f"vectors.Vector.{method}" + (key or "")

    def post_(I, env, outcome):
        if outcome[0] != "return":
            return
        post(I, env, outcome[1], lambda clause, goal: I.eng.check(f"{name}#ensures.{clause}", goal))

    reg.add(
        C.Contract(f"{V}:Vector.{method}", params=params, post=post_, replay=replay, inline_all=True, raises=list(raises), requires=list(requires), setup=setup, properties=("C07",)),
        key=(f"{V}:Vector.{method}{key}" if key else None),
    )


def register_vector_algebra(reg):
    VT = VectorT

    # ---------------------------------------------------------------- + - * /
    def lin(op):
        def post(I, env, res, check):
            a, b = co(env.vars["self"]), co(env.vars["other"])
            want = {"__add__": [x + y for x, y in zip(a, b)], "__radd__": [x + y for x, y in zip(a, b)], "__sub__": [x - y for x, y in zip(a, b)], "__rsub__": [y - x for x, y in zip(a, b)]}[op]
            check("is_a_vector", is_vector(res))
            if is_vector(res):
                check("componentwise", eq3(co(res), want))

        def replay(inputs, clause):
            a, b = _vec(inputs, "self"), _vec(inputs, "other")
            r = getattr(a, op)(b)
            want = {"__add__": [x + y for x, y in zip(a, b)], "__radd__": [x + y for x, y in zip(a, b)], "__sub__": [x - y for x, y in zip(a, b)], "__rsub__": [y - x for x, y in zip(a, b)]}[op]
            if not all(_close(p, q) for p, q in zip(r, want)):
                return f"{a!r}.{op}({b!r}) = {r!r}, expected {want}"

        return post, replay

    for op in ("__add__", "__radd__", "__sub__", "__rsub__"):
        p, r = lin(op)
        _vec_contract(reg, op, dict(self=VT(), other=VT()), p, r)

    def post_mul(I, env, res, check):
        a, k = co(env.vars["self"]), rz(env.vars["other"])
        check("scales_every_coordinate", eq3(co(res), [x * k for x in a]))

    def replay_mul(inputs, clause):
        a, k = _vec(inputs, "self"), _fl(inputs.get("other", 2.0))
        r = a * k
        if not all(_close(p, q * k) for p, q in zip(r, a)):
            return f"{a!r} * {k} = {r!r}"

    _vec_contract(reg, "__mul__", dict(self=VT(), other=C.Real()), post_mul, replay_mul)

    def post_div(I, env, res, check):
        a, k = co(env.vars["self"]), rz(env.vars["other"])
        check("divides_every_coordinate", eq3([x * k for x in co(res)], a))

    def replay_div(inputs, clause):
        a, k = _vec(inputs, "self"), _fl(inputs.get("other", 2.0))
        try:
            r = a / k
        except ZeroDivisionError:
            return None if k == 0 else f"{a!r} / {k} raised ZeroDivisionError"
        if k == 0:
            return f"{a!r} / 0 returned {r!r}"
        if not all(_close(p * k, q) for p, q in zip(r, a)):
            return f"{a!r} / {k} = {r!r}"

    _vec_contract(reg, "__truediv__", dict(self=VT(), other=C.Real()), post_div, replay_div, raises=[C.Raises("ZeroDivisionError", when="other == 0", mode="iff")])

    # ---------------------------------------------------------------- dot / cross
    def post_dot(I, env, res, check):
        a, b = co(env.vars["self"]), co(env.vars["other"])
        check("sum_of_products", rz(res) == sum(x * y for x, y in zip(a, b)))

    def replay_dot(inputs, clause):
        a, b = _vec(inputs, "self"), _vec(inputs, "other")
        r = a.dot(b)
        if not _close(r, sum(x * y for x, y in zip(a, b))):
            return f"{a!r}.dot({b!r}) = {r}"

    _vec_contract(reg, "dot", dict(self=VT(), other=VT()), post_dot, replay_dot)

    def post_cross(I, env, res, check):
        a, b, c = co(env.vars["self"]), co(env.vars["other"]), co(res)
        dot = lambda p, q: sum(x * y for x, y in zip(p, q))
        check("orthogonal_to_self", dot(c, a) == 0)
        check("orthogonal_to_other", dot(c, b) == 0)
        # |a x b|^2 = |a|^2 |b|^2 - (a.b)^2  and  det[a, b, a x b] = |a x b|^2 >= 0 (right-handed)
        check("lagrange_identity", dot(c, c) == dot(a, a) * dot(b, b) - sq(dot(a, b)))
        det = a[0] * (b[1] * c[2] - b[2] * c[1]) - a[1] * (b[0] * c[2] - b[2] * c[0]) + a[2] * (b[0] * c[1] - b[1] * c[0])
        check("right_handed", det == dot(c, c))
        f = I.find_method(env.vars["self"].cls, "cross")
        back = call_real(I, f, [env.vars["other"], env.vars["self"]])
        check("anti_symmetric", eq3(co(back), [-x for x in c]))

    def replay_cross(inputs, clause):
        a, b = _vec(inputs, "self"), _vec(inputs, "other")
        r = a.cross(b)  # NameError on the unchanged tree is reported by the replay harness
        want = (a.y * b.z - a.z * b.y, a.z * b.x - a.x * b.z, a.x * b.y - a.y * b.x)
        if not all(_close(p, q) for p, q in zip(r, want)):
            return f"{a!r}.cross({b!r}) = {r!r}, expected {want}"

    _vec_contract(reg, "cross", dict(self=VT(), other=VT()), post_cross, replay_cross)

    # ---------------------------------------------------------------- norm / normalized / distanceTo
    def post_norm(I, env, res, check):
        G.hyp_hints(I.eng, res)
        a = co(env.vars["self"])
        check("length_is_nonnegative", rz(res) >= 0)
        check("euclidean_length_squared", sq(rz(res)) == norm2(a))

    def replay_norm(inputs, clause):
        a = _vec(inputs, "self")
        r = a.norm()
        if not _close(r, math.sqrt(sum(x * x for x in a))):
            return f"{a!r}.norm() = {r}"

    _vec_contract(reg, "norm", dict(self=VT()), post_norm, replay_norm)

    def post_normalized(I, env, res, check):
        G.use(I.eng, "hypot")
        a, r = co(env.vars["self"]), co(res)
        zero = z3.And(*[x == 0 for x in a])
        check("zero_stays_zero", z3.Implies(zero, eq3(r, (0, 0, 0))))
        L = G.hyp_term(I.eng, a)  # |a|: the non-negative root of the sum of squares (A1.hypot_*)
        hyp = z3.Not(zero)
        for i, n in enumerate("xyz"):
            check(f"same_direction_{n}", z3.Implies(hyp, r[i] * L == a[i]))
        # (result * |a| == a with |a| != 0 determines the result uniquely as a / |a|; unit length is its consequence)

    def replay_normalized(inputs, clause):
        a = _vec(inputs, "self")
        r = a.normalized()
        n = math.sqrt(sum(x * x for x in a))
        want = [0, 0, 0] if n == 0 else [x / n for x in a]
        if not all(_close(p, q) for p, q in zip(r, want)):
            return f"{a!r}.normalized() = {r!r}"

    _vec_contract(reg, "normalized", dict(self=VT()), post_normalized, replay_normalized)

    def post_dist(I, env, res, check):
        G.hyp_hints(I.eng, res)
        a, b = co(env.vars["self"]), co(env.vars["other"])
        check("distance_is_nonnegative", rz(res) >= 0)
        check("euclidean_distance_squared", sq(rz(res)) == norm2([y - x for x, y in zip(a, b)]))

    def replay_dist(inputs, clause):
        a, b = _vec(inputs, "self"), _vec(inputs, "other")
        r = a.distanceTo(b)
        if not _close(r, math.dist(a, b)):
            return f"{a!r}.distanceTo({b!r}) = {r}"

    _vec_contract(reg, "distanceTo", dict(self=VT(), other=VT()), post_dist, replay_dist)

    # ---------------------------------------------------------------- rotations: positive angles are counter-clockwise
    def ccw(theta, v):
        c, s = COS(theta), SIN(theta)
        return (c * v[0] - s * v[1], s * v[0] + c * v[1], v[2])

    def ccw_f(theta, v):
        c, s = math.cos(theta), math.sin(theta)
        return (c * v[0] - s * v[1], s * v[0] + c * v[1], v[2])

    def post_rot_angle(I, env, res, check):
        G.use(I.eng, "trig")
        a, t, r = co(env.vars["self"]), rz(env.vars["angleOrOrientation"]), co(res)
        want = ccw(t, a)
        for i, n in enumerate("xyz"):
            check(f"counter_clockwise_matrix_{n}", r[i] == want[i])
        check("length_preserved", norm2(r) == norm2(a))
        check("plus_y_turns_toward_minus_x", z3.Implies(z3.And(a[0] == 0, a[1] == 1), z3.And(r[0] == -SIN(t), r[1] == COS(t))))

    def replay_rot_angle(inputs, clause):
        a, t = _vec(inputs, "self"), _fl(inputs.get("angleOrOrientation", 0.7))
        r, want = a.rotatedBy(t), ccw_f(t, a)
        if not all(_close(p, q) for p, q in zip(r, want)):
            return f"{a!r}.rotatedBy({t}) = {r!r}, counter-clockwise rotation gives {want}"

    _vec_contract(reg, "rotatedBy", dict(self=VT(), angleOrOrientation=C.Real()), post_rot_angle, replay_rot_angle, key="[angle]")

    def post_rot_orient(I, env, res, check):
        a, R = co(env.vars["self"]), rot(env.vars["angleOrOrientation" if "angleOrOrientation" in env.vars else "rotation"])
        check("is_the_rotation_applied_to_the_vector", eq3(co(res), apply3(R, a)))

    def replay_rot_orient(method):
        def replay(inputs, clause):
            import numpy as np

            a = _vec(inputs, "self")
            for o in _orientations(inputs, "angleOrOrientation" if method == "rotatedBy" else "rotation"):
                r = getattr(a, method)(o)
                want = o.getRotation().apply(np.array(list(a)))
                if not all(_close(p, q) for p, q in zip(r, want)):
                    return f"{a!r}.{method}({o!r}) = {r!r}, rotation applied to the vector gives {list(want)}"

        return replay

    _vec_contract(reg, "rotatedBy", dict(self=VT(), angleOrOrientation=OrientationT()), post_rot_orient, replay_rot_orient("rotatedBy"), key="[orientation]")
    _vec_contract(reg, "applyRotation", dict(self=VT(), rotation=OrientationT()), post_rot_orient, replay_rot_orient("applyRotation"))

    # a rotation that is not an Orientation is outside the documented domain: the error must be RAISED
    def post_apply_bad(I, env, res, check):
        check("never_returns_anything_but_a_vector", is_vector(res))

    def replay_apply_bad(inputs, clause):
        a = _vec(inputs, "self")
        r = a.applyRotation(_fl(inputs.get("rotation", 0.5)))
        from scenic.core.vectors import Vector

        if not isinstance(r, Vector):
            return f"{a!r}.applyRotation(0.5) RETURNED {r!r} (an exception object) instead of raising it"

    _vec_contract(reg, "applyRotation", dict(self=VT(), rotation=C.Real()), post_apply_bad, replay_apply_bad, key="[non-orientation]", raises=[C.Raises("TypeError", mode="may")])

    def post_off_rot(I, env, res, check):
        G.use(I.eng, "trig")
        a, t, o = co(env.vars["self"]), rz(env.vars["angleOrOrientation"]), co(env.vars["offset"])
        check("self_plus_offset_turned_counter_clockwise", eq3(co(res), [x + y for x, y in zip(a, ccw(t, o))]))

    def replay_off_rot(inputs, clause):
        a, t, o = _vec(inputs, "self"), _fl(inputs.get("angleOrOrientation", 0.7)), _vec(inputs, "offset")
        r, want = a.offsetRotated(t, o), [x + y for x, y in zip(a, ccw_f(t, o))]
        if not all(_close(p, q) for p, q in zip(r, want)):
            return f"{a!r}.offsetRotated({t}, {o!r}) = {r!r}, expected {want}"

    _vec_contract(reg, "offsetRotated", dict(self=VT(), angleOrOrientation=C.Real(), offset=VT()), post_off_rot, replay_off_rot, key="[angle]")

    def post_off_rot_o(I, env, res, check):
        a, R, o = co(env.vars["self"]), rot(env.vars["angleOrOrientation" if "angleOrOrientation" in env.vars else "orientation"]), co(env.vars["offset"])
        check("self_plus_rotated_offset", eq3(co(res), [x + y for x, y in zip(a, apply3(R, o))]))

    def replay_off_o(method, key):
        def replay(inputs, clause):
            import numpy as np

            a, o = _vec(inputs, "self"), _vec(inputs, "offset")
            for ori in _orientations(inputs, key):
                r = getattr(a, method)(ori, o)
                want = np.array(list(a)) + ori.getRotation().apply(np.array(list(o)))
                if not all(_close(p, q) for p, q in zip(r, want)):
                    return f"{a!r}.{method}({ori!r}, {o!r}) = {r!r}, expected {list(want)}"

        return replay

    _vec_contract(reg, "offsetRotated", dict(self=VT(), angleOrOrientation=OrientationT(), offset=VT()), post_off_rot_o, replay_off_o("offsetRotated", "angleOrOrientation"), key="[orientation]")
    _vec_contract(reg, "offsetLocally", dict(self=VT(), orientation=OrientationT(), offset=VT()), post_off_rot_o, replay_off_o("offsetLocally", "orientation"))

    def post_off_rad(I, env, res, check):
        G.use(I.eng, "trig")
        a, rad, h, r = co(env.vars["self"]), rz(env.vars["radius"]), rz(env.vars["heading"]), co(res)
        # heading 0 = +Y, positive headings counter-clockwise: the unit vector of heading h is (-sin h, cos h, 0)
        check("heading_zero_is_plus_y", z3.Implies(h == 0, eq3(r, (a[0], a[1] + rad, a[2]))))
        check("offset_along_heading_x", r[0] == a[0] - rad * SIN(h))
        check("offset_along_heading_y", r[1] == a[1] + rad * COS(h))
        check("offset_along_heading_z", r[2] == a[2])

    def replay_off_rad(inputs, clause):
        a, rad, h = _vec(inputs, "self"), _fl(inputs.get("radius", 2.0)), _fl(inputs.get("heading", 0.7))
        r = a.offsetRadially(rad, h)
        want = (a.x - rad * math.sin(h), a.y + rad * math.cos(h), a.z)
        if not all(_close(p, q) for p, q in zip(r, want)):
            return f"{a!r}.offsetRadially({rad}, {h}) = {r!r}, expected {want}"

    _vec_contract(reg, "offsetRadially", dict(self=VT(), radius=C.Real(), heading=C.Real()), post_off_rad, replay_off_rad)

    # ---------------------------------------------------------------- angles: heading 0 = +Y, counter-clockwise positive
    def azimuth_obligations(check, r, d, prefix=""):
        """r = azimuth of the direction d (angle from +Y, counter-clockwise positive, normalised to [-pi, pi])"""
        dx, dy = d[0], d[1]
        check(prefix + "in_range", z3.And(-PI <= r, r <= PI))
        check(prefix + "is_angle_from_plus_y_ccw", is_turns(r - (ATAN2(dy, dx) - HALF_PI)))
        check(prefix + "plus_y_is_zero", z3.Implies(z3.And(dx == 0, dy > 0), r == 0))
        check(prefix + "minus_x_is_plus_quarter_turn", z3.Implies(z3.And(dx < 0, dy == 0), r == HALF_PI))
        check(prefix + "plus_x_is_minus_quarter_turn", z3.Implies(z3.And(dx > 0, dy == 0), r == -HALF_PI))
        check(prefix + "minus_y_is_half_turn", z3.Implies(z3.And(dx == 0, dy < 0), z3.Or(r == PI, r == -PI)))
        check(prefix + "left_half_plane_is_positive", z3.Implies(dx < 0, z3.And(r > 0, r < PI)))

    def azimuth_f(d):
        a = math.atan2(d[1], d[0]) - math.pi / 2
        while a > math.pi:
            a -= math.tau
        while a < -math.pi:
            a += math.tau
        return a

    def post_azimuth(I, env, res, check):
        G.use(I.eng, "atan2")
        a, b = co(env.vars["self"]), co(env.vars["other"])
        azimuth_obligations(check, rz(res), [y - x for x, y in zip(a, b)])

    def replay_azimuth(method):
        def replay(inputs, clause):
            a, b = _vec(inputs, "self"), _vec(inputs, "other")
            r = getattr(a, method)(b)
            want = azimuth_f([y - x for x, y in zip(a, b)])
            if not (-math.pi <= r <= math.pi) or not _angle_close(r, want):
                return f"{a!r}.{method}({b!r}) = {r}, azimuth (from +Y, counter-clockwise) is {want}"

        return replay

    _vec_contract(reg, "azimuthTo", dict(self=VT(), other=VT()), post_azimuth, replay_azimuth("azimuthTo"))
    _vec_contract(reg, "angleTo", dict(self=VT(), other=VT()), post_azimuth, replay_azimuth("angleTo"))

    def altitude_obligations(check, r, d, hyp, prefix=""):
        check(prefix + "in_range", z3.And(-HALF_PI <= r, r <= HALF_PI))
        check(prefix + "is_elevation_above_the_xy_plane", r == ATAN2(d[2], hyp))
        check(prefix + "sign_follows_dz", z3.And(z3.Implies(d[2] > 0, r > 0), z3.Implies(d[2] < 0, r < 0), z3.Implies(z3.And(d[2] == 0, z3.Or(d[0] != 0, d[1] != 0)), r == 0)))
        check(prefix + "straight_up_is_quarter_turn", z3.Implies(z3.And(d[0] == 0, d[1] == 0, d[2] > 0), r == HALF_PI))

    def post_altitude(I, env, res, check):
        G.use(I.eng, "atan2")
        a, b = co(env.vars["self"]), co(env.vars["other"])
        d = [y - x for x, y in zip(a, b)]
        altitude_obligations(check, rz(res), d, G.hyp_term(I.eng, [d[0], d[1]]))

    def replay_altitude(inputs, clause):
        a, b = _vec(inputs, "self"), _vec(inputs, "other")
        r = a.altitudeTo(b)
        d = [y - x for x, y in zip(a, b)]
        want = math.atan2(d[2], math.hypot(d[0], d[1]))
        if not _close(r, want):
            return f"{a!r}.altitudeTo({b!r}) = {r}, elevation angle is {want}"

    _vec_contract(reg, "altitudeTo", dict(self=VT(), other=VT()), post_altitude, replay_altitude)

    def post_angle_with(I, env, res, check):
        G.use(I.eng, "atan2")
        a, b, r = co(env.vars["self"]), co(env.vars["other"]), rz(res)
        check("in_range", z3.And(-PI <= r, r <= PI))
        check("difference_of_directions", is_turns(r - (ATAN2(b[1], b[0]) - ATAN2(a[1], a[0]))))
        check("plus_y_is_counter_clockwise_of_plus_x", z3.Implies(z3.And(a[0] > 0, a[1] == 0, b[0] == 0, b[1] > 0), r == HALF_PI))
        check("plus_x_is_clockwise_of_plus_y", z3.Implies(z3.And(b[0] > 0, b[1] == 0, a[0] == 0, a[1] > 0), r == -HALF_PI))
        check("same_direction_is_zero", z3.Implies(z3.And(a[0] == b[0], a[1] == b[1]), r == 0))

    def replay_angle_with(inputs, clause):
        a, b = _vec(inputs, "self"), _vec(inputs, "other")
        r = a.angleWith(b)
        want = math.atan2(b.y, b.x) - math.atan2(a.y, a.x)
        if not (-math.pi <= r <= math.pi) or not _angle_close(r, want):
            return f"{a!r}.angleWith({b!r}) = {r}, signed angle is {want} (mod tau)"

    _vec_contract(reg, "angleWith", dict(self=VT(), other=VT()), post_angle_with, replay_angle_with)

    def post_spherical(I, env, res, check):
        G.use(I.eng, "hypot")
        G.hyp_hints(I.eng, co(res)[0])
        G.use(I.eng, "atan2")
        a, r = co(env.vars["self"]), co(res)
        h = G.hyp_term(I.eng, [a[0], a[1]])
        check("rho_is_nonnegative", r[0] >= 0)
        check("rho_squared_is_the_squared_length", sq(r[0]) == norm2(a))
        check("theta_is_angle_from_plus_y_ccw", r[1] == ATAN2(a[1], a[0]) - HALF_PI)
        check("theta_of_plus_y_is_zero", z3.Implies(z3.And(a[0] == 0, a[1] > 0), r[1] == 0))
        check("theta_of_minus_x_is_quarter_turn", z3.Implies(z3.And(a[0] < 0, a[1] == 0), r[1] == HALF_PI))
        check("phi_is_elevation", r[2] == ATAN2(a[2], h))
        check("phi_sign_follows_z", z3.And(z3.Implies(a[2] > 0, r[2] > 0), z3.Implies(a[2] < 0, r[2] < 0)))

    def replay_spherical(inputs, clause):
        a = _vec(inputs, "self")
        r = a.sphericalCoordinates()
        want = (math.sqrt(sum(x * x for x in a)), math.atan2(a.y, a.x) - math.pi / 2, math.atan2(a.z, math.hypot(a.x, a.y)))
        if not all(_close(p, q) for p, q in zip(r, want)):
            return f"{a!r}.sphericalCoordinates() = {r!r}, expected {want}"

    _vec_contract(reg, "sphericalCoordinates", dict(self=VT()), post_spherical, replay_spherical)


# =================================================================================================
# trusted stubs for the book-keeping layers around the geometric carriers (coercion, specifier records, ego)

WORLD = {}  # per-path holder: ego object etc. (filled by the setup of each contract)


def is_orientation(v):
    return isinstance(v, PObj) and isinstance(v.cls, ClassVal) and v.cls.full == f"{V}:Orientation"


def class_name(v):
    return v.cls.name if isinstance(v, PObj) and isinstance(v.cls, ClassVal) else None


def is_num(v):
    return isinstance(v, (int, float, SV)) and not isinstance(v, bool) and not (isinstance(v, SV) and z3.is_bool(v.e))


def install_veneer_stubs(reg):
    if getattr(reg, "_c07_stubs", False):
        return
    reg._c07_stubs = True
    from pyvc import builtins_model as bm

    def has_method(I, thing, name):
        return isinstance(thing, PObj) and isinstance(thing.cls, ClassVal) and I.find_method(thing.cls, name) is not None

    def type_name(ty):
        if isinstance(ty, ClassVal):
            return ty.name
        if isinstance(ty, BuiltinFn) and hasattr(ty, "pytype"):
            return ty.pytype.__name__
        return getattr(ty, "name", None) or getattr(ty, "__name__", repr(ty))

    def can_coerce(I, thing, ty, exact=False):
        tn = type_name(ty)
        if tn == "float":
            return is_num(thing)
        if tn == "Heading":
            return is_num(thing) or is_orientation(thing) or has_method(I, thing, "toHeading")
        if tn == "Vector":
            if is_vector(thing) or has_method(I, thing, "toVector"):
                return True
            return isinstance(thing, (tuple, PList, NdArr))
        if tn == "Orientation":
            return is_num(thing) or is_orientation(thing) or is_vector(thing) or isinstance(thing, (tuple, PList)) or has_method(I, thing, "toOrientation")
        if tn in ("numbers.Real", "numbers.Number"):
            return is_num(thing)
        if isinstance(ty, ClassVal):
            return isinstance(thing, PObj) and isinstance(thing.cls, ClassVal) and I.is_subclass(thing.cls, ty)
        raise PyvcError(f"coercion to {ty!r} not modelled")

    def do_coerce(I, thing, ty, error="wrong type"):
        tn = type_name(ty)
        if tn == "float":
            return thing
        if tn == "Heading":
            if is_orientation(thing):
                return I.get_attr(thing, "yaw")
            if has_method(I, thing, "toHeading"):
                return I.call_value(I.get_attr(thing, "toHeading"), [])
            return thing
        if tn in ("Vector", "Orientation"):
            cls = repo_class(f"{V}:{tn}")
            if isinstance(thing, PObj) and isinstance(thing.cls, ClassVal) and thing.cls is cls:
                return thing
            f = I.find_method(cls, "_coerce")
            try:
                return I.run_function(f, [thing], {}, None)
            except Exception as e:
                from pyvc.interp import SymRaise

                if isinstance(e, SymRaise) and getattr(e.exc.cls, "name", "") == "CoercionFailure":
                    I.raise_("TypeError", error)
                raise
        return thing

    def to_types(I, thing, types, typeError="wrong type"):
        for ty in I.iterate(types):
            if can_coerce(I, thing, ty):
                return do_coerce(I, thing, ty, typeError)
        I.raise_("TypeError", typeError)

    def underlying(I, thing):
        if isinstance(thing, PObj):
            return thing.cls
        if isinstance(thing, SV):
            return I.builtins["float"] if thing.isfloat else I.builtins["int"]
        if isinstance(thing, bool):
            return I.builtins["bool"]
        if isinstance(thing, int):
            return I.builtins["int"]
        if isinstance(thing, float):
            return I.builtins["float"]
        if isinstance(thing, tuple):
            return I.builtins["tuple"]
        if isinstance(thing, PList):
            return I.builtins["list"]
        return type(thing)

    def is_a(I, thing, ty):
        if isinstance(ty, tuple):
            return any(is_a(I, thing, t) for t in ty)
        tn = type_name(ty)
        if tn in ("numbers.Real", "numbers.Number", "float"):
            return is_num(thing) if tn != "float" else (isinstance(thing, float) or (isinstance(thing, SV) and thing.isfloat))
        if isinstance(ty, ClassVal):
            return isinstance(thing, PObj) and isinstance(thing.cls, ClassVal) and I.is_subclass(thing.cls, ty)
        return False

    m = reg.models
    m[f"{TS}:isA"] = is_a
    m[f"{TS}:canCoerce"] = can_coerce
    m[f"{TS}:coerce"] = do_coerce
    m[f"{TS}:toTypes"] = to_types
    m[f"{TS}:underlyingType"] = underlying
    m[f"{TS}:canCoerceType"] = lambda I, a, b: type_name(b) == "float" and a in (I.builtins["float"], I.builtins["int"], float, int)
    m[f"{TS}:coerceToFloat"] = lambda I, x: x
    m["scenic.core.distributions:toDistribution"] = lambda I, x: x
    reg.trust(
        "type_support.isA/canCoerce/coerce/toTypes/underlyingType (geometry_ops)",
        "stubs for concrete (non-random) values: numbers are floats/headings, Vectors/tuples/points coerce to Vector (via the real Vector._coerce / toVector), "
        "numbers/Orientations/vectors/tuples/oriented points coerce to Orientation (via the real Orientation._coerce), otherwise instance-of; random values are C05's concern",
    )

    # ---- specifier records
    def specifier_ctor(I, cls, args, kwargs):
        name, priorities, value = args[0], args[1], args[2]
        o = PObj(cls)
        req = set()
        if isinstance(value, PObj) and value.cls == "DelayedArgument":
            req = set(value.fields["_requiredProperties"])
        o.fields.update(name=name, priorities=priorities, value=value, requiredProperties=tuple(sorted(req)), modifiable_props=kwargs.get("modifiable_props"))
        return o

    def delayed_ctor(I, cls, args, kwargs):
        props, fn = args[0], args[1]
        o = PObj("DelayedArgument")
        o.fields.update(_requiredProperties=tuple(I.iterate(props)), value=fn, _needsLazyEval=True, _isLazy=True)
        return o

    reg.constructors["scenic.core.specifiers:Specifier"] = specifier_ctor
    reg.constructors["scenic.core.specifiers:ModifyingSpecifier"] = specifier_ctor
    reg.constructors["scenic.core.lazy_eval:DelayedArgument"] = delayed_ctor
    reg.trust("Specifier / DelayedArgument constructors (geometry_ops)", "records: name, priorities, value (dict or delayed function of the object under construction), required properties; resolution is C06's concern")

    # valueInContext / requiredProperties on concrete values: identity / no requirements
    def value_in_context(I, value, context):
        if isinstance(value, PObj) and value.cls == "DelayedArgument":
            return I.call_value(value.fields["value"], [context])
        return value

    m["scenic.core.lazy_eval:valueInContext"] = value_in_context
    m["scenic.core.lazy_eval:requiredProperties"] = lambda I, thing: bm.PSet(thing.fields["_requiredProperties"]) if isinstance(thing, PObj) and thing.cls == "DelayedArgument" else bm.PSet()
    reg.trust("lazy_eval.valueInContext / requiredProperties (geometry_ops)", "stubs: a delayed argument is evaluated by calling its function on the context; concrete values are returned unchanged")

    # ---- Orientation equality = equality of the rotations (q and -q are the same rotation)
    def orientation_eq(I, a, b):
        if not is_orientation(b):
            return NotImplemented
        ra, rb = rot(a), rot(b)
        if ra.eq(rb):
            return True
        return SV(ra == rb)

    m[f"{V}:Orientation.__eq__"] = orientation_eq
    reg.trust("Orientation.__eq__ (geometry_ops)", "model: two orientations are equal iff they are the same rotation (the code compares quaternions up to sign)")

    # ---- OrientedPoint._with(position=..., parentOrientation=...): default yaw = pitch = roll = 0
    def oriented_point_with(I, cls, **props):
        o = PObj(repo_class(f"{OT}:OrientedPoint"))
        o.fields.update(props)
        if "parentOrientation" in props:
            o.fields.update(yaw=0, pitch=0, roll=0, orientation=props["parentOrientation"])
            o.fields["heading"] = I.get_attr(props["parentOrientation"], "yaw") if False else None
            del o.fields["heading"]
        return o

    m["scenic.core.object_types:Constructible._with"] = oriented_point_with
    reg.trust("Constructible._with (geometry_ops)", "stub: an OrientedPoint with the given position and parentOrientation and the documented defaults yaw = pitch = roll = 0, hence orientation = parentOrientation")

    # ---- ego(): the real function reads veneer.currentScenario._ego
    def current_scenario(I):
        s = PObj("Scenario")
        s.fields.update(_ego=WORLD.get("ego"), _objects=WORLD.get("objects", ()), _workspace=None)
        return s

    reg.global_overrides[f"{VEN}:currentScenario"] = current_scenario

    # ---- Point.__getattr__ forwards Vector attributes to self.toVector() (real method interpreted)
    def forward(name):
        def hook(I, obj):
            f = I.find_method(obj.cls, "__getattr__")
            return I.run_function(f, [obj, name], {}, None)

        return hook

    for cls in ("Point", "OrientedPoint", "Object"):
        for name in ("angleTo", "azimuthTo", "altitudeTo", "angleWith", "offsetRotated", "offsetLocally", "offsetRadially", "x", "y", "z", "norm", "dot", "applyRotation", "rotatedBy", "coordinates") + (("distanceTo",) if cls != "Object" else ()):
            reg.attr_hooks[(f"{OT}:{cls}", name)] = forward(name)

    if "builtins" not in bm.EXTRA_MODULES:
        bm.EXTRA_MODULES["builtins"] = lambda I: bm.NativeModule("builtins", dict(I.builtins))


# ---------------------------------------------------------------- scene objects as model values


def make_point(I, name, kind="Object", orientation=None, register_inputs=True, dims=True):
    """A concrete (already sampled) Point / OrientedPoint / Object with symbolic pose and size."""
    eng = I.eng
    o = PObj(repo_class(f"{OT}:{kind}"), tag=name)
    pos = VectorT().fresh(eng, name + ".position", I)
    if register_inputs:
        eng.input_syms.append((name + ".position", VectorT(), pos))
    o.fields.update(position=pos, _needsSampling=False, _needsLazyEval=False, _isLazy=False, _dependencies=(), _requiredProperties=())
    o.fields["_conditioned"] = o
    if kind in ("OrientedPoint", "Object"):
        if orientation is None:
            t = OrientationT()
            orientation = t.fresh(eng, name + ".orientation", I)
            if register_inputs:
                eng.input_syms.append((name + ".orientation", t, orientation))
        o.fields["orientation"] = orientation
    if kind == "Object" and dims:
        for d in ("width", "length", "height"):
            v = eng.fresh_real(f"{name}.{d}")
            eng.assume(compare(">", v, 0))
            o.fields[d] = v
            if register_inputs:
                eng.input_syms.append((f"{name}.{d}", C.Real(), v))
        o.fields.update(hw=o.fields["width"] / 2, hl=o.fields["length"] / 2, hh=o.fields["height"] / 2)
        ct = eng.fresh_real(f"{name}.contactTolerance")
        eng.assume(compare(">=", ct, 0))
        o.fields["contactTolerance"] = ct
        if register_inputs:
            eng.input_syms.append((f"{name}.contactTolerance", C.Real(), ct))
    return o


def spec_value(I, spec, context):
    """values a Specifier record provides for the object under construction `context` -> PDict"""
    val = spec.fields["value"]
    if isinstance(val, PObj) and val.cls == "DelayedArgument":
        val = call_real(I, val.fields["value"], [context])
    return val


def pd(d, k):
    if not d.has(k):
        raise PyvcError(f"specifier does not provide {k}")
    return d.get(k)


# =================================================================================================
# 2. directional specifiers: left of / right of / ahead of / behind / above / below  X [by D]

DIRECTIONS = {
    # name: (axis index in X's local frame, sign, dimension property, function name)
    "LeftSpec": (0, -1, "width"),
    "RightSpec": (0, +1, "width"),
    "Ahead": (1, +1, "length"),
    "Behind": (1, -1, "length"),
    "Above": (2, +1, "height"),
    "Below": (2, -1, "height"),
}
SYNTAX = {"LeftSpec": "left of", "RightSpec": "right of", "Ahead": "ahead of", "Behind": "behind", "Above": "above", "Below": "below"}
TARGET_KINDS = ["Object", "OrientedPoint", "Vector"]
DIST_KINDS = ["none", "scalar", "vector"]


def register_directional(reg):
    install_veneer_stubs(reg)

    def make(fname):
        axis, sign, dim = DIRECTIONS[fname]
        name = f"veneer.{fname}"

        def setup(I, env):
            eng = I.eng
            WORLD.clear()
            tk = TARGET_KINDS[eng.choose(3, "target kind")]
            dk = DIST_KINDS[eng.choose(3, "by")]
            if tk == "Vector":
                pos = input_vector(eng, "X.position", I)
            else:
                pos = make_point(I, "X", tk)
            if dk == "none":
                dist = None
            elif dk == "scalar":
                dist = input_real(eng, "D")
            else:
                dist = input_vector(eng, "Dvec", I)
            new = make_point(I, "new", "Object")  # the object under construction (its own size, contact tolerance, orientation)
            env.vars.update(pos=pos, dist=dist, _tk=tk, _dk=dk, _new=new)
            eng.input_syms.append(("case", C.Const(None), f"{tk}/{dk}"))

        def post(I, env, outcome):
            eng = I.eng
            if outcome[0] != "return":
                return
            spec, tk, dk, new, X, dist = outcome[1], env.vars["_tk"], env.vars["_dk"], env.vars["_new"], env.vars["pos"], env.vars["dist"]
            chk = lambda clause, goal: eng.check(f"{name}#ensures.{clause}", goal)
            pri = spec.fields["priorities"]
            chk("specifies_position_with_priority_1", pri.has("position") and pri.get("position") == 1)
            chk("optionally_specifies_parentOrientation_iff_target_is_oriented", (pri.has("parentOrientation") and pri.get("parentOrientation") == 3) if tk != "Vector" else not pri.has("parentOrientation"))
            req = set(spec.fields["requiredProperties"])
            want_req = {dim} | ({"contactTolerance"} if tk == "Object" else set()) | ({"orientation"} if tk == "Vector" else set())
            chk("depends_on_the_documented_properties", req == want_req)
            vals = spec_value(I, spec, new)
            p2 = co(pd(vals, "position"))
            if tk == "Vector":
                P, R, dims = co(X), rot(new.fields["orientation"]), (0, 0, 0)
            else:
                P, R = co(X.fields["position"]), rot(X.fields["orientation"])
                dims = tuple(rz(X.fields[d]) for d in ("width", "length", "height")) if tk == "Object" else (0, 0, 0)
                chk("inherits_the_orientation_of_X", is_orientation(pd(vals, "parentOrientation")) and rot(pd(vals, "parentOrientation")).eq(R))
            # position of the new object in the local frame of X (of the new object itself when X is a bare vector)
            L = apply3(INV(R), [a - b for a, b in zip(p2, P)])
            own = rz(new.fields[dim])
            # gap between the facing sides of the two bounding boxes along the axis
            gap = (L[axis] - own / 2) - dims[axis] / 2 if sign > 0 else (-dims[axis] / 2) - (L[axis] + own / 2)
            if dk == "none":
                want = rz(new.fields["contactTolerance"]) / 2 if tk == "Object" else z3.RealVal(0)
                lateral = (0, 0, 0)
            elif dk == "scalar":
                want, lateral = rz(dist), (0, 0, 0)
            else:
                d = co(dist)
                want, lateral = d[axis], d
            chk("gap_between_bounding_boxes_along_the_axis", gap == want)
            for i, n in enumerate("xyz"):
                if i != axis:
                    chk(f"lateral_offset_{n}", L[i] == lateral[i])

        reg.add(
            C.Contract(
                f"{VEN}:{fname}",
                params=dict(pos=C.Const(None), dist=C.Const(None)),
                setup=setup,
                post=post,
                inline_all=True,
                replay=make_replay_directional(fname),
                properties=("C07",),
            )
        )

    for fname in DIRECTIONS:
        make(fname)


def _scenic_scene(text):
    import scenic

    sc = scenic.scenarioFromString(text, mode2D=False)
    scene, _ = sc.generate(maxIterations=50, verbosity=0)
    return scene


def _tup(v):
    return "(" + ", ".join(repr(float(c)) for c in v) + ")"


def make_replay_directional(fname):
    axis, sign, dim = DIRECTIONS[fname]

    def one(inputs, tk, dk, D, Dvec, e):
        g = lambda k, default: inputs.get(k, default)
        P = [_clamp(c, -1e4, 1e4) for c in g("X.position", [0, 0, 0])]
        by = ""
        if dk == "scalar":
            by = f" by {D!r}"
        elif dk == "vector":
            by = f" by {_tup(Dvec)}"
        nw, nl, nh = (_clamp(abs(float(g(f"new.{d}", 1.0))) or 1.0, 0.05, 50) for d in ("width", "length", "height"))
        ct = _clamp(abs(float(g("new.contactTolerance", 0.5))) or 0.5, 1e-3, 10)
        common = "with allowCollisions True, with requireVisible False"
        dims = (0, 0, 0)
        new_or = ""
        if tk == "Object":
            dims = tuple(_clamp(abs(float(g(f"X.{d}", 2.0))) or 1.0, 0.05, 50) for d in ("width", "length", "height"))
            decl = f"X = new Object at {_tup(P)}, facing {_tup(e)}, with width {dims[0]}, with length {dims[1]}, with height {dims[2]}, {common}\n"
        elif tk == "OrientedPoint":
            decl = f"X = new OrientedPoint at {_tup(P)}, facing {_tup(e)}\n"
        else:
            decl = f"X = {_tup(P)}\n"
            new_or = f", facing {_tup(e)}"
        last = f"n = new Object {SYNTAX[fname]} X{by}{new_or}, with width {nw}, with length {nl}, with height {nh}, with contactTolerance {ct}, {common}"
        scene = _scenic_scene(f"ego = new Object at (1000, 1000, 1000), {common}\n" + decl + last + "\n")
        n = scene.objects[-1]
        from scenic.core.vectors import Orientation

        R = Orientation.fromEuler(*e)
        if tk != "Vector" and not n.parentOrientation.approxEq(R):
            return f"`{last}` with X a {tk} facing {e}: the new object's parentOrientation is {n.parentOrientation}, not the orientation of X"
        L = _local(R, [a - b for a, b in zip(n.position, P)])
        own = (nw, nl, nh)[axis]
        gap = (L[axis] - own / 2) - dims[axis] / 2 if sign > 0 else (-dims[axis] / 2) - (L[axis] + own / 2)
        if dk == "none":
            want, lateral = (ct / 2 if tk == "Object" else 0.0), (0, 0, 0)
        elif dk == "scalar":
            want, lateral = D, (0, 0, 0)
        else:
            want, lateral = Dvec[axis], Dvec
        if not _close(gap, want, 1e-6):
            return f"`{last}` with X a {tk} at {P} facing {e}: the gap between the bounding boxes along X's local {'xyz'[axis]} axis is {gap:.6g}, expected {want:.6g}"
        for i in range(3):
            if i != axis and not _close(L[i], lateral[i], 1e-6):
                return f"`{last}` with X a {tk} at {P} facing {e}: offset along X's local {'xyz'[i]} axis is {L[i]:.6g}, expected {lateral[i]:.6g}"
        return None

    def replay(inputs, clause):
        tk, dk = inputs.get("case", "Object/none").split("/")
        Ds = [_clamp(inputs.get("D", 1.5), -100, 100), 1.5, -0.25]
        Dvecs = [[_clamp(c, -100, 100) for c in inputs.get("Dvec", [1.0, 2.0, 3.0])], [1.0, 2.0, 3.0]]
        for k, e in enumerate(catalogue(clause)):
            r = one(inputs, tk, dk, Ds[min(k, len(Ds) - 1)] if k < len(Ds) else Ds[1], Dvecs[min(k, 1)], e)
            if r:
                return r
        return None

    return replay


# =================================================================================================
# 3. the facing family


def make_context(I, name="new", parent=None, parent_yaw_only=False):
    """The object under construction as seen by a delayed specifier argument: position and parentOrientation."""
    eng = I.eng
    o = PObj(repo_class(f"{OT}:Object"), tag=name)
    pos = input_vector(eng, f"{name}.position", I)
    if parent is None:
        t = OrientationT(yaw_only=parent_yaw_only)
        parent = t.fresh(eng, f"{name}.parentOrientation", I)
        eng.input_syms.append((f"{name}.parentOrientation", t, parent))
    o.fields.update(position=pos, parentOrientation=parent)
    return o


def global_rotation_of(ctx, vals):
    """rotation of the finished object: parentOrientation * fromEuler(yaw, pitch, roll), unspecified angles default to 0"""
    g = lambda k: rz(vals.get(k)) if vals.has(k) else z3.RealVal(0)
    return MUL(rot(ctx.fields["parentOrientation"]), EULER(g("yaw"), g("pitch"), g("roll")))


def priorities_are(pri, want):
    return len(pri.keys) == len(want) and all(pri.has(k) and pri.get(k) == v for k, v in want.items())


def register_facing(reg):
    install_veneer_stubs(reg)

    # ---------------------------------------------------------------- facing <heading | orientation | field>
    def setup_facing(I, env):
        eng = I.eng
        WORLD.clear()
        kind = ["heading", "orientation", "field"][eng.choose(3, "argument")]
        ctx = make_context(I)
        if kind == "heading":
            h = input_real(eng, "heading")
            arg, target = h, EULER(rz(h), 0, 0)
        elif kind == "orientation":
            t = OrientationT()
            arg = t.fresh(eng, "target", I)
            target = rot(arg)
        else:
            t = OrientationT()
            at_pos = t.fresh(eng, "field_value", I)
            target = rot(at_pos)
            arg = PObj(repo_class(f"{V}:VectorField"), tag="field")
            arg.fields.update(name="field", value=BuiltinFn("field.value", lambda pos: at_pos), valueType=repo_class(f"{V}:Orientation"))
            arg.asked = []
            arg.fields["value"] = BuiltinFn("field.value", lambda pos: (arg.asked.append(pos), at_pos)[1])
        env.vars.update(heading=arg, _kind=kind, _ctx=ctx, _target=target)
        eng.input_syms.append(("case", C.Const(None), kind))

    def post_facing(I, env, outcome):
        eng = I.eng
        if outcome[0] != "return":
            return
        name = "veneer.Facing"
        spec, kind, ctx, target = outcome[1], env.vars["_kind"], env.vars["_ctx"], env.vars["_target"]
        chk = lambda clause, goal: eng.check(f"{name}#ensures.{clause}", goal)
        chk("specifies_yaw_pitch_roll_with_priority_1", priorities_are(spec.fields["priorities"], dict(yaw=1, pitch=1, roll=1)))
        req = set(spec.fields["requiredProperties"])
        chk("depends_on_parentOrientation_and_position_for_fields", req == ({"parentOrientation", "position"} if kind == "field" else {"parentOrientation"}))
        vals = spec_value(I, spec, ctx)
        chk("global_orientation_is_the_given_orientation", global_rotation_of(ctx, vals) == target)
        if kind == "field":
            asked = env.vars["heading"].asked
            chk("field_is_evaluated_at_the_object_position", len(asked) >= 1 and all(a is ctx.fields["position"] for a in asked))

    def replay_facing(inputs, clause):
        from scenic.core.vectors import Orientation

        kind = inputs.get("case", "orientation")
        for pe in catalogue(clause):
            for te in catalogue(clause, ROTATION_CATALOGUE[1:7]):
                if kind == "heading":
                    h = float(inputs.get("heading", 0.5)) or 0.5
                    tgt, want = repr(h), Orientation.fromEuler(h, 0, 0)
                else:
                    tgt, want = _tup(te), Orientation.fromEuler(*te)
                if kind == "field":
                    text = f"vf = VectorField('f', lambda pos: Orientation.fromEuler{_tup(te)})\nego = new Object at (5, 6, 7), with parentOrientation {_tup(pe)}, facing vf\n"
                    text = "from scenic.core.vectors import Orientation, VectorField\n" + text
                else:
                    text = f"ego = new Object at (5, 6, 7), with parentOrientation {_tup(pe)}, facing {tgt}\n"
                o = _scenic_scene(text).objects[0]
                if not o.orientation.approxEq(want, 1e-9):
                    return f"`{text.strip().splitlines()[-1]}`: global orientation is {o.orientation}, expected {want}"
        return None

    reg.add(C.Contract(f"{VEN}:Facing", params=dict(heading=C.Const(None)), setup=setup_facing, post=post_facing, inline_all=True, replay=replay_facing, properties=("C07",)))

    # ---------------------------------------------------------------- facing [directly] (toward | away from) <vector>
    def make_toward(fname, away, directly):
        name = f"veneer.{fname}"

        def setup(I, env):
            WORLD.clear()
            t = input_vector(I.eng, "target", I)
            env.vars.update(pos=t, _ctx=make_context(I))

        def post(I, env, outcome):
            eng = I.eng
            if outcome[0] != "return":
                return
            G.use(eng, "atan2", "trig")
            spec, ctx = outcome[1], env.vars["_ctx"]
            chk = lambda clause, goal: eng.check(f"{name}#ensures.{clause}", goal)
            chk("specifies_the_documented_angles_with_priority_1", priorities_are(spec.fields["priorities"], dict(yaw=1, pitch=1) if directly else dict(yaw=1)))
            chk("depends_on_position_and_parentOrientation", set(spec.fields["requiredProperties"]) == {"position", "parentOrientation"})
            vals = spec_value(I, spec, ctx)
            chk("provides_exactly_the_documented_angles", set(vals.keys) == ({"yaw", "pitch"} if directly else {"yaw"}))
            t, p = co(env.vars["pos"]), co(ctx.fields["position"])
            d = [a - b for a, b in zip(p, t)] if away else [a - b for a, b in zip(t, p)]
            r = apply3(INV(rot(ctx.fields["parentOrientation"])), d)  # line of sight in the parent frame
            yaw = rz(pd(vals, "yaw"))
            h = G.hyp_term(eng, [r[0], r[1]])  # horizontal range of the target in the parent frame
            alpha = ATAN2(r[1], r[0])
            turns = (yaw - (alpha - HALF_PI)) / TAU
            chk("yaw_is_the_azimuth_of_the_line_of_sight_in_the_parent_frame", is_turns(yaw - (alpha - HALF_PI)))
            # geometric meaning (heading 0 = +Y, counter-clockwise): the horizontal line of sight is h * (-sin yaw, cos yaw),
            # i.e. after turning by yaw about the parent's Z axis the target is straight ahead
            G.instance(eng, "A2.atan2_polar_form", r[1], r[0])
            G.instance(eng, "A2.sin_cos_quarter_shift", alpha)
            G.instance(eng, "A2.sin_cos_periodic", alpha - HALF_PI, turns)
            chk("horizontal_line_of_sight_points_along_heading_yaw_x", r[0] == -h * SIN(yaw))
            chk("horizontal_line_of_sight_points_along_heading_yaw_y", r[1] == h * COS(yaw))
            if directly:
                pitch = rz(pd(vals, "pitch"))
                rho = G.hyp_term(eng, [h, r[2]])
                G.instance(eng, "A2.atan2_polar_form", r[2], h)
                chk("pitch_is_the_elevation_of_the_line_of_sight_in_the_parent_frame", pitch == ATAN2(r[2], h))
                chk("line_of_sight_is_raised_by_pitch_horizontal_part", h == rho * COS(pitch))
                chk("line_of_sight_is_raised_by_pitch_vertical_part", r[2] == rho * SIN(pitch))

        def replay(inputs, clause):
            from scenic.core.vectors import Vector

            t = [float(c) for c in inputs.get("target", [3, 4, 5])]
            p = [float(c) for c in inputs.get("new.position", [1, 1, 1])]
            cands = [(t, p), ([3.0, 4.0, 5.0], [1.0, -2.0, 0.5])]
            syntax = f"facing {'directly ' if directly else ''}{'away from' if away else 'toward'}"
            for t, p in cands:
                if _close(t[0], p[0]) and _close(t[1], p[1]):
                    continue
                for pe in catalogue(clause):
                    text = f"ego = new Object at {_tup(p)}, with parentOrientation {_tup(pe)}, {syntax} {_tup(t)}\n"
                    o = _scenic_scene(text).objects[0]
                    d = [a - b for a, b in zip(p, t)] if away else [a - b for a, b in zip(t, p)]
                    if directly:
                        L = _local(o.orientation, d)  # in the object's own frame the target must be on +Y
                        n = math.sqrt(sum(c * c for c in d))
                        if not (_close(L[0], 0, 1e-6) and _close(L[2], 0, 1e-6) and _close(L[1], n, 1e-6)):
                            return f"`{text.strip()}`: direction in the object's frame is {list(L)}, expected (0, {n}, 0)"
                    else:
                        from scenic.core.vectors import Orientation

                        par = Orientation.fromEuler(*pe)
                        r = _local(par, d)
                        L = _local(Orientation.fromEuler(o.yaw, 0, 0), r)
                        if not (_close(L[0], 0, 1e-6) and L[1] >= -1e-9):
                            return f"`{text.strip()}`: after the yaw {o.yaw} the line of sight in the parent frame is {list(L)}, expected x = 0, y >= 0"
            return None

        reg.add(C.Contract(f"{VEN}:{fname}", params=dict(pos=C.Const(None)), setup=setup, post=post, inline_all=True, replay=replay, properties=("C07",)))

    make_toward("FacingToward", False, False)
    make_toward("FacingAwayFrom", True, False)
    make_toward("FacingDirectlyToward", False, True)
    make_toward("FacingDirectlyAwayFrom", True, True)

    # ---------------------------------------------------------------- apparently facing H [from V]
    def setup_apparent(I, env):
        eng = I.eng
        WORLD.clear()
        H = input_real(eng, "heading")
        use_ego = eng.choose(2, "from?") == 1
        ctx = make_context(I, parent_yaw_only=True)
        if use_ego:
            ego = make_point(I, "ego", "Object")
            WORLD["ego"] = ego
            V_, fromPt = ego.fields["position"], None
        else:
            V_ = input_vector(eng, "from", I)
            fromPt = V_
        p, v = co(ctx.fields["position"]), co(V_)
        eng.assume(z3.Or(p[0] != v[0], p[1] != v[1]))  # the line of sight must have a direction in the XY plane
        env.vars.update(heading=H, fromPt=fromPt, _ctx=ctx, _V=V_)

    refuted_once = set()

    def post_apparent(I, env, outcome):
        eng = I.eng
        if outcome[0] != "return":
            return
        name = "veneer.ApparentlyFacing"
        G.use(eng, "atan2", "trig", "rot.yaw")
        spec, ctx = outcome[1], env.vars["_ctx"]
        chk = lambda clause, goal: eng.check(f"{name}#ensures.{clause}", goal)
        chk("specifies_yaw_with_priority_1", priorities_are(spec.fields["priorities"], dict(yaw=1)))
        chk("depends_on_position_and_parentOrientation", set(spec.fields["requiredProperties"]) == {"position", "parentOrientation"})
        vals = spec_value(I, spec, ctx)
        yaw, H = rz(pd(vals, "yaw")), rz(env.vars["heading"])
        yawP = rz(ctx.fields["parentOrientation"].yaw_sym)
        G.use(eng, "atan2.yaw")
        Vcls = repo_class(f"{V}:Vector")
        # the line of sight V -> position and the same vector turned by H (computed with the REAL Vector code, so that the
        # lemma instances below talk about the very terms the carrier builds); hints only -- the goal does not mention them
        d_vec = call_real(I, I.find_method(Vcls, "__sub__"), [ctx.fields["position"], env.vars["_V"]])
        dx, dy = co(d_vec)[0], co(d_vec)[1]
        G.instance(eng, "A2.atan2_of_rotated_vector", H, dx, dy)
        G.instance(eng, "A2.planar_rotation_fixes_only_the_zero_vector", H, dx, dy)
        e_vec = call_real(I, I.find_method(Vcls, "rotatedBy"), [d_vec, env.vars["heading"]])
        e = co(e_vec)
        # parent is the planar rotation by yawP: global orientation = yaw(yawP) * yaw(yaw) = yaw(yawP + yaw); its heading is yawP + yaw (mod tau).
        # "equal modulo whole turns" is proved with an explicit integer witness (ghost): the turns lost by the two rotations
        E = (yawP + yaw) - ((ATAN2(dy, dx) - HALF_PI) + H)
        witnesses = [G.W_YAW_ROTATED(-yawP, e[0], e[1], e[2]) + G.W_ROTATED(H, dx, dy)]
        # (an obligation already refuted on the other path -- `from` given / ego -- is not refuted a second time: each costs the full solver budget)
        if "heading" not in refuted_once:
            if not chk("global_heading_is_the_azimuth_of_the_line_of_sight_plus_H", z3.Or(*[E == TAU * z3.ToReal(k) for k in witnesses])):
                refuted_once.add("heading")

    def replay_apparent(inputs, clause):
        H = float(inputs.get("heading", 0.0))
        p = [float(c) for c in inputs.get("new.position", [0, 10, 0])]
        v = [float(c) for c in inputs.get("from", inputs.get("ego.position", [0, 0, 0]))]
        par = inputs.get("new.parentOrientation")
        yawPs = [float(par["yaw"])] if isinstance(par, dict) and "yaw" in par else []
        for yawP in yawPs + [math.pi / 2, 1.0, -2.0]:
            for (pp, vv) in ((p, v), ([0.0, 10.0, 0.0], [0.0, 0.0, 0.0])):
                if _close(pp[0], vv[0]) and _close(pp[1], vv[1]):
                    continue
                text = f"ego = new Object at (500, 500, 0)\na = new Object at {_tup(pp)}, with parentOrientation ({yawP!r}, 0, 0), apparently facing {H!r} from {_tup(vv)}\n"
                o = _scenic_scene(text).objects[1]
                want = math.atan2(pp[1] - vv[1], pp[0] - vv[0]) - math.pi / 2 + H
                if not _angle_close(o.heading, want, 1e-6):
                    return (
                        f"`new Object at {_tup(pp)}, with parentOrientation ({yawP:.6g}, 0, 0), apparently facing {H:.6g} from {_tup(vv)}`: global heading is {o.heading:.6g} rad, "
                        f"the line of sight has azimuth {want - H:.6g} so the heading should be {want:.6g} (mod tau)"
                    )
        return None

    reg.add(C.Contract(f"{VEN}:ApparentlyFacing", params=dict(heading=C.Const(None), fromPt=C.Const(None)), setup=setup_apparent, post=post_apparent, inline_all=True, replay=replay_apparent, properties=("C07",)))


# =================================================================================================
# 4. position specifiers and operators composing frames: beyond / offset by / offset along / relative to ...


def _simple(reg, target, setup, post, replay, name=None, key=None, requires=()):
    """contract with programmatic inputs and postcondition on a veneer / object_types / geometry carrier"""
    mod, fn = target.split(":")
    short = name or f"{mod.split('.')[-1]}.{fn}" + (key or "")

    def post_(I, env, outcome):
        chk = lambda clause, goal: I.eng.check(f"{short}#ensures.{clause}", goal)
        if outcome[0] != "return":
            return
        post(I, env, outcome[1], chk)

    def setup_(I, env):
        WORLD.clear()
        setup(I, env)

    import inspect

    reg.add(C.Contract(target, params={}, setup=setup_, post=post_, replay=replay, inline_all=True, properties=("C07",)), key=(target + key) if key else None)


def make_ego(I, yaw_only=False):
    o = make_point(I, "ego", "Object", orientation=(OrientationT(yaw_only=True).fresh(I.eng, "ego.orientation", I) if yaw_only else None))
    if yaw_only:
        I.eng.input_syms.append(("ego.orientation", OrientationT(yaw_only=True), o.fields["orientation"]))
    WORLD["ego"] = o
    return o


def _real_oriented_point(pos, euler):
    from scenic.core.object_types import OrientedPoint
    from scenic.core.vectors import Orientation, Vector

    return OrientedPoint._with(position=Vector(*pos), parentOrientation=Orientation.fromEuler(*euler))


def _real_object(pos, euler, **kw):
    from scenic.core.object_types import Object
    from scenic.core.vectors import Orientation, Vector

    return Object._with(position=Vector(*pos), parentOrientation=Orientation.fromEuler(*euler), **kw)


def _with_ego(ego, fn):
    """run fn() with veneer.currentScenario._ego = ego (the real `ego()` reads it)"""
    import types

    import scenic.syntax.veneer as ven

    saved = ven.currentScenario
    ven.currentScenario = types.SimpleNamespace(_ego=ego, _objects=[ego] if ego is not None else [], _workspace=None)
    try:
        return fn()
    finally:
        ven.currentScenario = saved


def _clamp(x, lo, hi):
    x = float(x)
    return lo if x < lo else hi if x > hi else x


def _f3(inputs, key, default):
    # counter-models may contain astronomically large / tiny numbers; replays use the nearest tame values
    return [_clamp(c, -1e4, 1e4) for c in inputs.get(key, default)]


def register_frames(reg):
    install_veneer_stubs(reg)

    # ---------------------------------------------------------------- beyond X by D|V [from Z]
    def setup_beyond(I, env):
        eng = I.eng
        X = input_vector(eng, "X", I)
        ok = ["scalar", "vector"][eng.choose(2, "offset kind")]
        fk = ["ego", "vector", "orientedpoint"][eng.choose(3, "from kind")]
        offset = input_real(eng, "D") if ok == "scalar" else input_vector(eng, "offset", I)
        if fk == "ego":
            Zobj, fromPt = make_ego(I), None
            Z = Zobj.fields["position"]
        elif fk == "vector":
            Z = fromPt = input_vector(eng, "Z", I)
            Zobj = None
        else:
            Zobj = fromPt = make_point(I, "Z", "OrientedPoint")
            Z = Zobj.fields["position"]
        x, z = co(X), co(Z)
        eng.assume(z3.Or(*[a != b for a, b in zip(x, z)]))  # a line of sight needs two distinct points
        env.vars.update(pos=X, offset=offset, fromPt=fromPt, _ok=ok, _fk=fk, _Z=Z, _Zobj=Zobj)
        eng.input_syms.append(("case", C.Const(None), f"{ok}/{fk}"))

    def post_beyond(I, env, spec, chk):
        eng = I.eng
        G.use(eng, "atan2", "trig", "rot.euler_action")
        chk("specifies_position_1_and_parentOrientation_3", priorities_are(spec.fields["priorities"], dict(position=1, parentOrientation=3)))
        chk("has_no_dependencies", len(spec.fields["requiredProperties"]) == 0)
        vals = spec.fields["value"]
        X, Z, ok, fk = co(env.vars["pos"]), co(env.vars["_Z"]), env.vars["_ok"], env.vars["_fk"]
        p2 = co(pd(vals, "position"))
        d = [a - b for a, b in zip(X, Z)]  # line of sight from Z to X
        h = G.hyp_term(eng, [d[0], d[1]])
        alpha = ATAN2(d[1], d[0])
        theta, phi = alpha - HALF_PI, ATAN2(d[2], h)
        off = (z3.RealVal(0), rz(env.vars["offset"]), z3.RealVal(0)) if ok == "scalar" else co(env.vars["offset"])
        # local frame centred at X whose orientation (0,0,0) faces directly away from Z: yaw = azimuth, pitch = elevation of the line of sight
        want = apply3(EULER(theta, phi, 0), off)
        for i, n in enumerate("xyz"):
            chk(f"position_is_the_offset_in_the_line_of_sight_frame_{n}", p2[i] - X[i] == want[i])
        if ok == "scalar":
            # geometric meaning: D further along the line of sight, i.e. |d| * (p' - X) = D * d
            D = off[1]
            rho = G.hyp_term(eng, [h, d[2]])
            G.instance(eng, "A2.atan2_polar_form", d[1], d[0])
            G.instance(eng, "A2.atan2_polar_form", d[2], h)
            G.instance(eng, "A2.sin_cos_quarter_shift", alpha)
            chk("scalar_offset_is_along_the_line_of_sight_z", rho * (p2[2] - X[2]) == D * d[2])
            chk("scalar_offset_horizontal_part_has_length_D_cos_elevation_x", h * (p2[0] - X[0]) == (COS(phi) * D) * d[0])
            chk("scalar_offset_horizontal_part_has_length_D_cos_elevation_y", h * (p2[1] - X[1]) == (COS(phi) * D) * d[1])
        po = pd(vals, "parentOrientation")
        if fk == "vector":
            chk("parentOrientation_is_global_when_Z_is_a_bare_vector", is_orientation(po) and (rot(po) == IDENT))
        else:
            chk("parentOrientation_is_the_orientation_of_Z", is_orientation(po) and rot(po).eq(rot(env.vars["_Zobj"].fields["orientation"])))

    def replay_beyond(inputs, clause):
        import numpy as np
        from scipy.spatial.transform import Rotation

        import scenic.syntax.veneer as ven
        from scenic.core.vectors import Orientation, Vector

        ok, fk = inputs.get("case", "scalar/vector").split("/")
        X = _f3(inputs, "X", [3, 4, 5])
        Z = _f3(inputs, {"ego": "ego.position", "vector": "Z", "orientedpoint": "Z.position"}[fk], [0, 0, 0])
        tries = [(X, Z), ([3.0, 4.0, 5.0], [1.0, -1.0, 0.5]), ([-2.0, 1.0, 0.0], [4.0, 3.0, -1.0])]
        for X, Z in tries:
            if all(_close(a, b) for a, b in zip(X, Z)):
                continue
            off = [0.0, float(inputs.get("D", 2.0)) or 2.0, 0.0] if ok == "scalar" else (_f3(inputs, "offset", [1, 3, 0.5]))
            for e in ROTATION_CATALOGUE[:6]:
                arg = (off[1] if ok == "scalar" else Vector(*off))
                if fk == "ego":
                    ego = _real_object(Z, e)
                    spec = _with_ego(ego, lambda: ven.Beyond(Vector(*X), arg))
                    want_or = ego.orientation
                elif fk == "vector":
                    spec = _with_ego(None, lambda: ven.Beyond(Vector(*X), arg, Vector(*Z)))
                    want_or = Orientation.fromEuler(0, 0, 0)
                else:
                    op = _real_oriented_point(Z, e)
                    spec = _with_ego(None, lambda: ven.Beyond(Vector(*X), arg, op))
                    want_or = op.orientation
                val = spec.value
                d = np.array(X) - np.array(Z)
                theta, phi = math.atan2(d[1], d[0]) - math.pi / 2, math.atan2(d[2], math.hypot(d[0], d[1]))
                want = np.array(X) + Rotation.from_euler("ZXY", [theta, phi, 0]).apply(np.array(off))
                if ok == "scalar":
                    want = np.array(X) + off[1] * d / np.linalg.norm(d)
                if "parentOrientation" not in clause and not all(_close(a, b) for a, b in zip(val["position"], want)):
                    return f"beyond {X} by {arg} from {Z}: position {val['position']}, expected {list(want)}"
                if (clause == "*" or "parentOrientation" in clause) and not val["parentOrientation"].approxEq(want_or):
                    return f"beyond {X} by {arg} from a {fk} facing {e}: parentOrientation {val['parentOrientation']}, expected {want_or}"
        return None

    _simple(reg, f"{VEN}:Beyond", setup_beyond, post_beyond, replay_beyond)

    # ---------------------------------------------------------------- offset by V / offset along H by V
    def setup_offset_by(I, env):
        make_ego(I)
        env.vars.update(offset=input_vector(I.eng, "offset", I))

    def post_offset_by(I, env, spec, chk):
        ego = WORLD["ego"]
        chk("specifies_position_1_and_parentOrientation_3", priorities_are(spec.fields["priorities"], dict(position=1, parentOrientation=3)))
        vals = spec.fields["value"]
        P, R = co(ego.fields["position"]), rot(ego.fields["orientation"])
        chk("position_is_the_offset_in_the_local_frame_of_ego", eq3(co(pd(vals, "position")), [a + b for a, b in zip(P, apply3(R, co(env.vars["offset"])))]))
        po = pd(vals, "parentOrientation")
        chk("parentOrientation_is_the_orientation_of_ego", is_orientation(po) and rot(po).eq(R))

    def replay_offset_by(inputs, clause):
        import numpy as np

        import scenic.syntax.veneer as ven
        from scenic.core.vectors import Vector

        P, off = _f3(inputs, "ego.position", [1, 2, 3]), _f3(inputs, "offset", [1, 2, 3])
        for off in (off, [1.0, 2.0, 3.0]):
            for e in ROTATION_CATALOGUE:
                ego = _real_object(P, e)
                val = _with_ego(ego, lambda: ven.OffsetBy(Vector(*off))).value
                want = np.array(P) + ego.orientation.getRotation().apply(np.array(off))
                if not all(_close(a, b) for a, b in zip(val["position"], want)):
                    return f"ego at {P} facing {e}: `offset by {off}` gives position {val['position']}, expected {list(want)}"
                if not val["parentOrientation"].approxEq(ego.orientation):
                    return f"ego facing {e}: `offset by {off}` gives parentOrientation {val['parentOrientation']}"
        return None

    _simple(reg, f"{VEN}:OffsetBy", setup_offset_by, post_offset_by, replay_offset_by)

    def direction_input(I, env):
        eng = I.eng
        dk = ["heading", "orientation"][eng.choose(2, "direction kind")]
        if dk == "heading":
            h = input_real(eng, "direction")
            return h, EULER(rz(h), 0, 0), dk
        t = OrientationT()
        o = t.fresh(eng, "direction", I)
        eng.input_syms.append(("direction", t, o))
        return o, rot(o), dk

    def setup_offset_along_spec(I, env):
        make_ego(I)
        d, R, dk = direction_input(I, env)
        env.vars.update(direction=d, offset=input_vector(I.eng, "offset", I), _R=R, _dk=dk)
        I.eng.input_syms.append(("case", C.Const(None), dk))

    def post_offset_along_spec(I, env, spec, chk):
        ego = WORLD["ego"]
        chk("specifies_position_1_and_parentOrientation_3", priorities_are(spec.fields["priorities"], dict(position=1, parentOrientation=3)))
        vals = spec.fields["value"]
        P = co(ego.fields["position"])
        chk("position_is_the_offset_in_the_frame_centred_at_ego_oriented_along_the_direction", eq3(co(pd(vals, "position")), [a + b for a, b in zip(P, apply3(env.vars["_R"], co(env.vars["offset"])))]))
        po = pd(vals, "parentOrientation")
        chk("parentOrientation_is_the_orientation_of_ego", is_orientation(po) and rot(po).eq(rot(ego.fields["orientation"])))

    def replay_offset_along(spec_form):
        def replay(inputs, clause):
            import numpy as np

            import scenic.syntax.veneer as ven
            from scenic.core.vectors import Orientation, Vector

            dk = inputs.get("case", "heading")
            P, off = _f3(inputs, "ego.position" if spec_form else "X", [1, 2, 3]), _f3(inputs, "offset" if spec_form else "Y", [1, 2, 3])
            dirs = [float(inputs.get("direction", 0.7)), 0.7, -2.0] if dk == "heading" else [Orientation.fromEuler(*e) for e in ROTATION_CATALOGUE]
            for dr in dirs:
                R = Orientation.fromEuler(dr, 0, 0) if dk == "heading" else dr
                want = np.array(P) + R.getRotation().apply(np.array(off))
                if spec_form:
                    ego = _real_object(P, (0.3, 0.2, 0.1))
                    val = _with_ego(ego, lambda: ven.OffsetAlongSpec(dr, Vector(*off))).value
                    got = val["position"]
                    if not val["parentOrientation"].approxEq(ego.orientation):
                        return f"`offset along {dr} by {off}`: parentOrientation {val['parentOrientation']} is not ego's"
                else:
                    got = ven.OffsetAlong(Vector(*P), dr, Vector(*off))
                if not all(_close(a, b) for a, b in zip(got, want)):
                    return f"{P} offset along {dr} by {off} = {got}, expected {list(want)}"
            return None

        return replay

    _simple(reg, f"{VEN}:OffsetAlongSpec", setup_offset_along_spec, post_offset_along_spec, replay_offset_along(True))

    def setup_offset_along(I, env):
        d, R, dk = direction_input(I, env)
        env.vars.update(X=input_vector(I.eng, "X", I), H=d, Y=input_vector(I.eng, "Y", I), _R=R)
        I.eng.input_syms.append(("case", C.Const(None), dk))

    def post_offset_along(I, env, res, chk):
        chk("is_X_plus_Y_expressed_in_the_frame_of_the_direction", is_vector(res) and eq3(co(res), [a + b for a, b in zip(co(env.vars["X"]), apply3(env.vars["_R"], co(env.vars["Y"])))]))

    _simple(reg, f"{VEN}:OffsetAlong", setup_offset_along, post_offset_along, replay_offset_along(False))

    # ---------------------------------------------------------------- X relative to Y
    REL_CASES = ["vector/op", "op/vector", "heading/op", "op/heading", "orientation/orientation", "heading/heading", "vector/vector", "orientation/op", "op/orientation"]

    def setup_relative(I, env):
        eng = I.eng
        case = REL_CASES[eng.choose(len(REL_CASES), "forms")]
        kx, ky = case.split("/")

        def mk(kind, nm):
            if kind == "vector":
                return input_vector(eng, nm, I)
            if kind == "heading":
                return input_real(eng, nm)
            if kind == "orientation":
                t = OrientationT()
                o = t.fresh(eng, nm, I)
                eng.input_syms.append((nm, t, o))
                return o
            o = make_point(I, nm, "OrientedPoint")
            hd = eng.fresh_real(nm + ".heading")
            o.fields["heading"] = hd
            eng.input_syms.append((nm + ".heading", C.Real(), hd))
            return o

        env.vars.update(X=mk(kx, "X"), Y=mk(ky, "Y"), _case=case)
        eng.input_syms.append(("case", C.Const(None), case))

    def post_relative(I, env, res, chk):
        case, X, Y = env.vars["_case"], env.vars["X"], env.vars["Y"]
        kx, ky = case.split("/")
        if "op" in (kx, ky):
            op, other, ko = (X, Y, ky) if kx == "op" else (Y, X, kx)
            if ko == "vector":
                chk("vector_relative_to_oriented_point_is_an_oriented_point", class_name(res) == "OrientedPoint")
                if class_name(res) == "OrientedPoint":
                    P, R = co(op.fields["position"]), rot(op.fields["orientation"])
                    chk("its_position_is_the_vector_in_the_local_frame_of_the_point", eq3(co(res.fields["position"]), [a + b for a, b in zip(P, apply3(R, co(other)))]))
                    chk("it_inherits_the_orientation_of_the_point", rot(res.fields["orientation"]).eq(R))
            elif ko == "heading":
                chk("heading_relative_to_oriented_point_adds_the_headings", rz(res) == rz(op.fields["heading"]) + rz(other))
            else:
                want = MUL(rot(Y.fields["orientation"]) if ky == "op" else rot(Y), rot(X.fields["orientation"]) if kx == "op" else rot(X))
                chk("orientation_X_is_applied_in_the_frame_of_Y", is_orientation(res) and rot(res) == want)
        elif case == "orientation/orientation":
            chk("orientation_X_is_applied_in_the_frame_of_Y", is_orientation(res) and rot(res) == MUL(rot(Y), rot(X)))
        elif case == "heading/heading":
            # "-5 deg relative to 90 deg is simply 85 degrees": the sum, as a heading or as the planar orientation with that yaw
            G.use(I.eng, "rot.yaw")
            G.instance(I.eng, "L-rot.yaw_compose", rz(Y), rz(X))
            chk("headings_add", (rot(res) == EULER(rz(X) + rz(Y), 0, 0)) if is_orientation(res) else (rz(res) == rz(X) + rz(Y)))
        else:
            chk("vectors_add", is_vector(res) and eq3(co(res), [a + b for a, b in zip(co(X), co(Y))]))

    def replay_relative(inputs, clause):
        import numpy as np

        import scenic.syntax.veneer as ven
        from scenic.core.vectors import Orientation, Vector

        case = inputs.get("case", "vector/op")
        kx, ky = case.split("/")
        for e1 in ROTATION_CATALOGUE[:6]:
            for e2 in ROTATION_CATALOGUE[1:4]:

                def mk(kind, nm, e):
                    if kind == "vector":
                        return Vector(*_f3(inputs, nm, [1, 2, 3]))
                    if kind == "heading":
                        return float(inputs.get(nm, 0.4))
                    if kind == "orientation":
                        return Orientation.fromEuler(*e)
                    return _real_oriented_point(_f3(inputs, nm + ".position", [4, 5, 6]), e)

                X, Y = mk(kx, "X", e1), mk(ky, "Y", e2)
                res = ven.RelativeTo(X, Y)
                rotn = lambda v: (v.orientation if hasattr(v, "position") else v).getRotation()
                if "op" in (kx, ky) and "vector" in (kx, ky):
                    op, v = (X, Y) if kx == "op" else (Y, X)
                    want = np.array(list(op.position)) + op.orientation.getRotation().apply(np.array(list(v)))
                    if not all(_close(a, b) for a, b in zip(res.position, want)) or not res.orientation.approxEq(op.orientation):
                        return f"({v}) relative to an oriented point at {op.position} facing {op.orientation}: got position {res.position}, orientation {res.orientation}; expected {list(want)}"
                elif "op" in (kx, ky) and "heading" in (kx, ky):
                    op, h = (X, Y) if kx == "op" else (Y, X)
                    if not _close(res, op.heading + h):
                        return f"{h} relative to an oriented point with heading {op.heading} = {res}"
                elif kx in ("orientation", "op") and ky in ("orientation", "op"):
                    want = Orientation(rotn(Y) * rotn(X))
                    if not res.approxEq(want):
                        return f"{X} relative to {Y} = {res}, expected {want}"
                elif case == "heading/heading":
                    if not (res.approxEq(Orientation.fromEuler(X + Y, 0, 0)) if isinstance(res, Orientation) else _close(res, X + Y)):
                        return f"{X} relative to {Y} = {res}"
                else:
                    if not all(_close(a, b + c) for a, b, c in zip(res, X, Y)):
                        return f"{X} relative to {Y} = {res}"
        return None

    _simple(reg, f"{VEN}:RelativeTo", setup_relative, post_relative, replay_relative)

    # ---------------------------------------------------------------- scalar operators
    def half_open_turn(eng, v):
        eng.assume(z3.And(-PI < rz(v), rz(v) <= PI))

    def setup_rel_heading(I, env):
        eng = I.eng
        G.use(eng, "rot.yaw")
        hx = input_real(eng, "X")
        half_open_turn(eng, hx)
        if eng.choose(2, "from?") == 0:
            hy = input_real(eng, "Y")
            half_open_turn(eng, hy)
            env.vars.update(X=hx, Y=hy, _hy=hy)
        else:
            ego = make_ego(I, yaw_only=True)
            hy = ego.fields["orientation"].yaw_sym
            half_open_turn(eng, hy)
            env.vars.update(X=hx, Y=None, _hy=hy)

    def post_rel_heading(I, env, res, chk):
        r = rz(res)
        chk("in_range", z3.And(-PI <= r, r <= PI))
        chk("is_the_difference_of_the_headings_modulo_a_turn", is_turns(r - (rz(env.vars["X"]) - rz(env.vars["_hy"]))))

    def replay_rel_heading(inputs, clause):
        import scenic.syntax.veneer as ven

        hx = float(inputs.get("X", 1.0))
        eo = inputs.get("ego.orientation")
        hy = float(inputs["Y"]) if "Y" in inputs else float(eo["yaw"]) if isinstance(eo, dict) else 0.5
        for hx, hy in ((hx, hy), (3.0, -3.0), (-2.5, 2.0)):
            if "Y" in inputs:
                r = ven.RelativeHeading(hx, hy)
            else:
                r = _with_ego(_real_object([0, 0, 0], (hy, 0, 0)), lambda: ven.RelativeHeading(hx))
            if not (-math.pi <= r <= math.pi) or not _angle_close(r, hx - hy):
                return f"relative heading of {hx} from {hy} = {r}"
        return None

    _simple(reg, f"{VEN}:RelativeHeading", setup_rel_heading, post_rel_heading, replay_rel_heading)

    def setup_app_heading(I, env):
        eng = I.eng
        X = make_point(I, "X", "OrientedPoint")
        hd = input_real(eng, "X.heading")
        X.fields["heading"] = hd
        if eng.choose(2, "from?") == 0:
            Y = input_vector(eng, "Y", I)
            env.vars.update(X=X, Y=Y, _Y=Y)
        else:
            ego = make_ego(I)
            env.vars.update(X=X, Y=None, _Y=ego.fields["position"])

    def post_app_heading(I, env, res, chk):
        G.use(I.eng, "atan2")
        r, X = rz(res), env.vars["X"]
        P, Yv = co(X.fields["position"]), co(env.vars["_Y"])
        az = ATAN2(P[1] - Yv[1], P[0] - Yv[0]) - HALF_PI  # azimuth of the line of sight from Y to X
        chk("in_range", z3.And(-PI <= r, r <= PI))
        chk("is_the_heading_relative_to_the_line_of_sight", is_turns(r - (rz(X.fields["heading"]) - az)))

    def replay_app_heading(inputs, clause):
        import scenic.syntax.veneer as ven
        from scenic.core.vectors import Vector

        P, Yv = _f3(inputs, "X.position", [0, 10, 0]), _f3(inputs, "Y", inputs.get("ego.position", [0, 0, 0]))
        h = float(inputs.get("X.heading", 0.3))
        for P, Yv, h in ((P, Yv, h), ([0.0, 10.0, 0.0], [3.0, 1.0, 0.0], 0.3), ([-4.0, -1.0, 2.0], [3.0, 1.0, 0.0], 2.9)):
            op = _real_oriented_point(P, (h, 0, 0))
            r = ven.ApparentHeading(op, Vector(*Yv))
            want = h - (math.atan2(P[1] - Yv[1], P[0] - Yv[0]) - math.pi / 2)
            if not (-math.pi <= r <= math.pi) or not _angle_close(r, want):
                return f"apparent heading of an oriented point at {P} with heading {h} from {Yv} = {r}, expected {want} (mod tau)"
        return None

    _simple(reg, f"{VEN}:ApparentHeading", setup_app_heading, post_app_heading, replay_app_heading)

    def two_points(names=("X", "Y"), second_optional=True):
        def setup(I, env):
            eng = I.eng
            a = input_vector(eng, names[0], I)
            if second_optional and eng.choose(2, "second?") == 1:
                ego = make_ego(I)
                env.vars.update({names[0]: a, names[1]: None, "_a": a, "_b": ego.fields["position"]})
            else:
                b = input_vector(eng, names[1], I)
                env.vars.update({names[0]: a, names[1]: b, "_a": a, "_b": b})

        return setup

    def post_distance(I, env, res, chk):
        G.hyp_hints(I.eng, res)
        a, b = co(env.vars["_a"]), co(env.vars["_b"])
        chk("distance_is_nonnegative", rz(res) >= 0)
        chk("euclidean_distance_squared", sq(rz(res)) == norm2([x - y for x, y in zip(a, b)]))

    def replay_two(fname, oracle, angle=False, ego_first=False):
        def replay(inputs, clause):
            import scenic.syntax.veneer as ven
            from scenic.core.vectors import Vector

            a, b = _f3(inputs, "X", [1, 2, 3]), _f3(inputs, "Y", inputs.get("ego.position", [4, 6, 8]))
            for a, b in ((a, b), ([1.0, 2.0, 3.0], [-2.0, 6.0, 4.0])):
                if "Y" in inputs or fname in ("AngleTo", "AltitudeTo"):
                    if fname in ("AngleTo", "AltitudeTo"):
                        r = _with_ego(_real_object(b, (0.3, 0, 0)), lambda: getattr(ven, fname)(Vector(*a)))
                        want = oracle(b, a)
                    else:
                        r = getattr(ven, fname)(Vector(*a), Vector(*b))
                        want = oracle(a, b)
                else:
                    r = _with_ego(_real_object(b, (0.3, 0, 0)), lambda: getattr(ven, fname)(Vector(*a)))
                    want = oracle(a, b)
                if not (_angle_close(r, want) if angle else _close(r, want)):
                    return f"{fname}({a}, {b}) = {r}, expected {want}"
            return None

        return replay

    _simple(reg, f"{VEN}:DistanceFrom", two_points(), post_distance, replay_two("DistanceFrom", lambda a, b: math.dist(a, b)))

    def az_f(a, b):
        return math.atan2(b[1] - a[1], b[0] - a[0]) - math.pi / 2

    def alt_f(a, b):
        return math.atan2(b[2] - a[2], math.hypot(b[0] - a[0], b[1] - a[1]))

    def post_angle_from(I, env, res, chk):
        G.use(I.eng, "atan2")
        a, b = co(env.vars["_a"]), co(env.vars["_b"])
        azimuth_checks(chk, rz(res), [y - x for x, y in zip(a, b)])

    def setup_angle_from(I, env):
        eng = I.eng
        a, b = input_vector(eng, "X", I), input_vector(eng, "Y", I)
        which = eng.choose(3, "given")
        ego = make_ego(I) if which else None
        if which == 0:
            env.vars.update(X=a, Y=b, _a=a, _b=b)
        elif which == 1:
            env.vars.update(X=None, Y=b, _a=ego.fields["position"], _b=b)
        else:
            env.vars.update(X=a, Y=None, _a=a, _b=ego.fields["position"])

    def replay_from(fname, oracle):
        def replay(inputs, clause):
            import scenic.syntax.veneer as ven
            from scenic.core.vectors import Vector

            for a, b in ((_f3(inputs, "X", [1, 2, 3]), _f3(inputs, "Y", [4, 6, 8])), ([1.0, 2.0, 3.0], [-2.0, 6.0, 4.0]), ([0.0, 0.0, 0.0], [-1.0, 0.0, 1.0])):
                if _close(a[0], b[0]) and _close(a[1], b[1]):
                    continue
                r = getattr(ven, fname)(Vector(*a), Vector(*b))
                if not _angle_close(r, oracle(a, b)):
                    return f"{fname}({a}, {b}) = {r}, expected {oracle(a, b)}"
                r2 = _with_ego(_real_object(a, (0.3, 0, 0)), lambda: getattr(ven, fname)(None, Vector(*b)))
                if not _angle_close(r2, oracle(a, b)):
                    return f"{fname}(ego at {a}, {b}) = {r2}, expected {oracle(a, b)}"
            return None

        return replay

    _simple(reg, f"{VEN}:AngleFrom", setup_angle_from, post_angle_from, replay_from("AngleFrom", az_f))

    def setup_angle_to(I, env):
        ego = make_ego(I)
        b = input_vector(I.eng, "X", I)
        env.vars.update(X=b, _a=ego.fields["position"], _b=b)

    _simple(reg, f"{VEN}:AngleTo", setup_angle_to, post_angle_from, replay_two("AngleTo", az_f, angle=True))

    def post_altitude_from(I, env, res, chk):
        G.use(I.eng, "atan2")
        a, b = co(env.vars["_a"]), co(env.vars["_b"])
        d = [y - x for x, y in zip(a, b)]
        altitude_checks(chk, rz(res), d, G.hyp_term(I.eng, [d[0], d[1]]))

    _simple(reg, f"{VEN}:AltitudeFrom", setup_angle_from, post_altitude_from, replay_from("AltitudeFrom", alt_f))
    _simple(reg, f"{VEN}:AltitudeTo", setup_angle_to, post_altitude_from, replay_two("AltitudeTo", alt_f, angle=True))


def azimuth_checks(check, r, d, prefix=""):
    """r = azimuth of the direction d (angle from +Y, counter-clockwise positive, normalised to [-pi, pi])"""
    dx, dy = d[0], d[1]
    check(prefix + "in_range", z3.And(-PI <= r, r <= PI))
    check(prefix + "is_angle_from_plus_y_ccw", is_turns(r - (ATAN2(dy, dx) - HALF_PI)))
    check(prefix + "plus_y_is_zero", z3.Implies(z3.And(dx == 0, dy > 0), r == 0))
    check(prefix + "minus_x_is_plus_quarter_turn", z3.Implies(z3.And(dx < 0, dy == 0), r == HALF_PI))
    check(prefix + "plus_x_is_minus_quarter_turn", z3.Implies(z3.And(dx > 0, dy == 0), r == -HALF_PI))
    check(prefix + "minus_y_is_half_turn", z3.Implies(z3.And(dx == 0, dy < 0), z3.Or(r == PI, r == -PI)))
    check(prefix + "left_half_plane_is_positive", z3.Implies(dx < 0, z3.And(r > 0, r < PI)))


def altitude_checks(check, r, d, hyp, prefix=""):
    check(prefix + "in_range", z3.And(-HALF_PI <= r, r <= HALF_PI))
    check(prefix + "is_elevation_above_the_xy_plane", r == ATAN2(d[2], hyp))
    check(prefix + "sign_follows_dz", z3.And(z3.Implies(d[2] > 0, r > 0), z3.Implies(d[2] < 0, r < 0), z3.Implies(z3.And(d[2] == 0, z3.Or(d[0] != 0, d[1] != 0)), r == 0)))
    check(prefix + "straight_up_is_quarter_turn", z3.Implies(z3.And(d[0] == 0, d[1] == 0, d[2] > 0), r == HALF_PI))


# =================================================================================================
# 5. local frames of oriented points and objects; planar angle helpers; Orientation algebra

SIDES = {
    "left": (-1, 0, 0), "right": (1, 0, 0), "front": (0, 1, 0), "back": (0, -1, 0), "top": (0, 0, 1), "bottom": (0, 0, -1),
    "frontLeft": (-1, 1, 0), "frontRight": (1, 1, 0), "backLeft": (-1, -1, 0), "backRight": (1, -1, 0),
    "topFrontLeft": (-1, 1, 1), "topFrontRight": (1, 1, 1), "topBackLeft": (-1, -1, 1), "topBackRight": (1, -1, 1),
    "bottomFrontLeft": (-1, 1, -1), "bottomFrontRight": (1, 1, -1), "bottomBackLeft": (-1, -1, -1), "bottomBackRight": (1, -1, -1),
}  # fmt: skip


def register_local_frames(reg):
    install_veneer_stubs(reg)

    def half_dims(o):
        return tuple(rz(o.fields[d]) / 2 for d in ("width", "length", "height"))

    def obj_setup(I, env):
        env.vars.update(self=make_point(I, "self", "Object"))

    def real_obj(inputs, e):
        dims = {d: _clamp(abs(float(inputs.get(f"self.{d}", 2.0))) or 1.0, 0.05, 50) for d in ("width", "length", "height")}
        return _real_object(_f3(inputs, "self.position", [1, 2, 3]), e, **dims), dims

    # ---------------------------------------------------------------- front / back / left / ... of Object
    def make_side(prop, signs):
        def post(I, env, res, chk):
            o = env.vars["self"]
            P, R, hd = co(o.fields["position"]), rot(o.fields["orientation"]), half_dims(o)
            chk("is_an_oriented_point", class_name(res) == "OrientedPoint")
            if class_name(res) != "OrientedPoint":
                return
            off = [s * h for s, h in zip(signs, hd)]
            chk("is_the_midpoint_of_that_side_edge_or_corner_of_the_bounding_box", eq3(co(res.fields["position"]), [a + b for a, b in zip(P, apply3(R, off))]))
            chk("inherits_the_orientation_of_the_object", rot(res.fields["orientation"]).eq(R))

        def replay(inputs, clause):
            import numpy as np

            for e in ROTATION_CATALOGUE:
                o, dims = real_obj(inputs, e)
                r = getattr(o, prop)
                off = np.array([s * dims[d] / 2 for s, d in zip(signs, ("width", "length", "height"))])
                want = np.array(list(o.position)) + o.orientation.getRotation().apply(off)
                if not all(_close(a, b) for a, b in zip(r.position, want)) or not r.orientation.approxEq(o.orientation):
                    return f"{prop} of an object at {o.position} facing {e} with dimensions {dims}: position {r.position} orientation {r.orientation}, expected position {list(want)} and the object's orientation"
            return None

        _simple(reg, f"{OT}:Object.{prop}", obj_setup, post, replay)

    for prop, signs in SIDES.items():
        make_side(prop, signs)

    # ---------------------------------------------------------------- corners
    def post_corners(I, env, res, chk):
        import itertools

        o = env.vars["self"]
        P, R, hd = co(o.fields["position"]), rot(o.fields["orientation"]), half_dims(o)
        items = list(I.iterate(res))
        chk("eight_corners", len(items) == 8 and all(is_vector(c) for c in items))
        for signs in itertools.product((1, -1), repeat=3):
            want = [a + b for a, b in zip(P, apply3(R, [s * h for s, h in zip(signs, hd)]))]
            nm = "".join("p" if s > 0 else "m" for s in signs)
            chk(f"corner_{nm}_of_the_bounding_box_is_listed", z3.Or(*[eq3(co(c), want) for c in items if is_vector(c)]))

    def replay_corners(inputs, clause):
        import itertools

        import numpy as np

        for e in ROTATION_CATALOGUE:
            o, dims = real_obj(inputs, e)
            cs = [np.array(list(c)) for c in o.corners]
            if len(cs) != 8:
                return f"{len(cs)} corners"
            for signs in itertools.product((1, -1), repeat=3):
                off = np.array([s * dims[d] / 2 for s, d in zip(signs, ("width", "length", "height"))])
                want = np.array(list(o.position)) + o.orientation.getRotation().apply(off)
                if not any(np.allclose(c, want, atol=1e-6) for c in cs):
                    return f"object at {o.position} facing {e} with dimensions {dims}: bounding-box corner {list(want)} is not among corners {[list(c) for c in cs]}"
        return None

    _simple(reg, f"{OT}:Object.corners", obj_setup, post_corners, replay_corners)

    # ---------------------------------------------------------------- OrientedPoint.relativePosition / relativize / distancePast
    def op_setup(with_heading=False):
        def setup(I, env):
            o = make_point(I, "self", "OrientedPoint")
            if with_heading:
                o.fields["heading"] = input_real(I.eng, "self.heading")
            env.vars.update(self=o, vec=input_vector(I.eng, "vec", I))

        return setup

    def post_relpos(I, env, res, chk):
        o = env.vars["self"]
        chk("is_the_vector_expressed_in_the_local_frame", is_vector(res) and eq3(co(res), [a + b for a, b in zip(co(o.fields["position"]), apply3(rot(o.fields["orientation"]), co(env.vars["vec"])))]))

    def post_relativize(I, env, res, chk):
        o = env.vars["self"]
        chk("is_an_oriented_point", class_name(res) == "OrientedPoint")
        if class_name(res) == "OrientedPoint":
            chk("at_the_vector_expressed_in_the_local_frame", eq3(co(res.fields["position"]), [a + b for a, b in zip(co(o.fields["position"]), apply3(rot(o.fields["orientation"]), co(env.vars["vec"])))]))
            chk("inherits_the_orientation", rot(res.fields["orientation"]).eq(rot(o.fields["orientation"])))

    def replay_rel(method):
        def replay(inputs, clause):
            import numpy as np
            from scenic.core.vectors import Vector

            v = _f3(inputs, "vec", [1, 2, 3])
            for v in (v, [1.0, 2.0, 3.0]):
                for e in ROTATION_CATALOGUE:
                    op = _real_oriented_point(_f3(inputs, "self.position", [4, 5, 6]), e)
                    r = getattr(op, method)(Vector(*v))
                    want = np.array(list(op.position)) + op.orientation.getRotation().apply(np.array(v))
                    got = r if method == "relativePosition" else r.position
                    if not all(_close(a, b) for a, b in zip(got, want)):
                        return f"oriented point at {op.position} facing {e}: {method}({v}) = {got}, expected {list(want)}"
                    if method == "relativize" and not r.orientation.approxEq(op.orientation):
                        return f"oriented point facing {e}: relativize({v}) has orientation {r.orientation}"
            return None

        return replay

    _simple(reg, f"{OT}:OrientedPoint.relativePosition", op_setup(), post_relpos, replay_rel("relativePosition"))
    _simple(reg, f"{OT}:OrientedPoint.relativize", op_setup(), post_relativize, replay_rel("relativize"))

    def post_distance_past(I, env, res, chk):
        G.use(I.eng, "trig")
        o = env.vars["self"]
        h = rz(o.fields["heading"])
        d = [a - b for a, b in zip(co(o.fields["position"]), co(env.vars["vec"]))]
        # component of (position - vec) along the heading direction (-sin h, cos h)
        chk("is_the_progress_along_the_heading_direction", rz(res) == -SIN(h) * d[0] + COS(h) * d[1])

    def replay_distance_past(inputs, clause):
        from scenic.core.vectors import Vector

        for P, v, h in ((_f3(inputs, "self.position", [4, 5, 6]), _f3(inputs, "vec", [1, 2, 3]), float(inputs.get("self.heading", 0.6))), ([4.0, 5.0, 6.0], [1.0, 2.0, 3.0], 0.6)):
            op = _real_oriented_point(P, (h, 0, 0))
            r = op.distancePast(Vector(*v))
            want = -math.sin(h) * (P[0] - v[0]) + math.cos(h) * (P[1] - v[1])
            if not _close(r, want):
                return f"oriented point at {P} heading {h}: distancePast({v}) = {r}, expected {want}"
        return None

    _simple(reg, f"{OT}:OrientedPoint.distancePast", op_setup(with_heading=True), post_distance_past, replay_distance_past)

    # ---------------------------------------------------------------- planar angle helpers of scenic.core.geometry
    def planar_setup(names):
        def setup(I, env):
            for n in names:
                if n == "heading":
                    env.vars[n] = input_real(I.eng, n)
                else:
                    v = input_vector(I.eng, n, I)
                    env.vars[n] = tuple(v.fields["coordinates"])  # these helpers take plain coordinate sequences
                    env.vars["_" + n] = v

        return setup

    def post_heading_of_segment(I, env, res, chk):
        G.use(I.eng, "atan2")
        a, b = co(env.vars["_pointA"]), co(env.vars["_pointB"])
        azimuth_checks(chk, rz(res), [y - x for x, y in zip(a, b)])

    def replay_hos(inputs, clause):
        from scenic.core.geometry import headingOfSegment

        for a, b in ((_f3(inputs, "pointA", [0, 0, 0]), _f3(inputs, "pointB", [1, 1, 0])), ([0.0, 0.0, 0.0], [-1.0, 0.0, 0.0]), ([1.0, 1.0, 0.0], [1.0, 5.0, 0.0])):
            if _close(a[0], b[0]) and _close(a[1], b[1]):
                continue
            r = headingOfSegment(a, b)
            want = math.atan2(b[1] - a[1], b[0] - a[0]) - math.pi / 2
            if not (-math.pi <= r <= math.pi) or not _angle_close(r, want):
                return f"headingOfSegment({a}, {b}) = {r}, expected {want} (mod tau)"
        return None

    _simple(reg, f"{GEO}:headingOfSegment", planar_setup(["pointA", "pointB"]), post_heading_of_segment, replay_hos)

    def post_view_angle(I, env, res, chk):
        G.use(I.eng, "atan2")
        p, b, h, r = co(env.vars["_point"]), co(env.vars["_base"]), rz(env.vars["heading"]), rz(res)
        az = ATAN2(p[1] - b[1], p[0] - b[0]) - HALF_PI
        chk("in_range", z3.And(-PI <= r, r <= PI))
        chk("is_the_azimuth_of_the_point_relative_to_the_heading", is_turns(r - (az - h)))
        chk("point_straight_ahead_is_zero", z3.Implies(z3.And(h == 0, p[0] == b[0], p[1] > b[1]), r == 0))
        chk("point_to_the_left_is_positive", z3.Implies(z3.And(h == 0, p[0] < b[0], p[1] == b[1]), r == HALF_PI))

    def replay_view_angle(inputs, clause):
        from scenic.core.geometry import viewAngleToPoint

        for p, b, h in ((_f3(inputs, "point", [0, 1, 0]), _f3(inputs, "base", [0, 0, 0]), float(inputs.get("heading", 0.0))), ([-1.0, 0.0, 0.0], [0.0, 0.0, 0.0], 0.0), ([3.0, 4.0, 0.0], [1.0, 1.0, 0.0], 2.0)):
            if _close(p[0], b[0]) and _close(p[1], b[1]):
                continue
            r = viewAngleToPoint(p, b, h)
            want = math.atan2(p[1] - b[1], p[0] - b[0]) - math.pi / 2 - h
            if not (-math.pi <= r <= math.pi) or not _angle_close(r, want):
                return f"viewAngleToPoint({p}, {b}, {h}) = {r}, expected {want} (mod tau)"
        return None

    _simple(reg, f"{GEO}:viewAngleToPoint", planar_setup(["point", "base", "heading"]), post_view_angle, replay_view_angle)

    def post_apparent_heading_at(I, env, res, chk):
        G.use(I.eng, "atan2")
        p, b, h, r = co(env.vars["_point"]), co(env.vars["_base"]), rz(env.vars["heading"]), rz(res)
        az = ATAN2(p[1] - b[1], p[0] - b[0]) - HALF_PI
        chk("in_range", z3.And(-PI <= r, r <= PI))
        chk("is_the_heading_relative_to_the_line_of_sight_from_base", is_turns(r - (h - az)))

    def replay_apparent_heading_at(inputs, clause):
        from scenic.core.geometry import apparentHeadingAtPoint

        for p, b, h in ((_f3(inputs, "point", [0, 1, 0]), _f3(inputs, "base", [0, 0, 0]), float(inputs.get("heading", 0.0))), ([3.0, 4.0, 0.0], [1.0, 1.0, 0.0], 2.0)):
            if _close(p[0], b[0]) and _close(p[1], b[1]):
                continue
            r = apparentHeadingAtPoint(p, h, b)
            want = h - (math.atan2(p[1] - b[1], p[0] - b[0]) - math.pi / 2)
            if not (-math.pi <= r <= math.pi) or not _angle_close(r, want):
                return f"apparentHeadingAtPoint({p}, {h}, {b}) = {r}, expected {want} (mod tau)"
        return None

    _simple(reg, f"{GEO}:apparentHeadingAtPoint", planar_setup(["point", "heading", "base"]), post_apparent_heading_at, replay_apparent_heading_at)


def register_orientation_algebra(reg):
    install_veneer_stubs(reg)
    OR = f"{V}:Orientation"

    def two(I, env, names=("self", "other")):
        for n in names:
            t = OrientationT()
            o = t.fresh(I.eng, n, I)
            I.eng.input_syms.append((n, t, o))
            env.vars[n] = o

    def real_pairs():
        from scenic.core.vectors import Orientation

        for a in ROTATION_CATALOGUE:
            for b in ROTATION_CATALOGUE[1:]:
                yield Orientation.fromEuler(*a), Orientation.fromEuler(*b)

    def post_mul(I, env, res, chk):
        chk("is_the_composition_self_then_other_in_the_frame_of_self", is_orientation(res) and rot(res) == MUL(rot(env.vars["self"]), rot(env.vars["other"])))

    def replay_mul(inputs, clause):
        from scenic.core.vectors import Orientation

        for a, b in real_pairs():
            r = a * b
            if not r.approxEq(Orientation(a.getRotation() * b.getRotation())):
                return f"{a} * {b} = {r}"
        return None

    _simple(reg, f"{OR}.__mul__", lambda I, env: two(I, env), post_mul, replay_mul)

    def post_mul_other(I, env, res, chk):
        chk("only_orientations_compose", res is NotImplemented)

    _simple(reg, f"{OR}.__mul__", lambda I, env: (two(I, env, ("self",)), env.vars.update(other=input_real(I.eng, "other"))), post_mul_other, lambda inputs, clause: None, key="[non-orientation]")

    def post_inverse(I, env, res, chk):
        R = rot(env.vars["self"])
        chk("is_the_inverse_rotation", is_orientation(res) and rot(res) == INV(R))
        chk("composes_to_the_identity", is_orientation(res) and z3.And(MUL(R, rot(res)) == IDENT, MUL(rot(res), R) == IDENT))

    def replay_inverse(inputs, clause):
        from scenic.core.vectors import Orientation

        for a, _ in real_pairs():
            if not (a * a.inverse).approxEq(Orientation.fromEuler(0, 0, 0)):
                return f"{a} * inverse = {a * a.inverse}"
        return None

    _simple(reg, f"{OR}.inverse", lambda I, env: two(I, env, ("self",)), post_inverse, replay_inverse)

    def post_euler(I, env, res, chk):
        R = rot(env.vars["self"])
        e = co(res)
        chk("three_angles", len(e) == 3)
        chk("from_euler_of_the_angles_is_the_orientation", EULER(*e) == R)

    def replay_euler(inputs, clause):
        from scenic.core.vectors import Orientation

        for a, _ in real_pairs():
            if not Orientation.fromEuler(*a.eulerAngles).approxEq(a):
                return f"fromEuler(eulerAngles({a})) = {Orientation.fromEuler(*a.eulerAngles)}"
        return None

    _simple(reg, f"{OR}.eulerAngles", lambda I, env: two(I, env, ("self",)), post_euler, replay_euler)

    def post_local_angles(I, env, res, chk):
        e = co(res)
        chk("self_composed_with_the_local_angles_is_the_given_orientation", MUL(rot(env.vars["self"]), EULER(*e)) == rot(env.vars["orientation"]))

    def replay_local_angles(inputs, clause):
        from scenic.core.vectors import Orientation

        for a, b in real_pairs():
            e = a.localAnglesFor(b)
            if not (a * Orientation.fromEuler(*e)).approxEq(b):
                return f"{a}.localAnglesFor({b}) = {e}: parent * fromEuler(angles) = {a * Orientation.fromEuler(*e)}"
        return None

    _simple(reg, f"{OR}.localAnglesFor", lambda I, env: two(I, env, ("self", "orientation")), post_local_angles, replay_local_angles)

    def setup_g2l(I, env):
        two(I, env, ("self",))
        for n in ("yaw", "pitch", "roll"):
            env.vars[n] = input_real(I.eng, n)

    def post_g2l(I, env, res, chk):
        e = co(res)
        chk("self_composed_with_the_local_angles_is_the_global_orientation", MUL(rot(env.vars["self"]), EULER(*e)) == EULER(*[rz(env.vars[n]) for n in ("yaw", "pitch", "roll")]))

    def replay_g2l(inputs, clause):
        from scenic.core.vectors import Orientation

        g = [float(inputs.get(n, d)) for n, d in (("yaw", 0.5), ("pitch", 0.2), ("roll", -0.4))]
        for a, _ in real_pairs():
            e = a.globalToLocalAngles(*g)
            if not (a * Orientation.fromEuler(*e)).approxEq(Orientation.fromEuler(*g)):
                return f"{a}.globalToLocalAngles{tuple(g)} = {e}"
        return None

    _simple(reg, f"{OR}.globalToLocalAngles", setup_g2l, post_g2l, replay_g2l)

    # ---------------------------------------------------------------- coercions: a heading is a yaw about +Z
    COERCE = ["heading", "orientation", "tuple", "vector", "orientedpoint"]

    def setup_coerce(I, env):
        eng = I.eng
        k = COERCE[eng.choose(len(COERCE), "kind")]
        if k == "heading":
            h = input_real(eng, "thing")
            thing, want = h, EULER(rz(h), 0, 0)
        elif k == "orientation":
            two(I, env, ("thing",))
            thing = env.vars["thing"]
            want = rot(thing)
        elif k in ("tuple", "vector"):
            v = input_vector(eng, "thing", I)
            thing = v if k == "vector" else tuple(v.fields["coordinates"])
            want = EULER(*co(v))
        else:
            thing = make_point(I, "thing", "OrientedPoint")
            want = rot(thing.fields["orientation"])
        env.vars.update(thing=thing, _want=want)
        eng.input_syms.append(("case", C.Const(None), k))

    def post_coerce(I, env, res, chk):
        chk("heading_is_yaw_about_z_and_triples_are_yaw_pitch_roll", is_orientation(res) and rot(res) == env.vars["_want"])

    def replay_coerce(inputs, clause):
        from scenic.core.vectors import Orientation, Vector

        k = inputs.get("case", "heading")
        t = inputs.get("thing", 0.5)
        if k == "heading":
            r, want = Orientation._coerce(float(t)), Orientation.fromEuler(float(t), 0, 0)
        elif k in ("tuple", "vector"):
            e = [float(c) for c in (t if isinstance(t, (list, tuple)) else [0.5, 0.2, -0.4])]
            r, want = Orientation._coerce(tuple(e) if k == "tuple" else Vector(*e)), Orientation.fromEuler(*e)
        else:
            return None
        if not r.approxEq(want):
            return f"Orientation._coerce({t}) = {r}, expected {want}"
        return None

    _simple(reg, f"{OR}._coerce", setup_coerce, post_coerce, replay_coerce)

    def setup_add(I, env):
        two(I, env, ("self",))
        env.vars["other"] = input_real(I.eng, "other")

    def post_add(I, env, res, chk):
        chk("adding_a_heading_turns_about_the_local_z_axis", is_orientation(res) and rot(res) == MUL(rot(env.vars["self"]), EULER(rz(env.vars["other"]), 0, 0)))

    def post_radd(I, env, res, chk):
        chk("heading_plus_orientation_applies_the_orientation_in_the_turned_frame", is_orientation(res) and rot(res) == MUL(EULER(rz(env.vars["other"]), 0, 0), rot(env.vars["self"])))

    def replay_add(right):
        def replay(inputs, clause):
            from scenic.core.vectors import Orientation

            h = float(inputs.get("other", 0.5)) or 0.5
            for a, _ in real_pairs():
                r = (h + a) if right else (a + h)
                H = Orientation.fromEuler(h, 0, 0)
                want = Orientation((H.getRotation() * a.getRotation()) if right else (a.getRotation() * H.getRotation()))
                if not r.approxEq(want):
                    return f"{'%r + %s' % (h, a) if right else '%s + %r' % (a, h)} = {r}, expected {want}"
            return None

        return replay

    _simple(reg, f"{OR}.__add__", setup_add, post_add, replay_add(False))
    _simple(reg, f"{OR}.__radd__", setup_add, post_radd, replay_add(True))


# =================================================================================================
# 6. vector fields: following / follow / relative to <field>;  on <surface>;  default heading of an oriented point

FIELD = z3.Function("field.orientation_at", G.RS, G.RS, G.RS, G.ROT)  # an arbitrary orientation-valued vector field


def make_field(I, name="field", fn=None, **fields):
    """A VectorField (real class) whose value function is the abstract field `fn` (default FIELD)."""
    fn = FIELD if fn is None else fn
    f = PObj(repo_class(f"{V}:VectorField"), tag=name)
    f.asked = []

    def value(pos):
        f.asked.append(pos)
        return make_orientation(I, fn(*[z3.simplify(c) for c in co(pos)]))

    f.fields.update(name=name, value=BuiltinFn(f"{name}.value", value), valueType=repo_class(f"{V}:Orientation"), minSteps=4, defaultStepSize=5)
    f.fields.update(fields)
    return f


def register_fields_and_surfaces(reg):
    install_veneer_stubs(reg)

    # ---------------------------------------------------------------- VectorField.followFrom: forward Euler steps along the field
    # P(i) = point after i steps:  P(0) = start,  P(i+1) = P(i) + R(field(P(i))) * (0, h, 0),  h = dist / number of steps
    PATH = [z3.Function(f"euler_path.{c}", z3.IntSort(), G.RS) for c in "xyz"]
    HOLD = {}

    def path_axiom(eng, h):
        i = z3.Int("i!path")
        p = [f(i) for f in PATH]
        nxt = [a + b for a, b in zip(p, apply3(FIELD(*p), (z3.RealVal(0), h, z3.RealVal(0))))]
        eng.add_axiom("S-followFrom.euler_path_step (definition of the specification function P(i))", z3.ForAll([i], z3.Implies(i >= 0, z3.And(*[f(i + 1) == n for f, n in zip(PATH, nxt)])), patterns=[PATH[0](i + 1), PATH[1](i + 1), PATH[2](i + 1)]))

    def inv_on_path(ctx):
        eng = ctx.eng
        pos, i = ctx["pos"], ctx["_i"]
        step = co(ctx["step"])
        if "h" not in HOLD:
            HOLD["h"] = step[1]
            path_axiom(eng, step[1])
        iz = rz(i) if not isinstance(i, int) else z3.IntVal(i)
        iz = z3.ToInt(iz) if z3.is_real(iz) else iz
        # the step equation of the specification function at this index (an instance of its definition)
        prev = [f(iz - 1) for f in PATH]
        eng.assume(z3.Implies(iz >= 1, z3.And(*[f(iz) == a + b for f, a, b in zip(PATH, prev, apply3(FIELD(*prev), (z3.RealVal(0), step[1], z3.RealVal(0))))])))
        return SV(z3.And(step[0] == 0, step[2] == 0, *[c == f(iz) for c, f in zip(co(pos), PATH)]))

    def setup_follow(I, env):
        eng = I.eng
        HOLD.clear()
        G.use(eng, *ROT_AXIOMS)
        start = input_vector(eng, "pos", I)
        eng.assume(z3.And(*[f(0) == c for f, c in zip(PATH, co(start))]))
        dist = input_real(eng, "dist")
        eng.assume(rz(dist) > 0)
        minSteps = eng.fresh_int("minSteps")
        eng.assume(compare(">=", minSteps, 1))
        eng.input_syms.append(("minSteps", C.Int(), minSteps))
        mode = ["default step size", "given step size", "given steps"][eng.choose(3, "arguments")]
        field = make_field(I, minSteps=minSteps, defaultStepSize=5)
        steps = stepSize = None
        size = 5
        if mode == "given step size":
            size = stepSize = [0.5, 2][eng.choose(2, "stepSize")]
        if mode == "given steps":
            steps = eng.fresh_int("steps")
            eng.assume(compare(">=", steps, 1))
            eng.input_syms.append(("steps", C.Int(), steps))
        env.vars.update(self=field, pos=start, dist=dist, steps=steps, stepSize=stepSize, _mode=mode, _size=size, _min=minSteps)
        eng.input_syms.append(("case", C.Const(None), f"{mode}/{size}"))

    def post_follow(I, env, outcome):
        eng = I.eng
        if outcome[0] != "return":
            return
        name = "vectors.VectorField.followFrom"
        chk = lambda clause, goal: eng.check(f"{name}#ensures.{clause}", goal)
        res, mode, dist = outcome[1], env.vars["_mode"], rz(env.vars["dist"])
        n = env.vars["_n_final"] if "_n_final" in env.vars else None
        fr = HOLD.get("n")
        chk("returns_a_vector", is_vector(res))
        if fr is None or not is_vector(res):
            chk("takes_at_least_one_step", False)
            return
        n = tonum_int(fr)
        if mode == "given steps":
            chk("takes_the_requested_number_of_steps", n == tonum_int(env.vars["steps"]))
        else:
            size, m = z3.RealVal(str(env.vars["_size"])), tonum_int(env.vars["_min"])
            chk("takes_at_least_minSteps_steps", n >= m)
            chk("no_step_is_longer_than_the_step_size", z3.ToReal(n) * size >= dist)
            chk("takes_no_more_steps_than_needed", z3.Or(n == m, z3.ToReal(n - 1) * size < dist))
        chk("steps_are_equal_and_add_up_to_the_distance", HOLD["h"] * z3.ToReal(n) == dist)
        chk("end_point_is_the_forward_euler_path_after_n_steps", eq3(co(res), [f(n) for f in PATH]))

    def tonum_int(v):
        e = toz3(v) if not isinstance(v, z3.ExprRef) else v
        return z3.ToInt(e) if z3.is_real(e) else e

    def loop_exit_hook(ctx):
        """invariant evaluated at every cut point: remembers the symbolic number of steps of the loop"""
        HOLD["n"] = ctx["steps"]
        return True

    reg.add(
        C.Contract(
            f"{V}:VectorField.followFrom",
            params={},
            setup=lambda I, env: (WORLD.clear(), setup_follow(I, env))[1],
            post=post_follow,
            inline_all=True,
            loops={1: dict(invariants={"position_is_on_the_euler_path": inv_on_path, "_steps": loop_exit_hook}, modifies={"pos": VectorT(), "rot": None})},
            replay=replay_follow_from,
            properties=("C07",),
        )
    )

    # ---------------------------------------------------------------- following F [from X] for D  /  follow F from X for D
    def setup_following(which):
        def setup(I, env):
            eng = I.eng
            WORLD.clear()
            field = make_field(I)
            end = VectorT().fresh(eng, "end_point", I)
            calls = []
            field.fields["followFrom"] = BuiltinFn("followFrom", lambda pos, dist, **kw: (calls.append((pos, dist, kw)), end)[1])
            dist = input_real(eng, "dist")
            if which == "Following" and eng.choose(2, "from?") == 1:
                ego = make_ego(I)
                start, fromPt = ego.fields["position"], None
            else:
                start = fromPt = input_vector(eng, "from", I)
            if which == "Following":
                env.vars.update(field=field, dist=dist, fromPt=fromPt)
            else:
                env.vars.update(F=field, X=fromPt, D=dist)
            env.vars.update(_field=field, _end=end, _calls=calls, _start=start, _dist=dist)

        return setup

    def post_following(which):
        def post(I, env, res, chk):
            field, end, calls = env.vars["_field"], env.vars["_end"], env.vars["_calls"]
            chk("follows_the_field_once_from_the_start_point_for_the_distance", len(calls) == 1 and calls[0][0] is env.vars["_start"] and calls[0][1] is env.vars["_dist"] and not calls[0][2])
            want_rot = FIELD(*[z3.simplify(c) for c in co(end)])
            if which == "Following":
                chk("specifies_position_1_and_parentOrientation_3", priorities_are(res.fields["priorities"], dict(position=1, parentOrientation=3)))
                vals = res.fields["value"]
                pos, ori = pd(vals, "position"), pd(vals, "parentOrientation")
            else:
                chk("is_an_oriented_point", class_name(res) == "OrientedPoint")
                pos, ori = res.fields.get("position"), res.fields.get("orientation")
            chk("position_is_the_end_point_of_the_path", pos is end)
            chk("orientation_is_the_field_at_the_end_point", is_orientation(ori) and rot(ori) == want_rot)

        return post

    def replay_following(which):
        def replay(inputs, clause):
            import numpy as np

            import scenic.syntax.veneer as ven
            from scenic.core.vectors import Orientation, Vector, VectorField

            vf = VectorField("f", lambda pos: Orientation.fromEuler(0.3 * pos[0], 0.1 * pos[1], 0.0))
            start, d = _f3(inputs, "from", inputs.get("ego.position", [1, 2, 0])), _clamp(inputs.get("dist", 7.0), 0.1, 50)
            want = vf.followFrom(Vector(*start), d)
            if which == "Following":
                val = _with_ego(None, lambda: ven.Following(vf, d, Vector(*start))).value
                pos, ori = val["position"], val["parentOrientation"]
            else:
                r = ven.Follow(vf, Vector(*start), d)
                pos, ori = r.position, r.orientation
            if not all(_close(a, b) for a, b in zip(pos, want)) or not ori.approxEq(vf[want]):
                return f"{which} from {start} for {d}: position {pos} orientation {ori}, expected {want} and the field orientation there {vf[want]}"
            return None

        return replay

    _simple(reg, f"{VEN}:Following", setup_following("Following"), post_following("Following"), replay_following("Following"))
    _simple(reg, f"{VEN}:Follow", setup_following("Follow"), post_following("Follow"), replay_following("Follow"))

    # ---------------------------------------------------------------- X relative to Y with vector fields
    FIELD2 = z3.Function("field2.orientation_at", G.RS, G.RS, G.RS, G.ROT)
    FCASES = ["field/field", "field/heading", "heading/field", "field/orientation", "orientation/field"]

    def setup_rel_field(I, env):
        eng = I.eng
        case = FCASES[eng.choose(len(FCASES), "forms")]

        def mk(kind, nm, fn):
            if kind == "field":
                return make_field(I, nm, fn)
            if kind == "heading":
                return input_real(eng, nm)
            t = OrientationT()
            o = t.fresh(eng, nm, I)
            eng.input_syms.append((nm, t, o))
            return o

        kx, ky = case.split("/")
        env.vars.update(X=mk(kx, "X", FIELD), Y=mk(ky, "Y", FIELD2), _case=case, _ctx=make_context(I))
        eng.input_syms.append(("case", C.Const(None), case))

    def post_rel_field(I, env, res, chk):
        G.use(I.eng, "rot.yaw")
        ctx, X, Y = env.vars["_ctx"], env.vars["X"], env.vars["Y"]
        kx, ky = env.vars["_case"].split("/")
        chk("is_a_value_depending_on_the_position_of_the_object", isinstance(res, PObj) and res.cls == "DelayedArgument" and set(res.fields["_requiredProperties"]) == {"position"})
        if not (isinstance(res, PObj) and res.cls == "DelayedArgument"):
            return
        val = call_real(I, res.fields["value"], [ctx])
        p = [z3.simplify(c) for c in co(ctx.fields["position"])]

        def at(kind, v, fn):
            return fn(*p) if kind == "field" else EULER(rz(v), 0, 0) if kind == "heading" else rot(v)

        chk("fields_are_evaluated_at_the_position_of_the_object", all(all(a is ctx.fields["position"] or eq_vec(a, ctx.fields["position"]) for a in f.asked) and len(f.asked) >= 1 for f, k in ((X, kx), (Y, ky)) if k == "field"))
        # "the orientation obtained by starting in the second direction and then rotating according to the first"
        chk("starts_in_Y_and_rotates_according_to_X", is_orientation(val) and rot(val) == MUL(at(ky, Y, FIELD2), at(kx, X, FIELD)))

    def eq_vec(a, b):
        return is_vector(a) and is_vector(b) and all(x is y or (isinstance(x, SV) and isinstance(y, SV) and x.e.eq(y.e)) for x, y in zip(a.fields["coordinates"], b.fields["coordinates"]))

    def replay_rel_field(inputs, clause):
        import types

        import scenic.syntax.veneer as ven
        from scenic.core.lazy_eval import valueInContext
        from scenic.core.vectors import Orientation, Vector, VectorField

        kx, ky = inputs.get("case", "field/field").split("/")
        f1 = VectorField("f1", lambda pos: Orientation.fromEuler(0.3 * pos[0], 0.2, 0.1 * pos[2]))
        f2 = VectorField("f2", lambda pos: Orientation.fromEuler(0.5, 0.1 * pos[1], -0.2))
        p = Vector(*_f3(inputs, "new.position", [1, 2, 3]))
        mk = lambda k, f, nm: f if k == "field" else _clamp(inputs.get(nm, 0.4), -6, 6) if k == "heading" else Orientation.fromEuler(0.7, 0.4, -0.3)
        X, Y = mk(kx, f1, "X"), mk(ky, f2, "Y")
        from scenic.core.utils import DefaultIdentityDict

        r = valueInContext(ven.RelativeTo(X, Y), types.SimpleNamespace(position=p, _evaluated=DefaultIdentityDict()))
        at = lambda k, v: v[p] if k == "field" else Orientation.fromEuler(v, 0, 0) if k == "heading" else v
        want = Orientation(at(ky, Y).getRotation() * at(kx, X).getRotation())
        if not r.approxEq(want):
            return f"({kx}) relative to ({ky}) at {p}: {r}, expected {want}"
        return None

    _simple(reg, f"{VEN}:RelativeTo", setup_rel_field, post_rel_field, replay_rel_field, key="[fields]")

    # ---------------------------------------------------------------- on <region | object | vector>
    ONCASES = ["region", "oriented region", "object", "vector"]

    def setup_on(I, env):
        eng = I.eng
        case = ONCASES[eng.choose(len(ONCASES), "target")]
        modifying = case != "vector" and eng.choose(2, "modifying") == 1
        projected = VectorT().fresh(eng, "projected", I)
        sampled = VectorT().fresh(eng, "point_in_region", I)
        WORLD.update(sampled=sampled)
        calls = []
        if case == "vector":
            thing = region = input_vector(eng, "target", I)
        else:
            region = PObj(repo_class("scenic.core.regions:Region"), tag="region")
            miss = eng.choose(2, "projection misses") == 1 if modifying else False
            region.fields.update(
                orientation=make_field(I, "preferred") if case == "oriented region" else None,
                projectVector=BuiltinFn("projectVector", lambda pos, onDirection=None: (calls.append((pos, onDirection)), None if miss else projected)[1]),
                _needsSampling=False, _needsLazyEval=False, _isLazy=False,
            )  # fmt: skip
            thing = region
            if case == "object":
                thing = make_point(I, "X", "Object")
                thing.fields["onSurface"] = region
        ctx = PObj(repo_class(f"{OT}:Object"), tag="new")
        ct = input_real(eng, "new.contactTolerance", lo=0)
        ctx.fields.update(contactTolerance=ct, baseOffset=input_vector(eng, "new.baseOffset", I), onDirection=input_vector(eng, "new.onDirection", I))
        if modifying:
            ctx.fields["position"] = input_vector(eng, "new.position", I)
        env.vars.update(thing=thing, _case=case, _mod=modifying, _region=region, _ctx=ctx, _calls=calls, _projected=projected, _sampled=sampled)
        eng.input_syms.append(("case", C.Const(None), f"{case}/{'modifying' if modifying else 'specifying'}"))

    def post_on(I, env, outcome):
        eng = I.eng
        name = "veneer.On"
        chk = lambda clause, goal: eng.check(f"{name}#ensures.{clause}", goal)
        if outcome[0] != "return":
            return
        spec, case, mod, region, ctx = outcome[1], env.vars["_case"], env.vars["_mod"], env.vars["_region"], env.vars["_ctx"]
        chk("is_a_modifying_specifier_for_position", class_name(spec) == "ModifyingSpecifier" and set(I.iterate(spec.fields["modifiable_props"])) == {"position"})
        chk("priorities_position_1_and_parentOrientation_2_iff_the_region_has_a_preferred_orientation", priorities_are(spec.fields["priorities"], dict(position=1, parentOrientation=2) if case == "oriented region" else dict(position=1)))
        chk("depends_on_onDirection_baseOffset_contactTolerance", set(spec.fields["requiredProperties"]) == {"onDirection", "baseOffset", "contactTolerance"})
        try:
            vals = spec_value(I, spec, ctx)
        except Exception as e:
            from pyvc.interp import SymRaise

            if isinstance(e, SymRaise):
                nm = getattr(e.exc.cls, "name", getattr(e.exc.cls, "__name__", ""))
                calls = env.vars["_calls"]
                chk("rejects_only_when_the_projection_misses_the_surface", nm == "RejectionException" and mod and len(calls) == 1)
                return
            raise
        calls = env.vars["_calls"]
        if mod:
            chk("projects_the_current_position_along_onDirection", len(calls) == 1 and calls[0][0] is ctx.fields["position"] and calls[0][1] is ctx.fields["onDirection"])
            base = env.vars["_projected"]
        elif case == "vector":
            base = region
        else:
            base = env.vars["_sampled"]
        off = [a - b for a, b in zip((z3.RealVal(0), z3.RealVal(0), rz(ctx.fields["contactTolerance"]) / 2), co(ctx.fields["baseOffset"]))]
        if case == "oriented region":
            R = FIELD(*[z3.simplify(c) for c in co(base)])
            po = pd(vals, "parentOrientation")
            chk("parentOrientation_is_the_preferred_orientation_at_the_contact_point", is_orientation(po) and rot(po) == R)
            off = apply3(R, off)
        else:
            chk("no_parentOrientation_without_a_preferred_orientation", not vals.has("parentOrientation"))
        # the base of the object (position + baseOffset in its frame) sits half a contact tolerance above the contact point
        chk("base_of_the_object_is_half_a_contact_tolerance_above_the_contact_point", eq3(co(pd(vals, "position")), [a + b for a, b in zip(co(base), off)]))

    def uniform_point_in(I, region, tag=None):
        return WORLD["sampled"]

    reg.models["scenic.core.regions:Region.uniformPointIn"] = uniform_point_in
    reg.trust("Region.uniformPointIn (geometry_ops)", "stub: an arbitrary (already sampled) point of the region; the distribution is C03's concern")
    reg.add(C.Contract(f"{VEN}:On", params={}, setup=lambda I, env: (WORLD.clear(), setup_on(I, env))[1], post=post_on, inline_all=True, replay=replay_on, raises=[C.Raises("RejectionException", mode="may")], properties=("C07",)))

    # ---------------------------------------------------------------- default orientation / heading of an OrientedPoint
    def property_default(I, prop):
        """the PropertyDefault object written in OrientedPoint._scenic_properties (real class body, evaluated by the interpreter)"""
        import ast

        from pyvc import extract
        from pyvc.interp import Env

        m = extract.get_module(OT)
        cls = m.top["OrientedPoint"]
        for node in cls.body:
            if isinstance(node, ast.Assign) and any(isinstance(t, ast.Name) and t.id == "_scenic_properties" for t in node.targets):
                for k, v in zip(node.value.keys, node.value.values):
                    if isinstance(k, ast.Constant) and k.value == prop:
                        return I.eval(v, Env(m))
        raise PyvcError(f"OrientedPoint._scenic_properties[{prop!r}] not found: contract needs updating")

    def property_default_ctor(I, cls, args, kwargs):
        o = PObj(cls)
        call_real(I, I.find_method(cls, "__init__"), [o] + list(args), kwargs)
        return o

    reg.constructors["scenic.core.specifiers:PropertyDefault"] = property_default_ctor

    def make_default_contract(prop):
        name = f"object_types.OrientedPoint.default[{prop}]"

        def setup(I, env):
            eng = I.eng
            WORLD.clear()
            ctx = make_context(I)
            for a in ("yaw", "pitch", "roll"):
                ctx.fields[a] = input_real(eng, f"new.{a}")
            Gt = MUL(rot(ctx.fields["parentOrientation"]), EULER(*[rz(ctx.fields[a]) for a in ("yaw", "pitch", "roll")]))
            if prop == "heading":
                ctx.fields["orientation"] = make_orientation(I, Gt)
            env.vars.update(self=property_default(I, prop), prop=prop, overriddenDefs=(), _ctx=ctx, _G=Gt)

        def post(I, env, outcome):
            eng = I.eng
            if outcome[0] != "return":
                return
            chk = lambda clause, goal: eng.check(f"{name}#ensures.{clause}", goal)
            spec, ctx, Gt = outcome[1], env.vars["_ctx"], env.vars["_G"]
            chk("is_a_default_with_the_lowest_priority", priorities_are(spec.fields["priorities"], {prop: -1}))
            vals = spec.fields["value"]
            v = spec_value(I, PObj("x", fields=dict(value=pd(vals, prop))), ctx)
            if prop == "orientation":
                chk("depends_on_yaw_pitch_roll_and_parentOrientation", set(pd(vals, prop).fields["_requiredProperties"]) == {"yaw", "pitch", "roll", "parentOrientation"})
                chk("orientation_is_the_parent_orientation_composed_with_the_local_euler_angles", is_orientation(v) and rot(v) == Gt)
            else:
                # heading = yaw of the orientation in the GLOBAL frame: some global pitch/roll complete it to the orientation
                h = rz(v)
                p, r = rz(ctx.fields["pitch"]), rz(ctx.fields["roll"])
                chk("heading_is_the_yaw_of_the_global_orientation", z3.Or(EULER(h, EUL[1](Gt), EUL[2](Gt)) == Gt, z3.And(rot(ctx.fields["parentOrientation"]) == IDENT, EULER(h, p, r) == Gt)))

        def replay(inputs, clause):
            from scenic.core.vectors import Orientation

            y, p, r = (_clamp(inputs.get(f"new.{a}", d), -3, 3) for a, d in (("yaw", 0.5), ("pitch", 0.2), ("roll", -0.1)))
            for pe in catalogue(clause):
                o = _real_oriented_point([1, 2, 3], pe)
                from scenic.core.object_types import OrientedPoint
                from scenic.core.vectors import Vector

                o = OrientedPoint._with(position=Vector(1, 2, 3), parentOrientation=Orientation.fromEuler(*pe), yaw=y, pitch=p, roll=r)
                want = Orientation.fromEuler(*pe) * Orientation.fromEuler(y, p, r)
                if prop == "orientation":
                    if not o.orientation.approxEq(want):
                        return f"OrientedPoint with parentOrientation {pe}, yaw/pitch/roll {(y, p, r)}: orientation {o.orientation}, expected {want}"
                    continue
                # heading must be the yaw of SOME Euler triple of the global orientation (the canonical one, or -- for a global
                # parent -- the given local angles themselves, which need not be in canonical range)
                if not any(Orientation.fromEuler(o.heading, pp, rr).approxEq(want, 1e-9) for pp, rr in ((want.pitch, want.roll), (p, r))):
                    return f"OrientedPoint with parentOrientation {pe}, yaw/pitch/roll {(y, p, r)}: heading {o.heading} is not a yaw of its global orientation {want} (yaw {want.yaw})"
            return None

        reg.add(
            C.Contract(f"scenic.core.specifiers:PropertyDefault.resolveFor", params={}, setup=setup, post=post, inline_all=True, replay=replay, properties=("C07",)),
            key=f"scenic.core.specifiers:PropertyDefault.resolveFor[OrientedPoint.{prop}]",
        )

    make_default_contract("orientation")
    make_default_contract("heading")


def replay_follow_from(inputs, clause):
    """Real VectorField.followFrom against a plain re-implementation of the documented forward-Euler construction."""
    import numpy as np

    from scenic.core.vectors import Orientation, Vector, VectorField

    mode, size = (inputs.get("case", "default step size/5").split("/") + ["5"])[:2]
    size = float(size)
    m = int(_clamp(inputs.get("minSteps", 4), 1, 12))
    fieldfn = lambda pos: Orientation.fromEuler(0.2 * pos[0] + 0.1, 0.05 * pos[1], 0.0)
    start = _f3(inputs, "pos", [1, 2, 0])
    start = [_clamp(c, -20, 20) for c in start]
    for dist in (_clamp(inputs.get("dist", 23.0), 0.1, 60), 23.0, 7.3):
        vf = VectorField("f", fieldfn, minSteps=m, defaultStepSize=5)
        if mode == "given steps":
            n = int(_clamp(inputs.get("steps", 3), 1, 30))
            got = vf.followFrom(Vector(*start), dist, steps=n)
        elif mode == "given step size":
            n = max(m, math.ceil(dist / size))
            got = vf.followFrom(Vector(*start), dist, stepSize=size)
        else:
            n = max(m, math.ceil(dist / 5))
            got = vf.followFrom(Vector(*start), dist)
        p = np.array(start, dtype=float)
        for _ in range(n):
            p = p + fieldfn(p).getRotation().apply(np.array([0, dist / n, 0]))
        if not all(_close(a, b, 1e-6) for a, b in zip(got, p)):
            return f"followFrom({start}, {dist}) with {mode} (minSteps {m}): end point {got}, forward Euler with {n} equal steps (none longer than the step size) gives {list(p)}"
    return None


def replay_on(inputs, clause):
    """`on` a horizontal plane / a vector, specifying and modifying; the base of the object must end up ct/2 above the surface."""
    from scenic.core.vectors import Vector

    case, how = (inputs.get("case", "region/specifying").split("/") + ["specifying"])[:2]
    ct = _clamp(inputs.get("new.contactTolerance", 0.02), 0, 1)
    if case == "vector":
        t = _f3(inputs, "target", [1, 2, 3])
        scene = _scenic_scene(f"ego = new Object on {_tup(t)}, with contactTolerance {ct}, with height 2, with requireVisible False\n")
        o = scene.objects[0]
        want = t[2] + ct / 2 + 1.0
        if not _close(o.position.z, want, 1e-6) or not _close(o.position.x, t[0]) or not _close(o.position.y, t[1]):
            return f"`new Object on {t}` (height 2, contactTolerance {ct}): position {o.position}, expected ({t[0]}, {t[1]}, {want})"
        return None
    z0 = 3.0
    decl = f"floor = new Object at (0, 0, {z0 / 2}), with width 20, with length 20, with height {z0}, with requireVisible False\nego = floor\n"
    at = "at (1, 2, 9), " if how == "modifying" else ""
    scene = _scenic_scene(decl + f"box = new Object {at}on floor, with contactTolerance {ct}, with height 2, with requireVisible False\n")
    o = scene.objects[1]
    if not _close(o.position.z, z0 + ct / 2 + 1.0, 1e-6):
        return f"`new Object {at}on floor` (floor at z = {z0}, height 2, contactTolerance {ct}): z = {o.position.z}, expected {z0 + ct / 2 + 1.0}"
    if how == "modifying" and not (_close(o.position.x, 1) and _close(o.position.y, 2)):
        return f"modifying `on floor` moved the object sideways: {o.position}"
    return None
