"""Sidecar contracts for C07: built-in specifiers and operators have their documented geometric meaning.

Oracle: the property statement of C07 and the language reference (docs/reference/specifiers.rst, operators.rst,
the Vector / Orientation docstrings): heading 0 = +Y, positive angles counter-clockwise, local frames
X = right, Y = ahead, Z = up, `orientation = parentOrientation * (yaw, pitch, roll)`.

Rotations are ABSTRACT group elements and trigonometric functions are uninterpreted (pyvc/models_geom.py):
every obligation below is proved relative to the named axioms listed in the evidence (`L-rot.*`, `A2.*`)."""
import math

import z3

from pyvc import contracts as C
from pyvc import models_geom as G
from pyvc.interp import BuiltinFn, ClassVal, FuncVal
from pyvc.models_geom import AP, ATAN2, COS, EUL, EULER, HALF_PI, IDENT, INV, MUL, NdArr, PI, SIN, TAU, rz, sv
from pyvc.values import PDict, PList, PObj, PyvcError, SV, arith, compare, sv_and, sv_ite, sv_not, sv_or, tobool, toz3

from .common import VectorT, make_vector, repo_class

V = "scenic.core.vectors"
GEO = "scenic.core.geometry"
VEN = "scenic.syntax.veneer"
OT = "scenic.core.object_types"
TS = "scenic.core.type_support"


# =================================================================================================
# symbolic inputs


def co(v):
    """coordinates of a model Vector / array / tuple as z3 reals"""
    if isinstance(v, PObj) and "coordinates" in v.fields:
        v = v.fields["coordinates"]
    elif isinstance(v, NdArr):
        v = v.items
    return tuple(rz(c) for c in v)


def is_vector(v):
    return isinstance(v, PObj) and isinstance(v.cls, ClassVal) and v.cls.full == f"{V}:Vector"


def make_orientation(I, term):
    """A concrete scenic.core.vectors.Orientation wrapping the abstract rotation `term`."""
    o = PObj(repo_class(f"{V}:Orientation"))
    r = G.make_rotation(I, term)
    o.fields.update(r=r, q=r.fields["as_quat"].fn())
    return o


class OrientationT(C.Type):
    """Orientation with an arbitrary (abstract) rotation; `yaw_only` makes it the planar rotation by a symbolic yaw."""

    def __init__(self, yaw_only=False):
        self.yaw_only = yaw_only

    def fresh(self, eng, name, I=None):
        if self.yaw_only:
            a = eng.fresh_real(name + ".yaw")
            o = make_orientation(I, EULER(a.e, 0, 0))
            o.yaw_sym = a
        else:
            o = make_orientation(I, z3.Const(eng.fresh_name(name + ".rotation"), G.ROT))
        o.tag = name
        return o

    def concretize(self, eng, model, val):
        if getattr(val, "yaw_sym", None) is not None:
            return {"yaw": eng.eval_model(model, val.yaw_sym)}
        return "abstract rotation"


def rot(o):
    """z3 term of the rotation carried by an Orientation (or scipy Rotation) model value"""
    if G.is_rotation(o):
        return o.term
    return o.fields["r"].term


def apply3(r, v):
    return tuple(f(r, *v) for f in AP)


def eq3(a, b):
    return z3.And(*[x == y for x, y in zip(a, b)])


def is_turns(x):
    t = x / TAU
    return t == z3.ToReal(z3.ToInt(t))


def sq(x):
    return x * x


def norm2(v):
    return sum(sq(c) for c in v)


def input_real(eng, name, lo=None, hi=None):
    v = eng.fresh_real(name)
    if lo is not None:
        eng.assume(compare(">=", v, lo))
    if hi is not None:
        eng.assume(compare("<=", v, hi))
    eng.input_syms.append((name, C.Real(), v))
    return v


def input_vector(eng, name, I=None):
    t = VectorT()
    v = t.fresh(eng, name, I)
    eng.input_syms.append((name, t, v))
    return v


# =================================================================================================
# replay helpers (REAL code, floats)


def _close(a, b, tol=1e-6):
    return abs(a - b) <= tol * (1 + abs(a) + abs(b))


def _angle_close(a, b, tol=1e-6):
    d = (a - b) % math.tau
    return min(d, math.tau - d) <= tol


def _fl(x):
    return float(x)


def _vec(inputs, k):
    from scenic.core.vectors import Vector

    return Vector(*[float(c) for c in inputs[k]])


ROTATION_CATALOGUE = [(0.0, 0.0, 0.0), (math.pi / 2, 0.0, 0.0), (-math.pi / 2, 0.0, 0.0), (math.pi, 0.0, 0.0), (0.0, math.pi / 2, 0.0), (0.7, 0.4, -0.3), (2.5, -1.1, 0.9)]


def _orientations(inputs, key):
    """Real Orientation objects to try for an abstract-rotation input: the counter-model's yaw when it has one,
    then the concretisation catalogue of DESIGN.md 2.4."""
    from scenic.core.vectors import Orientation

    v = inputs.get(key)
    out = []
    if isinstance(v, dict) and "yaw" in v:
        out.append(Orientation.fromEuler(float(v["yaw"]), 0.0, 0.0))
    for e in ROTATION_CATALOGUE:
        out.append(Orientation.fromEuler(*e))
    return out


def _local(orientation, vec):
    """R^-1 * vec for a real Orientation and a real Vector/sequence"""
    import numpy as np

    return orientation.getRotation().inv().apply(np.array([float(c) for c in vec]))


# =================================================================================================
# 1. Vector algebra (scenic.core.vectors.Vector), real class interpreted by the engine


def register(reg):
    G.install(reg)
    register_vector_algebra(reg)


def _vec_contract(reg, method, params, post, replay, key=None, raises=(), requires=(), setup=None):
    name = f"vectors.Vector.{method}" + (key or "")

    def post_(I, env, outcome):
        if outcome[0] != "return":
            return
        post(I, env, outcome[1], lambda clause, goal: I.eng.check(f"{name}#ensures.{clause}", goal))

    reg.add(
        C.Contract(f"{V}:Vector.{method}", params=params, post=post_, replay=replay, inline_all=True, raises=list(raises), requires=list(requires), setup=setup, properties=("C07",)),
        key=(f"{V}:Vector.{method}{key}" if key else None),
    )


def register_vector_algebra(reg):
    VT = VectorT

    # ---------------------------------------------------------------- + - * /
    def lin(op):
        def post(I, env, res, check):
            a, b = co(env.vars["self"]), co(env.vars["other"])
            want = {"__add__": [x + y for x, y in zip(a, b)], "__radd__": [x + y for x, y in zip(a, b)], "__sub__": [x - y for x, y in zip(a, b)], "__rsub__": [y - x for x, y in zip(a, b)]}[op]
            check("is_a_vector", is_vector(res))
            if is_vector(res):
                check("componentwise", eq3(co(res), want))

        def replay(inputs, clause):
            a, b = _vec(inputs, "self"), _vec(inputs, "other")
            r = getattr(a, op)(b)
            want = {"__add__": [x + y for x, y in zip(a, b)], "__radd__": [x + y for x, y in zip(a, b)], "__sub__": [x - y for x, y in zip(a, b)], "__rsub__": [y - x for x, y in zip(a, b)]}[op]
            if not all(_close(p, q) for p, q in zip(r, want)):
                return f"{a!r}.{op}({b!r}) = {r!r}, expected {want}"

        return post, replay

    for op in ("__add__", "__radd__", "__sub__", "__rsub__"):
        p, r = lin(op)
        _vec_contract(reg, op, dict(self=VT(), other=VT()), p, r)

    def post_mul(I, env, res, check):
        a, k = co(env.vars["self"]), rz(env.vars["other"])
        check("scales_every_coordinate", eq3(co(res), [x * k for x in a]))

    def replay_mul(inputs, clause):
        a, k = _vec(inputs, "self"), _fl(inputs["other"])
        r = a * k
        if not all(_close(p, q * k) for p, q in zip(r, a)):
            return f"{a!r} * {k} = {r!r}"

    _vec_contract(reg, "__mul__", dict(self=VT(), other=C.Real()), post_mul, replay_mul)

    def post_div(I, env, res, check):
        a, k = co(env.vars["self"]), rz(env.vars["other"])
        check("divides_every_coordinate", eq3([x * k for x in co(res)], a))

    def replay_div(inputs, clause):
        a, k = _vec(inputs, "self"), _fl(inputs["other"])
        try:
            r = a / k
        except ZeroDivisionError:
            return None if k == 0 else f"{a!r} / {k} raised ZeroDivisionError"
        if k == 0:
            return f"{a!r} / 0 returned {r!r}"
        if not all(_close(p * k, q) for p, q in zip(r, a)):
            return f"{a!r} / {k} = {r!r}"

    _vec_contract(reg, "__truediv__", dict(self=VT(), other=C.Real()), post_div, replay_div, raises=[C.Raises("ZeroDivisionError", when="other == 0", mode="iff")])

    # ---------------------------------------------------------------- dot / cross
    def post_dot(I, env, res, check):
        a, b = co(env.vars["self"]), co(env.vars["other"])
        check("sum_of_products", rz(res) == sum(x * y for x, y in zip(a, b)))

    def replay_dot(inputs, clause):
        a, b = _vec(inputs, "self"), _vec(inputs, "other")
        r = a.dot(b)
        if not _close(r, sum(x * y for x, y in zip(a, b))):
            return f"{a!r}.dot({b!r}) = {r}"

    _vec_contract(reg, "dot", dict(self=VT(), other=VT()), post_dot, replay_dot)

    def post_cross(I, env, res, check):
        a, b, c = co(env.vars["self"]), co(env.vars["other"]), co(res)
        dot = lambda p, q: sum(x * y for x, y in zip(p, q))
        check("orthogonal_to_self", dot(c, a) == 0)
        check("orthogonal_to_other", dot(c, b) == 0)
        # |a x b|^2 = |a|^2 |b|^2 - (a.b)^2  and  det[a, b, a x b] = |a x b|^2 >= 0 (right-handed)
        check("lagrange_identity", dot(c, c) == dot(a, a) * dot(b, b) - sq(dot(a, b)))
        det = a[0] * (b[1] * c[2] - b[2] * c[1]) - a[1] * (b[0] * c[2] - b[2] * c[0]) + a[2] * (b[0] * c[1] - b[1] * c[0])
        check("right_handed", det == dot(c, c))
        f = I.find_method(env.vars["self"].cls, "cross")
        back = I.run_function(f, [env.vars["other"], env.vars["self"]], {}, None)
        check("anti_symmetric", eq3(co(back), [-x for x in c]))

    def replay_cross(inputs, clause):
        a, b = _vec(inputs, "self"), _vec(inputs, "other")
        r = a.cross(b)  # NameError on the unchanged tree is reported by the replay harness
        want = (a.y * b.z - a.z * b.y, a.z * b.x - a.x * b.z, a.x * b.y - a.y * b.x)
        if not all(_close(p, q) for p, q in zip(r, want)):
            return f"{a!r}.cross({b!r}) = {r!r}, expected {want}"

    _vec_contract(reg, "cross", dict(self=VT(), other=VT()), post_cross, replay_cross)

    # ---------------------------------------------------------------- norm / normalized / distanceTo
    def post_norm(I, env, res, check):
        a = co(env.vars["self"])
        check("euclidean_length", z3.And(rz(res) >= 0, sq(rz(res)) == norm2(a)))

    def replay_norm(inputs, clause):
        a = _vec(inputs, "self")
        r = a.norm()
        if not _close(r, math.sqrt(sum(x * x for x in a))):
            return f"{a!r}.norm() = {r}"

    _vec_contract(reg, "norm", dict(self=VT()), post_norm, replay_norm)

    def post_normalized(I, env, res, check):
        a, r = co(env.vars["self"]), co(res)
        zero = z3.And(*[x == 0 for x in a])
        check("zero_stays_zero", z3.Implies(zero, eq3(r, (0, 0, 0))))
        L = z3.Real("L!norm")
        hyp = z3.And(L >= 0, sq(L) == norm2(a), z3.Not(zero))
        check("same_direction", z3.Implies(hyp, eq3([x * L for x in r], a)))
        for i, n in enumerate("xyz"):
            check(f"unit_length_lemma_{n}", z3.Implies(hyp, sq(r[i]) * norm2(a) == sq(a[i])))

    def replay_normalized(inputs, clause):
        a = _vec(inputs, "self")
        r = a.normalized()
        n = math.sqrt(sum(x * x for x in a))
        want = [0, 0, 0] if n == 0 else [x / n for x in a]
        if not all(_close(p, q) for p, q in zip(r, want)):
            return f"{a!r}.normalized() = {r!r}"

    _vec_contract(reg, "normalized", dict(self=VT()), post_normalized, replay_normalized)

    def post_dist(I, env, res, check):
        a, b = co(env.vars["self"]), co(env.vars["other"])
        check("euclidean_distance", z3.And(rz(res) >= 0, sq(rz(res)) == norm2([y - x for x, y in zip(a, b)])))

    def replay_dist(inputs, clause):
        a, b = _vec(inputs, "self"), _vec(inputs, "other")
        r = a.distanceTo(b)
        if not _close(r, math.dist(a, b)):
            return f"{a!r}.distanceTo({b!r}) = {r}"

    _vec_contract(reg, "distanceTo", dict(self=VT(), other=VT()), post_dist, replay_dist)

    # ---------------------------------------------------------------- rotations: positive angles are counter-clockwise
    def ccw(theta, v):
        c, s = COS(theta), SIN(theta)
        return (c * v[0] - s * v[1], s * v[0] + c * v[1], v[2])

    def ccw_f(theta, v):
        c, s = math.cos(theta), math.sin(theta)
        return (c * v[0] - s * v[1], s * v[0] + c * v[1], v[2])

    def post_rot_angle(I, env, res, check):
        G.use(I.eng, "trig")
        a, t, r = co(env.vars["self"]), rz(env.vars["angleOrOrientation"]), co(res)
        want = ccw(t, a)
        for i, n in enumerate("xyz"):
            check(f"counter_clockwise_matrix_{n}", r[i] == want[i])
        check("length_preserved", norm2(r) == norm2(a))
        check("plus_y_turns_toward_minus_x", z3.Implies(z3.And(a[0] == 0, a[1] == 1), z3.And(r[0] == -SIN(t), r[1] == COS(t))))

    def replay_rot_angle(inputs, clause):
        a, t = _vec(inputs, "self"), _fl(inputs["angleOrOrientation"])
        r, want = a.rotatedBy(t), ccw_f(t, a)
        if not all(_close(p, q) for p, q in zip(r, want)):
            return f"{a!r}.rotatedBy({t}) = {r!r}, counter-clockwise rotation gives {want}"

    _vec_contract(reg, "rotatedBy", dict(self=VT(), angleOrOrientation=C.Real()), post_rot_angle, replay_rot_angle, key="[angle]")

    def post_rot_orient(I, env, res, check):
        a, R = co(env.vars["self"]), rot(env.vars["angleOrOrientation" if "angleOrOrientation" in env.vars else "rotation"])
        check("is_the_rotation_applied_to_the_vector", eq3(co(res), apply3(R, a)))

    def replay_rot_orient(method):
        def replay(inputs, clause):
            import numpy as np

            a = _vec(inputs, "self")
            for o in _orientations(inputs, "angleOrOrientation" if method == "rotatedBy" else "rotation"):
                r = getattr(a, method)(o)
                want = o.getRotation().apply(np.array(list(a)))
                if not all(_close(p, q) for p, q in zip(r, want)):
                    return f"{a!r}.{method}({o!r}) = {r!r}, rotation applied to the vector gives {list(want)}"

        return replay

    _vec_contract(reg, "rotatedBy", dict(self=VT(), angleOrOrientation=OrientationT()), post_rot_orient, replay_rot_orient("rotatedBy"), key="[orientation]")
    _vec_contract(reg, "applyRotation", dict(self=VT(), rotation=OrientationT()), post_rot_orient, replay_rot_orient("applyRotation"))

    def post_off_rot(I, env, res, check):
        G.use(I.eng, "trig")
        a, t, o = co(env.vars["self"]), rz(env.vars["angleOrOrientation"]), co(env.vars["offset"])
        check("self_plus_offset_turned_counter_clockwise", eq3(co(res), [x + y for x, y in zip(a, ccw(t, o))]))

    def replay_off_rot(inputs, clause):
        a, t, o = _vec(inputs, "self"), _fl(inputs["angleOrOrientation"]), _vec(inputs, "offset")
        r, want = a.offsetRotated(t, o), [x + y for x, y in zip(a, ccw_f(t, o))]
        if not all(_close(p, q) for p, q in zip(r, want)):
            return f"{a!r}.offsetRotated({t}, {o!r}) = {r!r}, expected {want}"

    _vec_contract(reg, "offsetRotated", dict(self=VT(), angleOrOrientation=C.Real(), offset=VT()), post_off_rot, replay_off_rot, key="[angle]")

    def post_off_rot_o(I, env, res, check):
        a, R, o = co(env.vars["self"]), rot(env.vars["angleOrOrientation" if "angleOrOrientation" in env.vars else "orientation"]), co(env.vars["offset"])
        check("self_plus_rotated_offset", eq3(co(res), [x + y for x, y in zip(a, apply3(R, o))]))

    def replay_off_o(method, key):
        def replay(inputs, clause):
            import numpy as np

            a, o = _vec(inputs, "self"), _vec(inputs, "offset")
            for ori in _orientations(inputs, key):
                r = getattr(a, method)(ori, o)
                want = np.array(list(a)) + ori.getRotation().apply(np.array(list(o)))
                if not all(_close(p, q) for p, q in zip(r, want)):
                    return f"{a!r}.{method}({ori!r}, {o!r}) = {r!r}, expected {list(want)}"

        return replay

    _vec_contract(reg, "offsetRotated", dict(self=VT(), angleOrOrientation=OrientationT(), offset=VT()), post_off_rot_o, replay_off_o("offsetRotated", "angleOrOrientation"), key="[orientation]")
    _vec_contract(reg, "offsetLocally", dict(self=VT(), orientation=OrientationT(), offset=VT()), post_off_rot_o, replay_off_o("offsetLocally", "orientation"))

    def post_off_rad(I, env, res, check):
        G.use(I.eng, "trig")
        a, rad, h, r = co(env.vars["self"]), rz(env.vars["radius"]), rz(env.vars["heading"]), co(res)
        # heading 0 = +Y, positive headings counter-clockwise: the unit vector of heading h is (-sin h, cos h, 0)
        check("heading_zero_is_plus_y", z3.Implies(h == 0, eq3(r, (a[0], a[1] + rad, a[2]))))
        check("offset_along_heading_x", r[0] == a[0] - rad * SIN(h))
        check("offset_along_heading_y", r[1] == a[1] + rad * COS(h))
        check("offset_along_heading_z", r[2] == a[2])

    def replay_off_rad(inputs, clause):
        a, rad, h = _vec(inputs, "self"), _fl(inputs["radius"]), _fl(inputs["heading"])
        r = a.offsetRadially(rad, h)
        want = (a.x - rad * math.sin(h), a.y + rad * math.cos(h), a.z)
        if not all(_close(p, q) for p, q in zip(r, want)):
            return f"{a!r}.offsetRadially({rad}, {h}) = {r!r}, expected {want}"

    _vec_contract(reg, "offsetRadially", dict(self=VT(), radius=C.Real(), heading=C.Real()), post_off_rad, replay_off_rad)

    # ---------------------------------------------------------------- angles: heading 0 = +Y, counter-clockwise positive
    def azimuth_obligations(check, r, d, prefix=""):
        """r = azimuth of the direction d (angle from +Y, counter-clockwise positive, normalised to [-pi, pi])"""
        dx, dy = d[0], d[1]
        check(prefix + "in_range", z3.And(-PI <= r, r <= PI))
        check(prefix + "is_angle_from_plus_y_ccw", is_turns(r - (ATAN2(dy, dx) - HALF_PI)))
        check(prefix + "plus_y_is_zero", z3.Implies(z3.And(dx == 0, dy > 0), r == 0))
        check(prefix + "minus_x_is_plus_quarter_turn", z3.Implies(z3.And(dx < 0, dy == 0), r == HALF_PI))
        check(prefix + "plus_x_is_minus_quarter_turn", z3.Implies(z3.And(dx > 0, dy == 0), r == -HALF_PI))
        check(prefix + "minus_y_is_half_turn", z3.Implies(z3.And(dx == 0, dy < 0), z3.Or(r == PI, r == -PI)))
        check(prefix + "left_half_plane_is_positive", z3.Implies(dx < 0, z3.And(r > 0, r < PI)))

    def azimuth_f(d):
        a = math.atan2(d[1], d[0]) - math.pi / 2
        while a > math.pi:
            a -= math.tau
        while a < -math.pi:
            a += math.tau
        return a

    def post_azimuth(I, env, res, check):
        G.use(I.eng, "atan2")
        a, b = co(env.vars["self"]), co(env.vars["other"])
        azimuth_obligations(check, rz(res), [y - x for x, y in zip(a, b)])

    def replay_azimuth(method):
        def replay(inputs, clause):
            a, b = _vec(inputs, "self"), _vec(inputs, "other")
            r = getattr(a, method)(b)
            want = azimuth_f([y - x for x, y in zip(a, b)])
            if not (-math.pi <= r <= math.pi) or not _angle_close(r, want):
                return f"{a!r}.{method}({b!r}) = {r}, azimuth (from +Y, counter-clockwise) is {want}"

        return replay

    _vec_contract(reg, "azimuthTo", dict(self=VT(), other=VT()), post_azimuth, replay_azimuth("azimuthTo"))
    _vec_contract(reg, "angleTo", dict(self=VT(), other=VT()), post_azimuth, replay_azimuth("angleTo"))

    def altitude_obligations(check, r, d, hyp, prefix=""):
        check(prefix + "in_range", z3.And(-HALF_PI <= r, r <= HALF_PI))
        check(prefix + "is_elevation_above_the_xy_plane", r == ATAN2(d[2], hyp))
        check(prefix + "sign_follows_dz", z3.And(z3.Implies(d[2] > 0, r > 0), z3.Implies(d[2] < 0, r < 0), z3.Implies(z3.And(d[2] == 0, z3.Or(d[0] != 0, d[1] != 0)), r == 0)))
        check(prefix + "straight_up_is_quarter_turn", z3.Implies(z3.And(d[0] == 0, d[1] == 0, d[2] > 0), r == HALF_PI))

    def post_altitude(I, env, res, check):
        G.use(I.eng, "atan2")
        a, b = co(env.vars["self"]), co(env.vars["other"])
        d = [y - x for x, y in zip(a, b)]
        h = z3.Real("H!xy")
        I.eng.assume(z3.And(h >= 0, sq(h) == sq(d[0]) + sq(d[1])))
        altitude_obligations(check, rz(res), d, h)

    def replay_altitude(inputs, clause):
        a, b = _vec(inputs, "self"), _vec(inputs, "other")
        r = a.altitudeTo(b)
        d = [y - x for x, y in zip(a, b)]
        want = math.atan2(d[2], math.hypot(d[0], d[1]))
        if not _close(r, want):
            return f"{a!r}.altitudeTo({b!r}) = {r}, elevation angle is {want}"

    _vec_contract(reg, "altitudeTo", dict(self=VT(), other=VT()), post_altitude, replay_altitude)

    def post_angle_with(I, env, res, check):
        G.use(I.eng, "atan2")
        a, b, r = co(env.vars["self"]), co(env.vars["other"]), rz(res)
        check("in_range", z3.And(-PI <= r, r <= PI))
        check("difference_of_directions", is_turns(r - (ATAN2(b[1], b[0]) - ATAN2(a[1], a[0]))))
        check("plus_y_is_counter_clockwise_of_plus_x", z3.Implies(z3.And(a[0] > 0, a[1] == 0, b[0] == 0, b[1] > 0), r == HALF_PI))
        check("plus_x_is_clockwise_of_plus_y", z3.Implies(z3.And(b[0] > 0, b[1] == 0, a[0] == 0, a[1] > 0), r == -HALF_PI))
        check("same_direction_is_zero", z3.Implies(z3.And(a[0] == b[0], a[1] == b[1]), r == 0))

    def replay_angle_with(inputs, clause):
        a, b = _vec(inputs, "self"), _vec(inputs, "other")
        r = a.angleWith(b)
        want = math.atan2(b.y, b.x) - math.atan2(a.y, a.x)
        if not (-math.pi <= r <= math.pi) or not _angle_close(r, want):
            return f"{a!r}.angleWith({b!r}) = {r}, signed angle is {want} (mod tau)"

    _vec_contract(reg, "angleWith", dict(self=VT(), other=VT()), post_angle_with, replay_angle_with)

    def post_spherical(I, env, res, check):
        G.use(I.eng, "atan2")
        a, r = co(env.vars["self"]), co(res)
        h = z3.Real("H!xy")
        I.eng.assume(z3.And(h >= 0, sq(h) == sq(a[0]) + sq(a[1])))
        check("rho_is_the_length", z3.And(r[0] >= 0, sq(r[0]) == norm2(a)))
        check("theta_is_angle_from_plus_y_ccw", r[1] == ATAN2(a[1], a[0]) - HALF_PI)
        check("theta_of_plus_y_is_zero", z3.Implies(z3.And(a[0] == 0, a[1] > 0), r[1] == 0))
        check("theta_of_minus_x_is_quarter_turn", z3.Implies(z3.And(a[0] < 0, a[1] == 0), r[1] == HALF_PI))
        check("phi_is_elevation", r[2] == ATAN2(a[2], h))
        check("phi_sign_follows_z", z3.And(z3.Implies(a[2] > 0, r[2] > 0), z3.Implies(a[2] < 0, r[2] < 0)))

    def replay_spherical(inputs, clause):
        a = _vec(inputs, "self")
        r = a.sphericalCoordinates()
        want = (math.sqrt(sum(x * x for x in a)), math.atan2(a.y, a.x) - math.pi / 2, math.atan2(a.z, math.hypot(a.x, a.y)))
        if not all(_close(p, q) for p, q in zip(r, want)):
            return f"{a!r}.sphericalCoordinates() = {r!r}, expected {want}"

    _vec_contract(reg, "sphericalCoordinates", dict(self=VT()), post_spherical, replay_spherical)
