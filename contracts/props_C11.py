"""Property fragment for C11 (see pyvc/GUIDE.md)."""

PROPERTIES = {
    "C11": dict(
        modules=["rvltl", "temporal", "temporal_syntax"],
        # "from the step the statement takes effect to the end of its scenario": the monitors must see the last state,
        # i.e. DynamicScenario._step updates the requirement monitors before the time-limit stop (contract written for C12)
        borrow=dict(modules=["simulation_order", "dyn_requirements"], match=["DynamicScenario._step", "DynamicScenario._stop[order]", "DynamicScenario._start[requirement monitors]", "DynamicScenario._compileRequirements"]),
        level="proof",
        claim="temporal requirements: (a) the dependency's monitors (rv_ltl, source on disk, checked not trusted) refine the four-valued finite-trace "
        "reference semantics sem4 (strong next / until) class by class over abstract children and traces of symbolic length -- truthiness exact, "
        "FALSE / TRUE only when sem4 is FALSE / TRUE -- with sem4 itself validated against two-valued finite-trace LTL and all extensions on the bounded "
        "trace space; (b) Scenic's proposition layer maps every operator to the rv_ltl node of the same operator with the operands in source order, "
        "enumerates every atom once, evaluates every atomic closure exactly once per step in the current step and feeds the monitor one truth value per "
        "atom; (c) the initial scene is rejected iff the step-0 verdict is FALSE, a running simulation iff some verdict of the step is FALSE, a finished "
        "scenario iff some last verdict is falsy; (d) requirement syntax is compiled to the factory calls of the same operators with unique increasing atom ids and wrapped unchanged (tree, line, name, probability) into the `require` call; "
        "(e) every requirement-like statement of a scenario is compiled once with its own syntax into the list of its kind, and at start every registered temporal requirement -- and no other -- gets one monitor, first updated in the scenario's first step",
        note="per-class monitor contracts are for all trace lengths and all child values (UntilMonitor with two loop invariants over an uninterpreted running "
        "minimum, used through definition/lemma instances; the lemmas are proved by induction in UntilMonitor._evaluate_at[lemma]); the sugar monitors, "
        "Monitor.update, the end-to-end families and the Scenic-side tree contracts are bounded (stated per contract in `note`); "
        "the obligations refuted on the installed rv_ltl / on Scenic are listed in the report of the contract author (F26 and new findings)",
        assumptions=[
            "enum.Enum machinery behind rv_ltl.B4 modelled (members = singletons identified by value); B4's own methods are interpreted from source",
            "ast.NodeTransformer.visit / generic_visit modelled as class-name dispatch / child traversal (PropositionTransformer contract)",
            "veneer.endScenario stubbed in DynamicScenario._stop (book-keeping of the running-scenario stack)",
            "B4.from_bool is applied at call sites through its verified postcondition in closed form (value = 4 if b else 1)",
        ],
        bounded=[
            "sugar monitors (Always/Eventually/Implies): traces of length <= 5, every position, operand values symbolic",
            "end-to-end families on the real rv_ltl pipeline: 88 formulas of depth <= 2 over 2 atoms + `a until ((next next c) or d)` and its negation, all traces of length <= 4",
            "sem4-vs-sat lemmas: 235 formulas, traces of length <= 4 with all extensions up to length 4",
            "Scenic proposition layer end to end: 11 formulas (every operator), all traces of length <= 3",
            "And/Or monitors and constructors: 0..3 operands; DynamicScenario._step/_stop: 3 / 2 requirement monitors",
            "PropositionTransformer: 21 requirement sources parsed by the real parser; createRequirementLike: 7 requirement statements (name / probability / earlier requirements / first atom id varied)",
            "DynamicScenario._start[requirement monitors]: 0-3 registered requirements + one of another scenario; DynamicScenario._compileRequirements: 5 declaration lists covering the 7 kinds of requirement-like statements",
        ],
        not_reached=[
            "DynamicRequirement.__init__.closure (veneer.executeInScenario context manager around monitor.update()); PendingRequirement.compile.closure is under contract for C01",
            "Scenario.generate: binding of the compiled `require` statements to the sample (BoundRequirement) and Scene.__init__ (scene.temporalRequirements); DynamicScenario._bindTo -- exercised only by the replay drivers of DynamicScenario._compileRequirements / _start[requirement monitors]",
            "grammar-level precedence of the temporal operators (scenic.gram, C10; F31)",
            "ScenicToPythonTransformer.visit_Require (probability range check) and the expression compiler applied to the transformed proposition tree (modelled as the identity in createRequirementLike; C09/C10)",
        ],
    ),
}
