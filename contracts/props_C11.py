"""Property fragment for C11 (see pyvc/GUIDE.md)."""

PROPERTIES = {
    "C11": dict(
        modules=["rvltl", "temporal"],
        level="proof",
        claim="",
        note="",
        assumptions=[],
        not_reached=[],
    ),
}
