"""Sidecar contracts for the road-network cache and point lookups (C20).

Oracle: the property statement ("a network loaded from its cache is equivalent to one parsed from the map, and the cache
is ignored when the map or the map options differ"; "the element reported at a point contains it within the tolerance") and
the documentation of `Network.fromFile` / `findPointIn` / `elementAt` (two passes: exact then within `tolerance`; first
element in priority order; Intersection -> Road -> Shoulder -> Sidewalk).

Cache file layout (the *format description*, not the code):  bytes 0..3 little-endian format version, 4..67 blake2b digest of
the map file, 68..75 digest of the map options, rest: gzip-compressed pickle.

Trusted (reg.trust): blake2b collision-freeness, gzip/pickle, pathlib, shapely STRtree.query(geom, predicate="intersects")
returning exactly the indices of the stored geometries that intersect `geom`, Point.buffer(d) containing the point."""
import ast
import itertools

import z3

from pyvc import contracts as C
from pyvc import extract
from pyvc.builtins_model import AnyException, ContextManagerVal, NativeModule, StreamVal
from pyvc.interp import BuiltinFn, ClassVal, SymRaise
from pyvc.models_fe import as_list, may_raise
from pyvc.values import Opaque, PDict, PExc, PList, PObj, PSet, PyvcError, SBytes, SV, compare, sv_and, sv_not, sv_or, tobool, tonum

ROADS = "scenic.domains.driving.roads"
SER = "scenic.core.serialization"
NET = f"{ROADS}:Network"


class DigestMismatchError(Exception):
    """stands for Network.DigestMismatchError (a nested class of the real Network)"""


import pickle as _pickle

UnpicklingError = _pickle.UnpicklingError


def _lit(x):
    """counter-model inputs that are lists arrive as their repr"""
    if isinstance(x, str) and x[:1] in "[({":
        try:
            return ast.literal_eval(x)
        except (ValueError, SyntaxError):
            return x
    return x


def _exc_name(exc):
    return exc.cls.name if isinstance(exc.cls, ClassVal) else getattr(exc.cls, "__name__", str(exc.cls))


def _network_cls():
    return ClassVal.get(ROADS, extract.get_module(ROADS).top["Network"])


def _u32(D, p):
    return z3.Sum([z3.Select(D, p + t) * (256**t) for t in range(4)])


def _eq_at(D, p, b):
    """D[p : p+len(b)] == b   (b: SBytes)"""
    k = z3.Int("k!hdr")
    return z3.ForAll([k], z3.Implies(z3.And(k >= 0, k < tonum(b.length)), z3.Select(D, p + k) == z3.Select(b.arr, tonum(b.off) + k)))


# ------------------------------------------------------------------------------------------------ replay drivers
def _fast():
    from standins.frontend_mutants import fast_imports

    fast_imports()


def replay_from_pickle(inputs, clause):
    """Real Network.fromPickle on a real file with the model's header; the body is a real pickled object."""
    _fast()
    import gzip
    import io
    import os
    import pickle
    import struct
    import tempfile

    from scenic.domains.driving.roads import Network

    data = inputs.get("file")
    if not isinstance(data, dict):
        return None
    raw = bytes(data.get("data", []))
    od = inputs.get("originalDigest")
    opt = inputs.get("optionsDigest")
    od = bytes(od) if od is not None else None
    opt = bytes(opt) if opt is not None else None
    body = io.BytesIO()
    with gzip.open(body, "wb") as gf:
        gf.write(pickle.dumps({"not": "a network"}))
    with tempfile.TemporaryDirectory() as d:
        p = os.path.join(d, "m.snet")
        with open(p, "wb") as f:
            f.write(raw[:76] + (body.getvalue() if len(raw) >= 76 else b""))
        try:
            r = Network.fromPickle(p, originalDigest=od, optionsDigest=opt)
        except (pickle.UnpicklingError, Network.DigestMismatchError):
            return None
        except Exception as e:
            return f"fromPickle escapes with {type(e).__name__}: {e}"
    want = struct.pack("<I", Network._currentFormatVersion())
    if len(raw) < 76 or raw[:4] != want:
        return f"fromPickle accepted a cache file with version field {raw[:4]!r} / length {len(raw)}"
    if od and raw[4:68] != od:
        return "fromPickle accepted a cache whose map digest differs from the expected one"
    if opt and raw[68:76] != opt:
        return "fromPickle accepted a cache whose options digest differs from the expected one"
    return None


def replay_from_file(inputs, clause):
    """Real Network.fromFile on a copy of a small shipped map: cache written with one option set must be ignored for another
    option set / modified map, and used for the same."""
    _fast()
    import os
    import shutil
    import tempfile

    import scenic.domains.driving.roads as R
    from standins.road_networks import small_maps

    maps = small_maps()
    if not maps:
        return None
    calls = []
    orig_pickle, orig_od = R.Network.fromPickle.__func__, R.Network.fromOpenDrive.__func__
    with tempfile.TemporaryDirectory() as d:
        p = os.path.join(d, "m.xodr")
        shutil.copy(maps[0], p)
        R.Network.fromFile(p, useCache=False, writeCache=True, tolerance=0.05)
        if not os.path.exists(os.path.join(d, "m.snet")):
            return "fromFile(writeCache=True) wrote no cache file"

        def spy_parse(cls, path, **kw):
            calls.append("parse")
            return orig_od(cls, path, **kw)

        R.Network.fromOpenDrive = classmethod(spy_parse)
        try:
            R.Network.fromFile(p, useCache=True, writeCache=False, tolerance=0.05)
            if calls:
                return "fromFile re-parsed the map although a matching cache exists"
            R.Network.fromFile(p, useCache=True, writeCache=False, tolerance=0.06)
            if not calls:
                return "fromFile used a cache written with tolerance=0.05 for tolerance=0.06"
            del calls[:]
            with open(p, "ab") as f:
                f.write(b"\n<!-- changed -->\n")
            R.Network.fromFile(p, useCache=True, writeCache=False, tolerance=0.05)
            if not calls:
                return "fromFile used the cache of a map file that has changed"
            del calls[:]
            R.Network.fromFile(p, useCache=False, writeCache=False, tolerance=0.05)
            if not calls:
                return "fromFile(useCache=False) did not parse the map"
            # the four combinations of the two switches on a fresh copy
            for use in (False, True):
                for write in (False, True):
                    with tempfile.TemporaryDirectory() as d2:
                        q = os.path.join(d2, "n.xodr")
                        shutil.copy(maps[0], q)
                        cache = os.path.join(d2, "n.snet")
                        del calls[:]
                        R.Network.fromFile(q, useCache=use, writeCache=write, tolerance=0.05)
                        if not calls:
                            return f"fromFile(useCache={use}, writeCache={write}) without any cache did not parse the map"
                        if os.path.exists(cache) != write:
                            return f"fromFile(useCache={use}, writeCache={write}): cache file {'written' if os.path.exists(cache) else 'not written'}"
                        if write:
                            stamp = open(cache, "rb").read()
                            del calls[:]
                            R.Network.fromFile(q, useCache=use, writeCache=False, tolerance=0.05)
                            if bool(calls) == use:
                                return f"fromFile(useCache={use}) with a matching cache present {'re-parsed the map' if calls else 'used the cache'}"
                            if open(cache, "rb").read() != stamp:
                                return "fromFile(writeCache=False) rewrote the cache file"
        finally:
            R.Network.fromOpenDrive = classmethod(orig_od)
    return None


def replay_find_point(inputs, clause):
    """Real findPointIn on a real Network object with three square elements placed as in the model."""
    _fast()
    import shapely
    import shapely.geometry

    from scenic.core.distributions import RejectionException
    from scenic.core.vectors import Vector
    from scenic.domains.driving.roads import Network

    states = _lit(inputs.get("states"))
    order = _lit(inputs.get("elems"))
    tol = inputs.get("tolerance")
    reject = inputs.get("reject")
    if states is None or order is None:
        return None
    tol = 0.5 if tol else 0

    class E:
        def __init__(self, uid, poly):
            self.uid, self.polygons = uid, poly

    # the point is the origin; exact = square around it, near = square starting 0.25 away, none = far away
    def poly(state, i):
        if state == "exact":
            return shapely.geometry.box(-1 - i, -1, 1, 1)
        if state == "near":
            return shapely.geometry.box(0.25, -1 - i, 2, 1)
        if state == "corner":  # 0.57 away (tolerance 0.5), but inside the square [-0.5, 0.5]^2 around the point
            return shapely.geometry.box(0.4, 0.4, 2 + i, 2)
        return shapely.geometry.box(50 + i, 50, 51 + i, 51)

    elems = [E(f"e{i}", poly(s, i)) for i, s in enumerate(states)]
    net = Network.__new__(Network)
    net.tolerance = tol
    net._uidForIndex = tuple(e.uid for e in elems)
    net._rtree = shapely.STRtree([e.polygons for e in elems])
    arg = [elems[i] for i in order]
    exact = [e for e in arg if states[int(e.uid[1:])] == "exact"]
    near = [e for e in arg if states[int(e.uid[1:])] in ("exact", "near")]
    want = exact[0] if exact else (near[0] if near and tol > 0 else None)
    try:
        got = Network.findPointIn.__wrapped__(net, Vector(0, 0), arg, reject) if hasattr(Network.findPointIn, "__wrapped__") else net.findPointIn(Vector(0, 0), arg, reject)
    except RejectionException:
        if want is None and reject:
            return None
        return f"findPointIn rejected although element {getattr(want, 'uid', None)} matches (states {states}, order {order}, tolerance {tol})"
    if want is None and reject:
        return "findPointIn returned instead of rejecting the sample"
    if got is not want:
        return f"findPointIn returned {getattr(got, 'uid', None)}, expected {getattr(want, 'uid', None)} (states {states}, priority order {order}, tolerance {tol})"
    return None


def replay_hash(inputs, clause):
    """Real deterministicHash: insertion-order independence and sensitivity to each option value."""
    _fast()
    from scenic.core.serialization import deterministicHash

    base = {"ref_points": 20, "tolerance": 0.05, "fill_gaps": True, "name": "x"}
    h = deterministicHash(base)
    if deterministicHash(dict(reversed(list(base.items())))) != h:
        return "deterministicHash depends on the insertion order of the options"
    for k, v in (("ref_points", 21), ("tolerance", 0.06), ("fill_gaps", False), ("name", "y")):
        m = dict(base)
        m[k] = v
        if deterministicHash(m) == h:
            return f"deterministicHash ignores option {k}"
    for a, b in (({"opt": 0}, {"opt": False}), ({"opt": False}, {}), ({"opt": ""}, {"opt": 0.0}), ({"opt": 0, "z": 1}, {"z": 1}), ({"opt": None}, {})):
        if deterministicHash(a) == deterministicHash(b):
            return f"deterministicHash gives the same digest for the different option sets {a} and {b}"
    if deterministicHash({"a": "x", "b": "y"}) == deterministicHash({"a": "x\0Kb\0Vy"}):
        pass  # NUL inside a string value: outside the stated domain (documented in the contract note)
    return None


def replay_dump_pickle(inputs, clause):
    """Real dumpPickle on a real (small) Network-like object, then the header is read back byte by byte."""
    _fast()
    import os
    import struct
    import tempfile

    from scenic.domains.driving.roads import Network

    digest, opt = bytes(range(64)), bytes(range(100, 108))
    net = Network.__new__(Network)
    net.__dict__.update(elements={}, lanes=(), intersections=())
    with tempfile.TemporaryDirectory() as d:
        p = os.path.join(d, "m.snet")
        try:
            Network.dumpPickle(net, p, digest, opt)
        except Exception as e:
            return f"dumpPickle raised {type(e).__name__}: {e}"
        raw = open(p, "rb").read()
        want = struct.pack("<I", Network._currentFormatVersion())
        if raw[:4] != want:
            return f"cache file starts with {raw[:4]!r}, the format version field should be {want!r}"
        if raw[4:68] != digest:
            return "bytes 4..67 of the cache file are not the map digest"
        if raw[68:76] != opt:
            return "bytes 68..75 of the cache file are not the options digest"
        if raw[76:78] != b"\x1f\x8b":
            return "the compressed pickle does not start right after the 76-byte header"
        try:
            Network.fromPickle(p, originalDigest=digest, optionsDigest=opt)
        except Exception as e:
            return f"fromPickle refuses the file dumpPickle wrote for the same digests: {type(e).__name__}: {e}"
        for od, oo, what in ((bytes(64), opt, "map digest"), (digest, bytes(8), "options digest")):
            try:
                Network.fromPickle(p, originalDigest=od, optionsDigest=oo)
            except Network.DigestMismatchError:
                continue
            except Exception as e:
                return f"fromPickle with another {what}: {type(e).__name__} instead of DigestMismatchError"
            return f"fromPickle accepted the cache for another {what}"
    return None


def replay_find_all(inputs, clause):
    """Real _findPointInAll on three real regions placed around the point as in the model."""
    _fast()
    from scenic.core.regions import CircularRegion
    from scenic.core.vectors import Vector
    from scenic.domains.driving.roads import Network

    tol = inputs.get("tolerance")
    tol = float(tol) if isinstance(tol, (int, float)) else 0.5
    net = Network.__new__(Network)
    net.tolerance = tol
    p = Vector(0, 0)
    for dists in ((0, 0.3, 5), (0.3, 0.6, 5), (5, 6, 7), (0.3, 0, 0.2), (tol, 2 * tol + 1, 0)):
        things = [CircularRegion(Vector(d + 1, 0), 1) for d in dists]  # distance from the point = d
        got = net._findPointInAll(p, things)
        inside = [t for t, d in zip(things, dists) if d == 0]
        want = inside if inside else ([t for t, d in zip(things, dists) if d <= tol + 1e-9] if tol > 0 else [])
        if [id(x) for x in got] != [id(x) for x in want]:
            return f"_findPointInAll with regions at distances {dists} and tolerance {tol} returned those at {[dists[things.index(x)] for x in got]}, expected {[dists[things.index(x)] for x in want]}"
    return None


# ------------------------------------------------------------------------------------------------
def register(reg):
    from contracts.frontend import preimport_scenic

    preimport_scenic()
    reg.trust("blake2b", "collision-free on the inputs considered (distinct pre-images give distinct digests); digest(data) is a function of the data")
    reg.trust("gzip / pickle", "gzip.open(f) reads/writes the rest of the file after the header; pickle.load returns an object or raises anything")
    reg.trust("pathlib.Path", "suffix / with_suffix / exists as documented")
    reg.trust("shapely", "STRtree.query(g, predicate='intersects') = indices of the stored geometries intersecting g; Point.buffer(d) (d > 0) contains the point")
    reg.models["scenic.syntax.veneer:verbosePrint"] = lambda I, *a, **k: None
    reg.attr_hooks[(NET, "DigestMismatchError")] = lambda I, obj: DigestMismatchError

    def libs(I, files=None, exists=None):
        """library names used by the cache functions"""
        opened = []

        def open_(path, mode="r"):
            st = (files or {}).get(mode)
            if st is None:
                st = PObj("file")
            opened.append((path, mode, st))
            return ContextManagerVal(lambda I_: st, lambda I_, exc: False)

        def gzip_open(f, mode="rb"):
            gz = PObj("gzip file")
            gz.fields["write"] = BuiltinFn("write", lambda b: None)
            return ContextManagerVal(lambda I_: gz, lambda I_, exc: False)

        load, dumps = Opaque("pickle.load"), Opaque("pickle.dumps")
        dumps.total = True
        env = {
            "open": BuiltinFn("open", open_),
            "gzip": NativeModule("gzip", {"open": BuiltinFn("gzip.open", gzip_open)}),
            "pickle": NativeModule("pickle", {"load": load, "dumps": dumps, "UnpicklingError": UnpicklingError}),
        }
        env["_opened"] = opened
        return env

    # ================================================================================ fromPickle
    def setup_fp(I, env):
        eng = I.eng
        f = C.Stream(at_start=True).fresh(eng, "file", I)
        f._entry = f.clone()
        eng.input_syms.append(("file", C.Stream(at_start=True), f))
        od = C.Opt(C.Bytes()).fresh(eng, "originalDigest", I)
        opt = C.Opt(C.Bytes()).fresh(eng, "optionsDigest", I)
        if od is not None:
            eng.assume(compare("==", od.length, 64))  # blake2b(data).digest()
        if opt is not None:
            eng.assume(compare("==", opt.length, 8))  # deterministicHash(..., digest_size=8)
        eng.input_syms.append(("originalDigest", C.Opt(C.Bytes()), od))
        eng.input_syms.append(("optionsDigest", C.Opt(C.Bytes()), opt))
        c = I.registry.contracts[f"{NET}.fromPickle"]
        c.env.update(libs(I, files={"rb": f}))
        env.vars.update(cls=_network_cls(), path="<cache file>", originalDigest=od, optionsDigest=opt, _f=f, _D=f.data, _L=f.length)

    def post_fp(I, env, outcome):
        eng = I.eng
        n = "roads.Network.fromPickle"
        D, L = env.vars["_D"], tonum(env.vars["_L"])
        od, opt = env.vars["originalDigest"], env.vars["optionsDigest"]
        cls = env.vars["cls"]
        version = I.run_function(I.find_method(cls, "_currentFormatVersion"), [cls], {}, None)
        if outcome[0] == "return":
            eng.check(f"{n}#accepts_only.complete_header", L >= 76)
            eng.check(f"{n}#accepts_only.current_format_version", z3.And(L >= 4, _u32(D, 0) == tonum(version)))
            if od is not None:
                eng.check(f"{n}#accepts_only.matching_map_digest", z3.And(L >= 68, _eq_at(D, 4, od)))
            if opt is not None:
                eng.check(f"{n}#accepts_only.matching_options_digest", z3.And(L >= 76, _eq_at(D, 68, opt)))
            return
        name = _exc_name(outcome[1])
        eng.check(f"{n}#raises.only_UnpicklingError_or_DigestMismatchError", name in ("UnpicklingError", "DigestMismatchError"), detail=name)
        if name == "DigestMismatchError":
            # raised only for a complete, current header whose digests differ from the expected ones
            mism = []
            if od is not None:
                mism.append(z3.Not(_eq_at(D, 4, od)))
            if opt is not None:
                mism.append(z3.Not(_eq_at(D, 68, opt)))
            eng.check(f"{n}#raises.DigestMismatchError_only_on_a_digest_mismatch", z3.And(L >= 68, z3.Or(*mism)) if mism else False)

    reg.add(
        C.Contract(
            f"{NET}.fromPickle",
            params=dict(cls=C.Const(None), path=C.Const(None), originalDigest=C.Const(None), optionsDigest=C.Const(None)),
            setup=setup_fp,
            post=post_fp,
            inline=["Network._currentFormatVersion"],
            raises=[C.Raises("Exception", mode="may")],
            replay=replay_from_pickle,
            note="expected digests, when given, are 64 / 8 bytes long (what fromFile passes)",
            properties=("C20",),
        )
    )

    # ================================================================================ dumpPickle
    def setup_dp(I, env):
        eng = I.eng
        f = StreamVal(eng.fresh_array("out.data"), 0, 0)
        digest = C.Bytes().fresh(eng, "digest", I)
        opt = C.Bytes().fresh(eng, "optionsDigest", I)
        eng.assume(compare("==", digest.length, 64))
        eng.assume(compare("==", opt.length, 8))
        path = PObj("Path", tag="path")
        path.fields.update(suffix=".snet", with_suffix=BuiltinFn("with_suffix", lambda e: path))
        c = I.registry.contracts[f"{NET}.dumpPickle"]
        lib = libs(I, files={"wb": f})
        lib["pathlib"] = NativeModule("pathlib", {"Path": BuiltinFn("Path", lambda p: p)})
        c.env.update(lib)
        self = PObj(_network_cls(), tag="network")
        env.vars.update(self=self, path=path, digest=digest, optionsDigest=opt, _f=f)

    def post_dp(I, env, outcome):
        eng = I.eng
        n = "roads.Network.dumpPickle"
        if outcome[0] != "return":
            eng.check(f"{n}#no_exception", False, detail=_exc_name(outcome[1]))
            return
        f = env.vars["_f"]
        cls = env.vars["self"].cls
        version = I.run_function(I.find_method(cls, "_currentFormatVersion"), [cls], {}, None)
        D = f.data
        eng.check(f"{n}#header.version_field_first", z3.And(tonum(f.length) >= 76, _u32(D, 0) == tonum(version)))
        eng.check(f"{n}#header.map_digest_at_4", _eq_at(D, 4, env.vars["digest"]))
        eng.check(f"{n}#header.options_digest_at_68", _eq_at(D, 68, env.vars["optionsDigest"]))
        eng.check(f"{n}#header.is_76_bytes_then_the_compressed_pickle", tonum(f.length) == 76)

    reg.add(
        C.Contract(
            f"{NET}.dumpPickle",
            params=dict(self=C.Const(None), path=C.Const(None), digest=C.Const(None), optionsDigest=C.Const(None)),
            setup=setup_dp,
            post=post_dp,
            inline=["Network._currentFormatVersion"],
            raises=[C.Raises("Exception", mode="may")],
            replay=replay_dump_pickle,
            note="the header written is exactly the one fromPickle accepts for the same digests (same layout predicate in both contracts)",
            properties=("C20",),
        )
    )

    # ================================================================================ fromFile
    class Trace:
        pass

    def setup_ff(I, env):
        eng = I.eng
        ext = ["", ".xodr", ".snet", ".osm"][eng.choose(4, "extension given")]
        tr = Trace()
        tr.log = []
        tr.exists = {}

        def mkpath(name, suffix):
            p = PObj("Path", tag=f"{name}{suffix}")
            p.fields["suffix"] = suffix
            p.fields["with_suffix"] = BuiltinFn("with_suffix", lambda e: mkpath(name, e))
            p.fields["exists"] = BuiltinFn("exists", lambda: exists(name + suffix))
            p.fields["_str"] = name + suffix
            return p

        def exists(key):
            if key not in tr.exists:
                tr.exists[key] = eng.choose(2, f"{key} exists?") == 1
            return tr.exists[key]

        path = mkpath("map", ext)
        data = Opaque("map file contents")
        digest = Opaque("blake2b(map file contents)")
        optd = Opaque("deterministicHash(options)")
        cached = PObj("Network", tag="network from the cache")
        parsed = PObj("Network", tag="network parsed from the map")
        parsed.fields["dumpPickle"] = BuiltinFn("dumpPickle", lambda p, d, optionsDigest=None: tr.log.append(("dump", p.fields["_str"], d, optionsDigest)))

        def from_pickle(I_, cls, p, originalDigest=None, optionsDigest=None):
            tr.log.append(("fromPickle", p.fields["_str"], originalDigest, optionsDigest))
            # its contract (proved above): returns only if the header matches the expected digests; otherwise
            # UnpicklingError / DigestMismatchError
            # (a DigestMismatchError needs an expected digest)
            k = eng.choose(3 if (originalDigest is not None or optionsDigest is not None) else 2, "cache file: matches / old-or-corrupt / other map or options")
            tr.cache_state = ["matches", "unpickling error", "digest mismatch"][k]
            if k == 1:
                raise SymRaise(PExc(UnpicklingError, ("corrupted",)))
            if k == 2:
                raise SymRaise(PExc(DigestMismatchError, ("mismatch",)))
            return cached

        def from_opendrive(I_, cls, p, **kw):
            tr.log.append(("parse", p.fields["_str"], dict(kw)))
            return parsed

        def det_hash(I_, mapping, digest_size=8):
            tr.log.append(("hash options", mapping, digest_size))
            return optd

        reg.models[f"{NET}.fromPickle"] = from_pickle
        reg.models[f"{NET}.fromOpenDrive"] = from_opendrive
        reg.models[f"{SER}:deterministicHash"] = det_hash
        hasher = PObj("blake2b")
        hasher.fields["digest"] = BuiltinFn("digest", lambda: digest)
        f = PObj("file")
        f.fields["read"] = BuiltinFn("read", lambda: data)
        lib = libs(I, files={"rb": f})
        lib["pathlib"] = NativeModule("pathlib", {"Path": BuiltinFn("Path", lambda p: p)})
        lib["hashlib"] = NativeModule("hashlib", {"blake2b": BuiltinFn("blake2b", lambda d: (tr.log.append(("digest of", d)), hasher)[1])})
        c = I.registry.contracts[f"{NET}.fromFile"]
        c.env.update(lib)
        use, write = eng.fresh_bool("useCache"), eng.fresh_bool("writeCache")
        option = Opaque("option value")
        env.vars.update(cls=_network_cls(), path=path, useCache=use, writeCache=write, tolerance=option, _tr=tr, _ext=ext, _cached=cached, _parsed=parsed, _digest=digest, _optd=optd, _data=data, _option=option)
        eng.input_syms.append(("ext", C.Const(None), ext))

    def post_ff(I, env, outcome):
        eng = I.eng
        n = "roads.Network.fromFile"
        tr, ext = env.vars["_tr"], env.vars["_ext"]
        cached, parsed, digest, optd = env.vars["_cached"], env.vars["_parsed"], env.vars["_digest"], env.vars["_optd"]
        use, write = env.vars["useCache"], env.vars["writeCache"]
        log = tr.log
        fp = [e for e in log if e[0] == "fromPickle"]
        parses = [e for e in log if e[0] == "parse"]
        dumps = [e for e in log if e[0] == "dump"]
        if outcome[0] == "raise":
            name = _exc_name(outcome[1])
            none_found = ext == "" and not any(tr.exists.values())
            eng.check(f"{n}#raises.FileNotFoundError_iff_no_map_found", (name == "FileNotFoundError") == none_found, detail=name)
            eng.check(f"{n}#raises.ValueError_iff_unknown_extension", (name == "ValueError") == (ext == ".osm"), detail=name)
            direct = ext == ".snet" or (ext == "" and not tr.exists.get("map.xodr") and tr.exists.get("map.snet"))
            # with no original map the cache file is all there is: its own error is reported
            eng.check(f"{n}#raises.nothing_else", name in ("FileNotFoundError", "ValueError") or (direct and name == "UnpicklingError"), detail=name)
            return
        r = outcome[1]
        direct = ext == ".snet" or (ext == "" and not tr.exists.get("map.xodr") and tr.exists.get("map.snet"))
        if direct:
            eng.check(f"{n}#cache_only.returned_as_is", r is cached and len(fp) == 1 and fp[0][2] is None and fp[0][3] is None and not parses)
            return
        # an original map exists: its digest and the digest of the options decide
        eng.check(f"{n}#digests.map_digest_is_of_the_file_read", ("digest of", env.vars["_data"]) in [(e[0], e[1]) for e in log if e[0] == "digest of"])
        hashes = [e for e in log if e[0] == "hash options"]
        okh = len(hashes) == 1 and isinstance(hashes[0][1], PDict) and hashes[0][1].keys == ["tolerance"] and hashes[0][1].vals[0] is env.vars["_option"] and hashes[0][2] == 8
        eng.check(f"{n}#digests.options_digest_is_of_all_the_given_options", okh)
        if r is cached:
            ok = len(fp) == 1 and fp[0][1] == "map.snet" and fp[0][2] is digest and fp[0][3] is optd and tr.exists.get("map.snet") is True and not parses and not dumps
            eng.check(f"{n}#cache_used_only_if.enabled_present_and_accepted_for_these_digests", z3.And(tobool(use), z3.BoolVal(ok)))
            return
        eng.check(f"{n}#otherwise.the_map_is_parsed_with_the_given_options", r is parsed and len(parses) == 1 and parses[0][1] == "map.xodr" and list(parses[0][2].keys()) == ["tolerance"] and parses[0][2]["tolerance"] is env.vars["_option"])
        # the cache was consulted with the right digests whenever it was allowed and present
        if fp:
            eng.check(f"{n}#cache_consulted_with_the_current_digests", len(fp) == 1 and fp[0][2] is digest and fp[0][3] is optd)
            eng.check(f"{n}#rejected_cache_is_ignored_not_fatal", getattr(tr, "cache_state", None) in ("unpickling error", "digest mismatch"))
        else:
            eng.check(f"{n}#cache_skipped_only_if_disabled_or_absent", z3.Or(z3.Not(tobool(use)), z3.BoolVal(not tr.exists.get("map.snet", False))))
        eng.check(f"{n}#useCache_False_never_reads_the_cache", z3.Or(tobool(use), z3.BoolVal(not fp)))
        eng.check(f"{n}#writeCache_False_never_writes_a_cache", z3.Or(tobool(write), z3.BoolVal(not dumps)))
        okd = len(dumps) == 1 and dumps[0][1] == "map.snet" and dumps[0][2] is digest and dumps[0][3] is optd
        eng.check(f"{n}#new_cache_written_with_the_current_digests_iff_requested", z3.If(tobool(write), z3.BoolVal(okd), z3.BoolVal(not dumps)))

    reg.add(
        C.Contract(
            f"{NET}.fromFile",
            params=dict(cls=C.Const(None), path=C.Const(None), useCache=C.Const(None), writeCache=C.Const(None)),
            kwargs={"tolerance": None},
            setup=setup_ff,
            post=post_ff,
            raises=[C.Raises("Exception", mode="may")],
            replay=replay_from_file,
            note="fromPickle at the call site = its proved contract (returns only for a matching header, else UnpicklingError / DigestMismatchError); parsing and hashing are abstract tokens",
            properties=("C20",),
        )
    )

    # ================================================================================ deterministicHash
    KINDS = ["int", "float", "bool", "str", "other"]
    VALUES = [("int", 20), ("int", 0), ("float", 0.05), ("bool", False), ("str", "x"), ("str", ""), ("other", None)]

    def setup_dh(I, env):
        eng = I.eng
        n = eng.choose(4, "number of options")
        names = ["fill_gaps", "ref_points", "tolerance"][:n]
        perm = list(itertools.permutations(range(n)))
        order = perm[eng.choose(len(perm), "insertion order")]
        picks = [VALUES[eng.choose(len(VALUES), f"value of option {i}")] for i in range(n)]
        kinds = [k for k, _ in picks]
        vals = [v for _, v in picks]  # real Python values, the falsy ones of each type included
        m = PDict([(names[i], vals[i]) for i in order])
        log = []
        hasher = PObj("blake2b")
        hasher.fields["update"] = BuiltinFn("update", lambda b: log.append(b))
        hasher.fields["digest"] = BuiltinFn("digest", lambda: Opaque("digest"))
        c = I.registry.contracts[f"{SER}:deterministicHash[separators]"]

        def str_(x=""):
            # str(x).encode(): the text of a key or value (abstract, NUL-free for the supported types)
            t = PObj("str", tag=f"str({x!r})")
            t.fields["encode"] = BuiltinFn("encode", lambda *a: ("text", x))
            return t

        strfn = BuiltinFn("str", str_)
        strfn.pytype = str  # still the type `str` for isinstance
        c.env.update({"hashlib": NativeModule("hashlib", {"blake2b": BuiltinFn("blake2b", lambda digest_size=64: hasher)}), "str": strfn, "sorted": BuiltinFn("sorted", lambda it, key=None: PList(sorted(I.iterate(it))))})
        env.vars.update(mapping=m, digest_size=8, _log=log, _names=names, _vals=vals, _kinds=kinds)
        eng.input_syms.append(("options", C.Const(None), [f"{names[i]}={vals[i]!r}" for i in order]))

    def post_dh(I, env, outcome):
        eng = I.eng
        n = "serialization.deterministicHash"
        if outcome[0] != "return":
            eng.check(f"{n}#no_exception", False, detail=_exc_name(outcome[1]))
            return
        names, vals, kinds, log = env.vars["_names"], env.vars["_vals"], env.vars["_kinds"], env.vars["_log"]
        want = []
        for i, nm in enumerate(sorted(names)):
            j = names.index(nm)
            want += [b"\0K", ("text", nm), b"\0V", ("text", vals[j]) if kinds[j] != "other" else b"\0"]
        same = len(log) == len(want) and all((a == b) if isinstance(b, bytes) else (isinstance(a, tuple) and a[0] == "text" and type(a[1]) is type(b[1]) and a[1] == b[1]) for a, b in zip(log, want))
        # the stream fed to the hasher is  (NUL K key NUL V value)*  over the keys sorted by their text, whatever the insertion order
        eng.check(f"{n}#stream.is_the_separator_encoding_of_the_options_sorted_by_key", same, detail=f"{log!r}")

    def lemmas_dh(I, env, outcome):
        """The separator scheme is injective on NUL-free texts: pure byte-sequence obligations (no code involved)."""
        eng = I.eng
        n = "serialization.deterministicHash"
        if env.vars["_names"]:
            return  # stated once (on the empty-mapping path)
        A = z3.Array("textA", z3.IntSort(), z3.IntSort())
        B = z3.Array("textB", z3.IntSort(), z3.IntSort())
        C1 = z3.Array("restA", z3.IntSort(), z3.IntSort())
        C2 = z3.Array("restB", z3.IntSort(), z3.IntSort())
        la, lb, l1, l2 = z3.Ints("lenA lenB lenRestA lenRestB")
        i = z3.Int("i!lem")
        nulfree = lambda X, l: z3.ForAll([i], z3.Implies(z3.And(i >= 0, i < l), z3.And(z3.Select(X, i) >= 1, z3.Select(X, i) <= 255)))
        S1 = lambda k: z3.If(k < la, z3.Select(A, k), z3.Select(C1, k - la))
        S2 = lambda k: z3.If(k < lb, z3.Select(B, k), z3.Select(C2, k - lb))
        hyp = [la >= 0, lb >= 0, l1 >= 0, l2 >= 0, nulfree(A, la), nulfree(B, lb), z3.Implies(l1 > 0, z3.Select(C1, 0) == 0), z3.Implies(l2 > 0, z3.Select(C2, 0) == 0)]
        # the two streams are equal: same length and (instances of) pointwise equality
        eq = [la + l1 == lb + l2, z3.Implies(la < la + l1, S1(la) == S2(la)), z3.Implies(lb < lb + l2, S1(lb) == S2(lb)), z3.ForAll([i], z3.Implies(z3.And(i >= 0, i < la + l1), S1(i) == S2(i)))]
        for h in hyp + eq:
            eng.assume(h)
        # value text followed by end-of-stream or the next NUL separator: equal streams force equal texts
        eng.check(f"{n}#separators.equal_streams_have_equal_value_texts.length", la == lb)
        eng.check(f"{n}#separators.equal_streams_have_equal_value_texts.bytes", z3.ForAll([i], z3.Implies(z3.And(i >= 0, i < la), z3.Select(A, i) == z3.Select(B, i))))

    def post_both(I, env, outcome):
        post_dh(I, env, outcome)
        lemmas_dh(I, env, outcome)

    reg.add(
        C.Contract(
            f"{SER}:deterministicHash",
            params=dict(mapping=C.Const(None), digest_size=C.Const(None)),
            setup=setup_dh,
            post=post_both,
            raises=[C.Raises("Exception", mode="may")],
            replay=replay_hash,
            note="mappings of up to 3 options, every insertion order, every combination of value types (int/float/bool/str/other); str() of a key or supported value is an abstract NUL-free text "
            "(domain: option values are int/float/bool or str without NUL, one type per option; str() injective on each type). The lemma: a NUL-free text followed by end-of-stream or a NUL separator is "
            "determined by the stream, so options differing in one value text give different pre-images (blake2b collision-freeness then gives different digests).",
            properties=("C20", "C18"),
        ),
        key=f"{SER}:deterministicHash[separators]",
    )


    # ================================================================================ deterministicHash, any number of options
    # loop invariant over a symbolic-length sorted key list: after i keys the stream fed to the hasher is
    #   (NUL K text(key_j) NUL V (text(value_j) | NUL))  for j < i
    K_, V_, PH_ = -1, -2, -3
    KT = z3.Function("key_text", z3.IntSort(), z3.IntSort())
    VT = z3.Function("value_text", z3.IntSort(), z3.IntSort())
    SUP = z3.Function("value_is_int_float_or_str", z3.IntSort(), z3.BoolSort())
    VALF = z3.Function("value_code", z3.IntSort(), z3.IntSort())  # an arbitrary value: its truthiness is `code != 0`

    def value_index(x):
        if isinstance(x, SV) and z3.is_app(x.e) and x.e.decl().name() == "value_code":
            return SV(x.e.arg(0))
        return None

    def shape(log, upto):
        j = z3.Int("j!dh")
        return z3.ForAll(
            [j],
            z3.Implies(
                z3.And(j >= 0, j < upto),
                z3.And(z3.Select(log, 4 * j) == K_, z3.Select(log, 4 * j + 1) == KT(j), z3.Select(log, 4 * j + 2) == V_, z3.Select(log, 4 * j + 3) == z3.If(SUP(j), VT(j), PH_)),
            ),
        )

    class ArrT(C.Type):
        def fresh(self, eng, name, I=None):
            return eng.fresh_array(name)

    def setup_dhn(I, env):
        eng = I.eng
        keys = C.ObjSeq("option key", {}, kind="list").fresh(eng, "sorted_keys", I)
        hasher = PObj("blake2b", tag="hasher")
        hasher.fields["n"] = 0
        hasher.fields["log"] = eng.fresh_array("stream")

        def code(b):
            if isinstance(b, bytes):
                return {b"\0K": K_, b"\0V": V_, b"\0": PH_}.get(b)
            if isinstance(b, tuple) and b[0] == "keytext":
                return KT(tonum(b[1]))
            if isinstance(b, tuple) and b[0] == "valtext":
                return VT(tonum(b[1]))
            return None

        def update(b):
            c_ = code(b)
            if c_ is None:
                raise PyvcError(f"hasher.update with unexpected data {b!r}")
            n = hasher.fields["n"]
            hasher.fields["log"] = z3.Store(hasher.fields["log"], tonum(n), c_)
            hasher.fields["n"] = n + 1 if isinstance(n, int) else SV(tonum(n) + 1)

        hasher.fields["update"] = BuiltinFn("update", update)
        hasher.fields["digest"] = BuiltinFn("digest", lambda: Opaque("digest"))
        mapping = PObj("Mapping", tag="options")
        mapping.fields["keys"] = BuiltinFn("keys", lambda: Opaque("key view"))

        def index_of(key):
            ident = getattr(key, "ident", None)
            if ident is None:
                raise PyvcError("a key that is not an element of the sorted key list")
            return ident[1]

        def str_(x=""):
            t = PObj("str")
            if value_index(x) is not None:
                t.fields["encode"] = BuiltinFn("encode", lambda *a: ("valtext", value_index(x)))
            else:
                t.fields["encode"] = BuiltinFn("encode", lambda *a: ("keytext", index_of(x)))
            return t

        strfn = BuiltinFn("str", str_)
        strfn.pytype = str

        def getitem(I_, obj, idx):
            if obj is mapping:
                return SV(VALF(tonum(index_of(idx))))  # any value, falsy ones included
            raise PyvcError(f"subscript of {obj!r} not modelled")

        I.registry.getitem_fallback = getitem

        def isinstance_(x, cls):
            if value_index(x) is not None:
                return SV(SUP(tonum(value_index(x))))
            raise PyvcError("isinstance on an unexpected value")

        c = I.registry.contracts[f"{SER}:deterministicHash[any-number-of-options]"]
        c.env.update(
            {
                "hashlib": NativeModule("hashlib", {"blake2b": BuiltinFn("blake2b", lambda digest_size=64: hasher)}),
                "str": strfn,
                "isinstance": BuiltinFn("isinstance", isinstance_),
                "sorted": BuiltinFn("sorted", lambda it, key=None: keys),
            }
        )
        env.vars.update(mapping=mapping, digest_size=8, _hasher=hasher, _keys=keys)

    def inv_stream(ctx):
        h = ctx.env.lookup("hasher")
        i = ctx.env.lookup("_i")
        return SV(z3.And(tonum(h.fields["n"]) == 4 * tonum(i), shape(h.fields["log"], tonum(i))))

    def post_dhn(I, env, outcome):
        eng = I.eng
        n = "serialization.deterministicHash"
        if outcome[0] != "return":
            eng.check(f"{n}#any_number_of_options.no_exception", False, detail=_exc_name(outcome[1]))
            return
        h, keys = env.vars["_hasher"], env.vars["_keys"]
        N = tonum(keys.length)
        eng.check(f"{n}#any_number_of_options.stream_has_four_items_per_option", tonum(h.fields["n"]) == 4 * N)
        eng.check(f"{n}#any_number_of_options.stream_is_the_separator_encoding_of_all_options_in_sorted_order", shape(h.fields["log"], N))

    reg.add(
        C.Contract(
            f"{SER}:deterministicHash",
            params=dict(mapping=C.Const(None), digest_size=C.Const(None)),
            setup=setup_dhn,
            post=post_dhn,
            loops={1: dict(invariants={"stream_so_far_is_the_encoding_of_the_keys_done": inv_stream}, modifies={"hasher.n": C.Int(), "hasher.log": ArrT(), "value": None})},
            raises=[C.Raises("Exception", mode="may")],
            replay=replay_hash,
            note="symbolic number of options: `sorted(mapping.keys(), key=str)` is an abstract list of symbolic length (trusted: it is the keys sorted by their text, independent of the insertion order -- "
            "the call itself is checked concretely by the [separators] contract); texts are uninterpreted functions of the position, support of a value type a symbolic predicate",
            properties=("C20", "C18"),
        ),
        key=f"{SER}:deterministicHash[any-number-of-options]",
    )

    # ================================================================================ findPointIn
    # "corner": farther than the tolerance but inside the axis-parallel square of half-width tolerance around the point
    STATES = ["none", "near", "exact", "corner"]
    ORDERS = [[0, 1, 2], [2, 0, 1], [1, 2], [2], []]

    def setup_fpi(I, env):
        eng = I.eng
        states = [STATES[eng.choose(4, f"element {i}: misses / within tolerance / contains the point / only inside the bounding square")] for i in range(3)]
        order = ORDERS[eng.choose(len(ORDERS), "priority list")]
        tolpos = eng.choose(2, "tolerance > 0?") == 1
        reject = [False, True, "message"][eng.choose(3, "reject")]
        tol = eng.fresh_real("tolerance")
        eng.assume(compare(">", tol, 0) if tolpos else compare("==", tol, 0))
        elems = []
        for i in range(3):
            e = PObj("NetworkElement", tag=f"e{i}")
            e.fields.update(uid=f"e{i}", polygons=Opaque(f"polygons{i}"))
            elems.append(e)
        queries = []

        class Geom:
            def __init__(self, d):
                self.d = d

        pt = PObj("shapely Point", tag="point")
        px, py = eng.fresh_real("point.x"), eng.fresh_real("point.y")
        pt.fields.update(x=px, y=py)
        pt.fields["buffer"] = BuiltinFn("buffer", lambda d: ("buffered", d))

        def query(target, predicate=None):
            queries.append((target, predicate))
            if target is pt:
                return PList([i for i in range(3) if states[i] == "exact"])
            if isinstance(target, tuple) and target[0] == "buffered":
                return PList([i for i in range(3) if states[i] in ("exact", "near")])
            if isinstance(target, tuple) and target[0] == "box":
                # an axis-parallel box around the point: contains the disc inscribed in it and reaches into its corners
                return PList([i for i in range(3) if states[i] in ("exact", "near", "corner")])
            raise PyvcError("query with an unexpected geometry")

        rtree = PObj("STRtree")
        rtree.fields["query"] = BuiltinFn("query", query)
        self = PObj(_network_cls(), tag="network")
        self.fields.update(tolerance=tol, _rtree=rtree, _uidForIndex=tuple(e.fields["uid"] for e in elems))
        c = I.registry.contracts[f"{NET}.findPointIn"]
        c.env.update({"shapely": NativeModule("shapely", {"geometry": NativeModule("shapely.geometry", {"Point": BuiltinFn("Point", lambda v: pt), "box": BuiltinFn("box", lambda *a: ("box",) + tuple(a))}), "box": BuiltinFn("box", lambda *a: ("box",) + tuple(a))}), "_toVector": BuiltinFn("_toVector", lambda p: p)})
        env.vars.update(self=self, point=Opaque("point"), elems=PList([elems[i] for i in order]), reject=reject, _elems=elems, _states=states, _order=order, _tolpos=tolpos, _queries=queries, _tol=tol)
        eng.input_syms.append(("states", C.Const(None), states))
        eng.input_syms.append(("elems", C.Const(None), order))
        eng.input_syms.append(("tolerance", C.Const(None), tolpos))
        eng.input_syms.append(("reject", C.Const(None), reject))

    def post_fpi(I, env, outcome):
        eng = I.eng
        n = "roads.Network.findPointIn"
        elems, states, order, tolpos, reject = env.vars["_elems"], env.vars["_states"], env.vars["_order"], env.vars["_tolpos"], env.vars["reject"]
        exact = [elems[i] for i in order if states[i] == "exact"]
        near = [elems[i] for i in order if states[i] in ("exact", "near")]
        want = exact[0] if exact else (near[0] if near and tolpos else None)
        qs = env.vars["_queries"]
        eng.check(f"{n}#rtree_queries_use_the_intersects_predicate", all(p == "intersects" for _, p in qs))
        buffered = [t for t, _ in qs if isinstance(t, tuple)]
        eng.check(f"{n}#tolerance_pass_buffers_by_exactly_the_tolerance", all(t[0] == "buffered" and t[1] is env.vars["_tol"] for t in buffered), detail=f"query geometry {[t[0] for t in buffered]}")
        if outcome[0] == "raise":
            name = _exc_name(outcome[1])
            eng.check(f"{n}#rejects_only_when_asked_and_nothing_matches", name == "RejectionException" and want is None and bool(reject), detail=name)
            return
        r = outcome[1]
        eng.check(f"{n}#no_match_with_reject_rejects_the_sample", not (want is None and reject))
        if exact:
            eng.check(f"{n}#first_pass.first_element_in_priority_order_containing_the_point", r is exact[0])
        elif near and tolpos:
            eng.check(f"{n}#second_pass.first_element_in_priority_order_within_tolerance", r is near[0])
        else:
            eng.check(f"{n}#no_element_within_tolerance_gives_None", r is None)
        if r is not None:
            k = elems.index(r)
            eng.check(f"{n}#result_is_one_of_the_given_elements_and_within_tolerance_of_the_point", k in order and states[k] in (("exact", "near") if tolpos else ("exact",)))

    reg.add(
        C.Contract(
            f"{NET}.findPointIn",
            params=dict(self=C.Const(None), point=C.Const(None), elems=C.Const(None), reject=C.Const(None)),
            setup=setup_fpi,
            post=post_fpi,
            raises=[C.Raises("Exception", mode="may")],
            replay=replay_find_point,
            note="three indexed elements, each missing / within tolerance / containing the point; five priority lists (orderings and sub-lists); the R-tree answers exactly",
            properties=("C20",),
        )
    )

    # ================================================================================ _findPointInAll
    def setup_all(I, env):
        eng = I.eng
        tol = eng.fresh_real("tolerance")
        eng.assume(compare(">=", tol, 0))
        things = []
        for i in range(3):
            t = PObj("Region", tag=f"t{i}")
            inside = eng.fresh_bool(f"contains{i}")
            dist = eng.fresh_real(f"distance{i}")
            eng.assume(compare(">=", dist, 0))
            eng.assume(z3.Implies(tobool(inside), tobool(compare("==", dist, 0))))
            t.fields.update(containsPoint=BuiltinFn("containsPoint", lambda p, inside=inside: inside), distanceTo=BuiltinFn("distanceTo", lambda p, dist=dist: dist))
            t.inside, t.dist = inside, dist
            things.append(t)
        self = PObj(_network_cls(), tag="network")
        self.fields["tolerance"] = tol
        c = I.registry.contracts[f"{NET}._findPointInAll"]
        c.env.update({"_toVector": BuiltinFn("_toVector", lambda p: p)})
        env.vars.update(self=self, point=Opaque("point"), things=PList(things), _things=things, _tol=tol)
        eng.input_syms.append(("tolerance", C.Real(), tol))

    def post_all(I, env, outcome):
        eng = I.eng
        n = "roads.Network._findPointInAll"
        if outcome[0] != "return":
            eng.check(f"{n}#no_exception", False, detail=_exc_name(outcome[1]))
            return
        found = as_list(outcome[1])
        things, tol = env.vars["_things"], env.vars["_tol"]
        any_inside = z3.Or(*[tobool(t.inside) for t in things])
        for i, t in enumerate(things):
            member = any(f is t for f in found)
            within = tobool(compare("<=", t.dist, tol))
            want = z3.If(any_inside, tobool(t.inside), z3.And(tonum(tol) > 0, within))
            eng.check(f"{n}#exact_matches_else_all_within_tolerance.element{i}", z3.BoolVal(member) == want)
        pos = [next(k for k, t in enumerate(things) if t is f) for f in found]
        eng.check(f"{n}#results_in_the_given_order_without_duplicates", pos == sorted(set(pos)))

    reg.add(
        C.Contract(
            f"{NET}._findPointInAll",
            params=dict(self=C.Const(None), point=C.Const(None), things=C.Const(None)),
            setup=setup_all,
            post=post_all,
            raises=[C.Raises("Exception", mode="may")],
            replay=replay_find_all,
            note="three candidate regions with symbolic containment / distance (containment implies distance 0)",
            properties=("C20",),
        )
    )

    # ================================================================================ the *At wrappers
    WRAPPERS = {
        "elementAt": "_topLevelElements",
        "roadAt": "allRoads",
        "laneAt": "lanes",
        "intersectionAt": "intersections",
        "sidewalkAt": "sidewalks",
        "shoulderAt": "shoulders",
        "nominalDirectionsAt": "_nominalDirElems",
    }

    def mk_wrapper(fn, attr):
        key = f"{NET}.{fn}"

        def setup(I, env):
            eng = I.eng
            self = PObj(_network_cls(), tag="network")
            lists = {a: PList([Opaque(f"{a}[0]")]) for a in set(WRAPPERS.values())}
            self.fields.update(lists)
            calls = []
            found = PObj("NetworkElement", tag="found element")
            found.fields["nominalDirectionsAt"] = BuiltinFn("nominalDirectionsAt", lambda p: ("directions at", p))
            hit = eng.choose(2, "lookup finds an element?") == 1

            def find(point, elems, reject):
                calls.append((point, elems, reject))
                return found if hit else None

            self.fields["findPointIn"] = BuiltinFn("findPointIn", find)
            reject = [False, True][eng.choose(2, "reject")]
            pt = Opaque("point")
            I.registry.contracts[key].env.update({"_toVector": BuiltinFn("_toVector", lambda p: p)})
            env.vars.update(self=self, point=pt, reject=reject, _calls=calls, _lists=lists, _found=found, _hit=hit)

        def post(I, env, outcome):
            eng = I.eng
            n = f"roads.Network.{fn}"
            if outcome[0] != "return":
                eng.check(f"{n}#no_exception", False, detail=_exc_name(outcome[1]))
                return
            calls = env.vars["_calls"]
            ok = len(calls) == 1 and calls[0][0] is env.vars["point"] and calls[0][1] is env.vars["_lists"][attr] and calls[0][2] is env.vars["reject"]
            eng.check(f"{n}#one_lookup_over_{attr}_with_the_given_point_and_reject_flag", ok)
            r = outcome[1]
            if fn == "nominalDirectionsAt":
                eng.check(f"{n}#directions_of_the_found_element_else_empty", (r == ("directions at", env.vars["point"])) if env.vars["_hit"] else (r == ()))
            else:
                eng.check(f"{n}#returns_what_the_lookup_found", r is (env.vars["_found"] if env.vars["_hit"] else None))

        reg.add(C.Contract(key, params=dict(self=C.Const(None), point=C.Const(None), reject=C.Const(None)), setup=setup, post=post, raises=[C.Raises("Exception", mode="may")], properties=("C20",)))

    for fn, attr in WRAPPERS.items():
        mk_wrapper(fn, attr)

    # ---- the priority lists themselves: the statements of Network.__init__ that build them, evaluated on token lists
    def setup_prio(I, env):
        self = PObj(_network_cls(), tag="network")
        for a in ("intersections", "roads", "shoulders", "sidewalks", "connectingRoads"):
            self.fields[a] = (Opaque(f"{a}[0]"), Opaque(f"{a}[1]"))
        env.vars.update(cls=_network_cls(), _self=self)

    def post_prio(I, env, outcome):
        from pyvc.interp import Env

        eng = I.eng
        self = env.vars["_self"]
        init = next(b for b in extract.get_module(ROADS).top["Network"].body if isinstance(b, ast.FunctionDef) and b.name == "__attrs_post_init__")
        found = {}
        for st in ast.walk(init):
            if isinstance(st, ast.Assign) and len(st.targets) == 1 and isinstance(st.targets[0], ast.Attribute) and isinstance(st.targets[0].value, ast.Name) and st.targets[0].value.id == "self" and st.targets[0].attr in ("_topLevelElements", "_nominalDirElems"):
                found[st.targets[0].attr] = I.eval(st.value, Env(extract.get_module(ROADS), None, {"self": self}))
        f = self.fields
        eng.check("roads.Network.__attrs_post_init__#priority.elementAt_order_is_Intersection_Road_Shoulder_Sidewalk", found.get("_topLevelElements") == f["intersections"] + f["roads"] + f["shoulders"] + f["sidewalks"])
        eng.check("roads.Network.__attrs_post_init__#priority.nominal_direction_order_is_Intersection_Road_Shoulder", found.get("_nominalDirElems") == f["intersections"] + f["roads"] + f["shoulders"])

    reg.add(
        C.Contract(
            f"{NET}._currentFormatVersion",
            params=dict(cls=C.Const(None)),
            setup=setup_prio,
            post=post_prio,
            raises=[C.Raises("Exception", mode="may")],
            note="the two assignments of Network.__attrs_post_init__ that define the priority lists are evaluated on token tuples (the rest of the initialiser builds regions and is not reached)",
            properties=("C20",),
        ),
        key=f"{NET}._currentFormatVersion[priority-lists]",
    )
    from standins import road_networks

    road_networks.register(reg)
