"""C18: writer/reader alignment of sample encoding (Serializer.writeSample / readSample with the
serializeValue / deserializeValue methods of Samplable, Distribution and MultiplexerDistribution).

Verified as a client lemma on a concrete dependency DAG with symbolic values (stated bound: the DAG shape):

    P1, P2, P3, P4   primitive distributions (value stored in the encoding)
    D  = f(P1, P2)   deterministic node (recomputed from its dependencies when decoding)
    M  = mux(index = P3 in {0, 1}; options = (P1, P4))   stores only index and the chosen branch
    C  conditioned to Cc = g(P4) (its own dependency list differs from the conditioned one)
    objects to encode: (C, D, M, P2, D)  -- shared and repeated nodes

The value codec is abstract here: writeValue appends a token, readValue consumes the next token (its
byte-level round trip is the subject of serialization.py).  All Serializer / Samplable / Distribution /
Multiplexer methods are the real code, interpreted in place."""
import z3

from pyvc import contracts as C
from pyvc.builtins_model import IdToken
from pyvc.interp import BuiltinFn
from pyvc.values import PDict, PList, PObj, PSet, SV, compare, sv_and, tobool, tonum

from .common import repo_class
from .distributions import identity_map

S = "scenic.core.serialization"
D = "scenic.core.distributions"

detf = z3.Function("det_value", z3.IntSort(), z3.IntSort(), z3.IntSort())


def register(reg):
    def num(I, x):
        """operand of a deterministic node: a decoded number (anything else means the dependency was not decoded)"""
        from pyvc.values import is_scalar

        if not is_scalar(x):
            I.raise_("TypeError", "dependency has no decoded value")
        return tonum(x)

    def node(cls, tag, deterministic, deps, **extra):
        o = PObj(repo_class(f"{D}:{cls}"), tag=tag)
        o.fields.update(_deterministic=deterministic, _dependencies=tuple(deps), _needsSampling=True, _isLazy=True, _valueType=("type", tag))
        o.fields["_conditioned"] = o
        o.fields.update(extra)
        return o

    def setup(I, env):
        eng = I.eng
        P = [node("Distribution", f"P{k}", False, ()) for k in range(1, 5)]
        P1, P2, P3, P4 = P
        Dn = node("Distribution", "D", True, (P1, P2))
        Dn.fields["sampleGiven"] = BuiltinFn("sampleGiven", lambda value, Dn=Dn: SV(detf(num(I, I.bm.get_item(I, value, P1)), num(I, I.bm.get_item(I, value, P2)))))
        M = node("MultiplexerDistribution", "M", True, (P3, P1, P4), index=P3, options=(P1, P4))
        v = {p.tag: eng.fresh_int(p.tag + ".value") for p in P}
        eng.assume(sv_and(compare(">=", v["P3"], 0), compare("<=", v["P3"], 1)))  # the selector's range
        for t, x in v.items():
            eng.input_syms.append((t, C.Int(), x))
        dval = SV(detf(tonum(v["P1"]), tonum(v["P2"])))
        values = identity_map(I, [(P1, v["P1"]), (P2, v["P2"]), (P3, v["P3"]), (P4, v["P4"]), (Dn, dval)])
        # M's sampled value is the value of the chosen option
        mval = v["P1"] if eng.branch(tobool(compare("==", v["P3"], 0))) else v["P4"]
        values.fields["storage"].set(IdToken(M), mval)
        # a node conditioned (by pruning / conditionOn) to an equivalent node with OTHER dependencies:
        # encoding and decoding must both follow the conditioned version
        C2 = node("Distribution", "Cc", True, (P4,))
        C2.fields["sampleGiven"] = BuiltinFn("sampleGiven", lambda value: SV(detf(num(I, I.bm.get_item(I, value, P4)), z3.IntVal(7))))
        Cn = node("Distribution", "C", True, (P2,))
        Cn.fields["_conditioned"] = C2
        Cn.fields["sampleGiven"] = BuiltinFn("sampleGiven", lambda value: I.raise_("AssertionError", "unconditioned node sampled"))
        cval = SV(detf(tonum(v["P4"]), z3.IntVal(7)))
        values.fields["storage"].set(IdToken(Cn), cval)
        objects = (Cn, Dn, M, P2, Dn)
        tokens = []

        def mk_serializer(tag):
            s = PObj(repo_class(f"{S}:Serializer"), tag=tag)
            s.fields["seenObjs"] = PSet()

            def writeValue(value, ty):
                tokens.append((value, ty))

            def readValue(ty):
                if not tokens:
                    I.raise_("IndexError", "read past the end of the encoding")
                value, wty = tokens.pop(0)
                mism.append(wty is not ty)
                return value

            s.fields["writeValue"] = BuiltinFn("writeValue", writeValue)
            s.fields["readValue"] = BuiltinFn("readValue", readValue)
            return s

        mism = []
        writer = mk_serializer("writer")
        wr = I.find_method(writer.cls, "writeSample")
        I.run_function(wr, [writer, objects, values], {}, env.vars["_contract"].inline_view())
        env.vars.update(self=mk_serializer("reader"), objects=objects, _values=values, _tokens=tokens, _mism=mism, _nodes=dict(P1=P1, P2=P2, P3=P3, P4=P4, D=Dn, M=M, C=Cn), _cval=cval, _v=v, _dval=dval, _mval=mval, _ntokens=len(tokens))

    def post(I, env, outcome):
        eng = I.eng
        name = "serialization.Serializer.readSample[after writeSample]"
        if outcome[0] != "return":
            return
        res = outcome[1]
        nodes, v = env.vars["_nodes"], env.vars["_v"]
        eng.check(f"{name}#ensures.every_written_token_is_consumed", len(env.vars["_tokens"]) == 0)
        eng.check(f"{name}#ensures.each_token_read_with_the_type_it_was_written_with", not any(env.vars["_mism"]))
        get = lambda n: I.bm.get_item(I, res, n)
        eng.check(f"{name}#ensures.deterministic_node_recomputed_from_decoded_dependencies", compare("==", get(nodes["D"]), env.vars["_dval"]))
        eng.check(f"{name}#ensures.conditioned_node_decoded_through_its_conditioned_version", compare("==", get(nodes["C"]), env.vars["_cval"]))
        eng.check(f"{name}#ensures.multiplexer_value_is_the_chosen_branch", compare("==", get(nodes["M"]), env.vars["_mval"]))
        eng.check(f"{name}#ensures.primitive_P2_restored", compare("==", get(nodes["P2"]), v["P2"]))
        eng.check(f"{name}#ensures.selector_restored", compare("==", get(nodes["P3"]), v["P3"]))
        # shared node P1 is stored once although D and M both depend on it
        eng.check(f"{name}#ensures.shared_nodes_encoded_once", env.vars["_ntokens"] <= 4)

    c = C.Contract(
        f"{S}:Serializer.readSample",
        params=dict(self=C.Const(None), objects=C.Const(None)),
        setup=lambda I, env: setup(I, env),
        post=post,
        inline_all=True,
        bounded=True,
        note="bounded: one concrete dependency DAG (4 primitives, a deterministic node, a multiplexer, shared/repeated nodes); values symbolic",
        raises=[C.Raises("IndexError", mode="may")],
        replay=replay_roundtrip,
        properties=("C18",),
    )
    _setup = c.setup

    def setup_with_contract(I, env):
        env.vars["_contract"] = c
        _setup(I, env)

    c.setup = setup_with_contract
    reg.add(c, key=f"{S}:Serializer.readSample[after writeSample]")


def replay_roundtrip(inputs, clause):
    """Real scenarios with shared nodes, deterministic nodes and multiplexers: encode, decode, compare."""
    import random

    import scenic
    from scenic.core import serialization as S

    progs = [
        "param q = Range(0, 10) + 3\nego = new Object with foo Range(0, 1) + globalParameters.q\n",
        "x = Range(0, 1)\nego = new Object with foo Uniform(x, 3 * x, 7), with bar x + Range(1, 2)\nother = new Object at (10, 10), with foo (x, ego.foo)\nparam p = Uniform('a', 'b', x)\n",
        "k = DiscreteRange(0, 5)\nego = new Object with foo Options({k: 1, k + 10: 2, 100: 3}), with bar k\n",
        "v = Uniform((1, 2), (3, 4), (5, 6))\nego = new Object at v, with foo Normal(0, 1), with bar Uniform(v, (7, 8))\n",
    ]
    variants = []
    for src in progs:
        variants.append((src, None))
    variants.append((progs[0], {"q": 8.25}))  # a scenario conditioned after compilation (Scenario.conditionOn)
    for src, cond in variants:
        sc = scenic.scenarioFromString(src, mode2D=True)
        if cond is not None:
            sc.conditionOn(params=cond)
            src = src + f" conditioned on params={cond}"
        for seed in range(6):
            random.seed(seed)
            scene, _ = sc.generate(maxIterations=200)
            data = sc.sceneToBytes(scene)
            try:
                back = sc.sceneFromBytes(data)
            except Exception as e:
                return f"decoding a freshly encoded scene failed with {type(e).__name__}: {e} (program {src!r}, seed {seed})"
            for a, b in zip(scene.objects, back.objects):
                for prop in sorted(a.properties):
                    va, vb = getattr(a, prop), getattr(b, prop)
                    if prop.startswith("_") or callable(va):
                        continue
                    try:
                        same = va == vb
                    except Exception:
                        continue
                    if same is False:
                        return f"property {prop} of an object changed from {va!r} to {vb!r} through encode/decode (program {src!r}, seed {seed})"
            if scene.params != back.params:
                return f"global parameters changed from {scene.params!r} to {back.params!r} through encode/decode (program {src!r}, seed {seed})"
    return None
