"""Sidecar contracts for the documented Python rewrites of the Scenic compiler (C09).

Oracle: the property statement and the language reference ("Builtin Names ... can be used but not overwritten", the
class-definition grammar): plain Python is compiled to the tree CPython would build except that
  * `ego`, `workspace`, `globalParameters` (read) become accessor calls,
  * `str`/`int`/`float` are renamed to their lifted versions IN CALL POSITION only,
  * star arguments are wrapped (`callWithStarArgs(f, ..., *wrapStarredValue(v, line))`),
  * a class without bases derives from `Object` and gains one `_scenic_properties` table,
and every produced node carries the line of the node it replaces.  Inputs are REAL `ast` nodes; the transformer's
recursive `visit`/`generic_visit` are an abstract child visitor V (identity on the node, logged; the function position
may also be replaced by a fresh node), so each contract is about ONE rewrite and the frame census closes the argument:
every other Python node class has no visit_X (or a hook proved transparent at top level), hence
ast.NodeTransformer.generic_visit (trusted stdlib) only rewrites children."""
import ast

from pyvc import contracts as C
from pyvc import extract
from pyvc.interp import BuiltinFn, ClassVal
from pyvc.models_fe import as_list, install_native_ast_isinstance, install_native_ast_setattr
from pyvc.values import PDict, PExc, PList, PObj, PSet, PyvcError

COMPILER = "scenic.syntax.compiler"
T = f"{COMPILER}:ScenicToPythonTransformer"
DOCUMENTED = ("Name", "Call", "ClassDef")
HOOKS = ("For", "While", "FunctionDef", "Break", "Continue", "Return", "Yield", "YieldFrom")
BEHAVIOR_ARG = "_Scenic_current_behavior"


def _lit(x):
    """counter-model inputs that are lists arrive as their repr"""
    if isinstance(x, str) and x[:1] in "[({":
        try:
            return ast.literal_eval(x)
        except (ValueError, SyntaxError):
            return x
    return x


def _exc_name(exc):
    return exc.cls.name if isinstance(exc.cls, ClassVal) else getattr(exc.cls, "__name__", str(exc.cls))


def _loc(node, line, col=0, end_line=None, end_col=None):
    node.lineno, node.col_offset = line, col
    node.end_lineno = line if end_line is None else end_line
    node.end_col_offset = col + 1 if end_col is None else end_col
    return node


def _name(id_, line=1, col=0, ctx=None):
    return _loc(ast.Name(id=id_, ctx=ctx or ast.Load()), line, col, line, col + len(id_))


def make_transformer(I, **flags):
    """A ScenicToPythonTransformer object with the abstract child visitor."""
    cls = ClassVal.get(COMPILER, extract.get_module(COMPILER).top["ScenicToPythonTransformer"])
    self = PObj(cls, tag="transformer")
    visited = []
    replaced = {}

    def V(node):
        visited.append(node)
        if isinstance(node, ast.Starred) and id(node.value) in replaced:
            node.value = replaced[id(node.value)]  # generic_visit rewrites the children of the node it is given, in place
        return replaced.get(id(node), node)

    self.fields.update(
        filename="<string>",
        requirements=PList([]),
        inBehavior=False,
        inMonitor=False,
        inCompose=False,
        inTryInterrupt=False,
        inInterruptBlock=False,
        inLoop=False,
        usedBreak=False,
        usedContinue=False,
        behaviorLocals=PSet([]),
        visit=BuiltinFn("visit", V),
        generic_visit=BuiltinFn("generic_visit", V),
    )
    self.fields.update(flags)
    self.visited, self.replaced = visited, replaced
    return self


def _pythonize_tree(node):
    """PList fields -> python lists (so that stdlib helpers can walk a produced tree)."""
    for f in getattr(node, "_fields", ()):
        v = getattr(node, f, None)
        if isinstance(v, PList):
            v = list(v.items)
            setattr(node, f, v)
        if isinstance(v, list):
            for x in v:
                if isinstance(x, ast.AST):
                    _pythonize_tree(x)
        elif isinstance(v, ast.AST):
            _pythonize_tree(v)
    return node


def _same_location(a, b):
    return all(getattr(a, k, None) == getattr(b, k, None) for k in ("lineno", "col_offset", "end_lineno", "end_col_offset"))


# ------------------------------------------------------------------------------------------------ replay drivers
def _real_compile(src, **flags):
    from standins.frontend_mutants import fast_imports

    fast_imports()
    from scenic.syntax.compiler import compileScenicAST
    from scenic.syntax.parser import parse_string

    tree, _ = compileScenicAST(parse_string(src, "exec"), **flags)
    return tree


def replay_name(inputs, clause):
    """Real parser + compiler on a one-line program using the name in the model's context."""
    from standins.python_corpus import first_difference

    id_, ctx = inputs.get("id"), inputs.get("ctx")
    if id_ is None or _lit(inputs.get("behaviorLocals")):
        return None
    src = {"Load": f"y = {id_}\nz = [1,\n     {id_}]\n", "Store": f"{id_} = 1\n", "Del": f"del {id_}\n"}[ctx]
    from scenic.core.errors import ScenicSyntaxError

    try:
        tree = _real_compile(src)
    except ScenicSyntaxError as e:
        if ctx != "Load" and id_ in ("ego", "workspace", "globalParameters", "str", "int", "float"):
            return None  # documented: built-in names cannot be overwritten
        return f"`{src.strip()}` is rejected: {getattr(e, 'msg', e)}"
    if ctx == "Store" and id_ in ("ego", "workspace"):
        return None  # `ego = X` / `workspace = X` are Scenic statements of their own (documented), not Python assignments
    d = first_difference(tree, ast.parse(src))
    return f"`{src.strip()}`: {d}" if d else None


def replay_call(inputs, clause):
    from standins.python_corpus import first_difference

    src = inputs.get("source")
    if not src or inputs.get("inBehavior"):
        return None
    if inputs.get("fresh_children"):
        # arguments whose visitor builds a new node without location: Scenic vector expressions
        import re

        from scenic.core.errors import ScenicSyntaxError

        head, _, rest = src.partition("(")
        src2 = head + "(" + re.sub(r"\b([a-z])\b(?!=)", r"(\1 @ 2)", rest)
        try:
            tree = _real_compile(src2)
        except ScenicSyntaxError:
            return None
        except Exception as e:
            return f"`{src2.strip()}`: compilation escapes with {type(e).__name__}: {e}"
        star_lines = [i + 1 for i, l in enumerate(src2.split("\n")) if "*(" in l]
        got = sorted(n.lineno for n in ast.walk(tree) if isinstance(n, ast.Starred))
        if src2.count("*") and got != sorted(star_lines) and len(src2.split("\n")) > 2:
            return f"`{src2.strip()}`: star arguments are on lines {sorted(star_lines)}, the compiled Starred nodes on lines {got}"
        return None
    tree = _real_compile(src)
    d = first_difference(tree, ast.parse(src))
    return f"`{src.strip()}`: {d}" if d else None


def replay_class(inputs, clause):
    from standins.python_corpus import first_difference

    src = inputs.get("source")
    if not src:
        return None
    tree = _real_compile(src)
    d = first_difference(tree, ast.parse(src))
    return f"`{src.strip()}`: {d}" if d else None


# ------------------------------------------------------------------------------------------------
def register(reg):
    install_native_ast_isinstance(reg)
    install_native_ast_setattr(reg)
    from contracts.frontend import preimport_scenic, scenic_ast

    preimport_scenic()
    reg.models["scenic.core.errors:getText"] = lambda I, *a, **k: (None, None, None)
    reg.trust("errors.getText", "stub: fetches the source line for display only")
    # Python semantics of module-level objects: created once, shared by every use (the engine would otherwise re-evaluate the
    # defining expression at each use and so hide aliasing between nodes produced from a module-level template)
    _cmod = extract.get_module(COMPILER)
    _memo = {}

    def _memoised(nm, node):
        def get(I):
            key = (id(I.eng), I.eng.paths_done, nm)
            if key not in _memo:
                if len(_memo) > 4000:
                    _memo.clear()
                _memo[key] = I._module_constant(_cmod, node, nm)
            return _memo[key]

        return get

    for _nm, _node in _cmod.top.items():
        if isinstance(_node, (ast.Assign, ast.AnnAssign)) and f"{COMPILER}:{_nm}" not in reg.global_overrides:
            reg.global_overrides[f"{COMPILER}:{_nm}"] = _memoised(_nm, _node)
    reg.trust("ast.NodeTransformer.generic_visit / NodeVisitor.visit", "stdlib: visit dispatches on the class name; generic_visit replaces each child by the result of visiting it and returns the node")
    reg.trust("abstract child visitor", "inside one rewrite the recursive self.visit/self.generic_visit is an arbitrary function of the child (identity, or a fresh node in function position), logged")

    # ---------------------------------------------------------------- visit_Name
    IDS = ["ego", "workspace", "globalParameters", "str", "int", "float", "x", "loc", "self", "Object"]
    CTX = [("Load", ast.Load), ("Store", ast.Store), ("Del", ast.Del)]
    TRACKED = ("ego", "workspace", "globalParameters")
    BUILTIN = ("str", "int", "float")

    def setup_name(I, env):
        eng = I.eng
        id_ = IDS[eng.choose(len(IDS), "identifier")]
        cname, cctx = CTX[eng.choose(3, "context")]
        locs = [[], ["loc"], ["loc", "x"]][eng.choose(3, "behavior locals")]
        node = _name(id_, 7, 4, cctx())
        self = make_transformer(I, behaviorLocals=PSet(list(locs)), inBehavior=bool(locs))
        env.vars.update(self=self, node=node, _id=id_, _ctx=cname, _locs=locs, _ctxobj=node.ctx)
        eng.input_syms.append(("id", C.Const(None), id_))
        eng.input_syms.append(("ctx", C.Const(None), cname))
        eng.input_syms.append(("behaviorLocals", C.Const(None), locs))

    def post_name(I, env, outcome):
        eng = I.eng
        n = "compiler.ScenicToPythonTransformer.visit_Name"
        id_, ctx, locs, node = env.vars["_id"], env.vars["_ctx"], env.vars["_locs"], env.vars["node"]
        if outcome[0] == "raise":
            exc = outcome[1]
            eng.check(f"{n}#raises.only_ScenicParseError", _exc_name(exc) == "ScenicParseError", detail=_exc_name(exc))
            # documented: the built-in names (and the tracked names) can be used but not overwritten
            eng.check(f"{n}#raises.only_for_overwriting_a_builtin_name", ctx != "Load" and id_ in TRACKED + BUILTIN, detail=f"{id_} in {ctx} context")
            eng.check(f"{n}#raises.located_at_the_name", exc.fields.get("lineno") == 7)
            return
        r = outcome[1]
        eng.check(f"{n}#overwriting_a_builtin_name_is_refused", not (ctx != "Load" and id_ in TRACKED + BUILTIN))
        if id_ in TRACKED:
            ok = isinstance(r, ast.Call) and isinstance(r.func, ast.Name) and r.func.id == id_ and isinstance(r.func.ctx, ast.Load) and as_list(r.args) == [] and as_list(r.keywords) == []
            eng.check(f"{n}#tracked_name_becomes_an_accessor_call", ok)
            eng.check(f"{n}#accessor_call_keeps_the_location", _same_location(r, node))
            import copy

            fx = ast.fix_missing_locations(_pythonize_tree(copy.copy(r))) if isinstance(r, ast.Call) else r
            eng.check(f"{n}#line_of_produced_node.Call_accessor", getattr(fx, "lineno", None) == 7 and getattr(fx, "end_lineno", None) == 7)
            eng.check(f"{n}#line_of_produced_node.Name_accessor_function", getattr(getattr(fx, "func", None), "lineno", None) == 7)
            # a second occurrence of the name (on another line) gets a node of its own: nodes are not shared between uses
            from pyvc.interp import FuncVal

            other = _name(id_, 9, 1, ast.Load())
            fn = I.find_method(env.vars["self"].cls, "visit_Name")
            try:
                r2 = I.run_function(fn, [env.vars["self"], other], {}, I.registry.contracts[f"{T}.visit_Name"])
            except Exception as e:  # SymRaise etc.
                r2 = e
            eng.check(f"{n}#every_occurrence_gets_its_own_accessor_call", isinstance(r2, ast.Call) and r2 is not r and getattr(r, "lineno", None) == 7 and getattr(r2, "lineno", None) == 9, detail=f"first call now on line {getattr(r, 'lineno', None)}, second on {getattr(r2, 'lineno', None)}")
        elif id_ in BUILTIN:
            eng.check(f"{n}#str_int_float_are_not_renamed_outside_call_position", r is node and node.id == id_)
        elif id_ in locs:
            ok = isinstance(r, ast.Attribute) and isinstance(r.value, ast.Name) and r.value.id == BEHAVIOR_ARG and r.attr == id_ and r.ctx is env.vars["_ctxobj"]
            eng.check(f"{n}#behavior_local_becomes_an_attribute_of_the_behavior_object", ok)
            eng.check(f"{n}#behavior_local_lookup_keeps_the_location", _same_location(r, node))
            import copy

            fx = ast.fix_missing_locations(_pythonize_tree(copy.copy(r))) if isinstance(r, ast.Attribute) else r
            eng.check(f"{n}#line_of_produced_node.Attribute_lookup", getattr(fx, "lineno", None) == 7 and getattr(fx, "end_lineno", None) == 7)
            eng.check(f"{n}#line_of_produced_node.Name_behavior_object", getattr(getattr(fx, "value", None), "lineno", None) == 7)
        else:
            eng.check(f"{n}#other_names_are_returned_unchanged", r is node and node.id == id_ and node.ctx is env.vars["_ctxobj"] and node.lineno == 7)

    reg.add(
        C.Contract(
            f"{T}.visit_Name",
            params=dict(self=C.Const(None), node=C.Const(None)),
            setup=setup_name,
            post=post_name,
            inline=["Transformer.makeSyntaxError", "ScenicToPythonTransformer.makeSyntaxError"],
            raises=[C.Raises("Exception", mode="may")],
            replay=replay_name,
            properties=("C09",),
        )
    )

    # ---------------------------------------------------------------- visit_Call
    FUNCS = ["f", "str", "int", "float", "obj.str", "ego"]
    ARGS = ["", "a", "str", "*b", "a, *b", "*b, a, *c"]
    KWS = ["", "k=v"]

    def build_call(func, args, kws):
        """`func(args, kws)` with every star argument on its own continuation line."""
        parts = [p.strip() for p in args.split(",") if p.strip()] + ([kws] if kws else [])
        src = func + "(" + ",\n    ".join(parts) + ")\n"
        return src, ast.parse(src).body[0].value

    def setup_call(I, env):
        eng = I.eng
        func = FUNCS[eng.choose(len(FUNCS), "function")]
        args = ARGS[eng.choose(len(ARGS), "arguments")]
        kws = KWS[eng.choose(len(KWS), "keywords")]
        in_behavior = eng.choose(2, "inside a behavior?") == 1
        src, node = build_call(func, args, kws)
        self = make_transformer(I, inBehavior=in_behavior)
        replaced = False
        if func == "ego":  # what visit_Name does to the function position
            self.replaced[id(node.func)] = ast.copy_location(ast.Call(_name("ego"), [], []), node.func)
            replaced = True
        orig = dict(func=node.func, args=list(node.args), keywords=list(node.keywords), ids={id(x): getattr(x, "id", None) for x in ast.walk(node)})
        orig["values"] = {id(a): a.value for a in node.args if isinstance(a, ast.Starred)}
        orig["names"] = [x for a in list(node.args) + list(node.keywords) + ([node.func] if not isinstance(node.func, ast.Name) else []) for x in ast.walk(a) if isinstance(x, ast.Name)]
        orig["lines"] = {id(x): getattr(x, "lineno", None) for x in ast.walk(node)}
        # what the visitors of the Scenic operators (visit_VectorOp, visit_New, ...) do: the visited child is a freshly built
        # node WITHOUT a location (fix_missing_locations fills it in later)
        fresh = eng.choose(2, "visited arguments are freshly built nodes without location?") == 1
        if fresh:
            for a in node.args:
                tgt = a.value if isinstance(a, ast.Starred) else a
                self.replaced[id(tgt)] = ast.Call(func=ast.Name(id="Vector", ctx=ast.Load()), args=[], keywords=[])
        env.vars.update(self=self, node=node, _orig=orig, _inb=in_behavior, _src=src, _replaced=replaced, _fresh=fresh)
        eng.input_syms.append(("fresh_children", C.Const(None), fresh))
        eng.input_syms.append(("source", C.Const(None), src))
        eng.input_syms.append(("inBehavior", C.Const(None), in_behavior))

    RENAME = {"str": "_toStrScenic", "int": "_toIntScenic", "float": "_toFloatScenic"}

    def post_call(I, env, outcome):
        eng = I.eng
        n = "compiler.ScenicToPythonTransformer.visit_Call"
        if outcome[0] == "raise":
            eng.check(f"{n}#no_exception", False, detail=_exc_name(outcome[1]))
            return
        r, node, orig, self = outcome[1], env.vars["node"], env.vars["_orig"], env.vars["self"]
        eng.check(f"{n}#returns_a_call_at_the_same_location", isinstance(r, ast.Call) and _same_location(r, node))
        if not isinstance(r, ast.Call):
            return
        starred = [a for a in orig["args"] if isinstance(a, ast.Starred)]
        wrap = bool(starred) and not env.vars["_inb"]
        vfunc = self.replaced.get(id(orig["func"]), orig["func"])
        rargs = as_list(r.args)
        # the function: renamed only if it is (after visiting) the bare name str/int/float
        want_id = None
        if isinstance(vfunc, ast.Name):
            want_id = RENAME.get(orig["ids"][id(orig["func"])], orig["ids"][id(orig["func"])])
        newfunc = rargs[0] if wrap and rargs else r.func
        eng.check(f"{n}#function_is_the_visited_original", newfunc is vfunc)
        if want_id is not None:
            eng.check(f"{n}#str_int_float_renamed_in_call_position", getattr(newfunc, "id", None) == want_id, detail=f"{getattr(newfunc, 'id', None)} vs {want_id}")
        # nothing else is renamed (arguments named str, attributes named str)
        others = orig["names"]
        eng.check(f"{n}#names_outside_call_position_are_not_renamed", all(x.id == orig["ids"][id(x)] for x in others))
        eng.check(f"{n}#keywords_are_the_visited_keywords_in_order", as_list(r.keywords) == orig["keywords"] and all(any(k is v for v in self.visited) for k in orig["keywords"]))
        vis = lambda a: self.replaced.get(id(a), a)  # the visited form of an argument
        if not wrap:
            eng.check(f"{n}#without_star_arguments_the_call_shape_is_kept", r.func is newfunc and len(rargs) == len(orig["args"]) and all(a is vis(b) for a, b in zip(rargs, orig["args"])))
            eng.check(f"{n}#every_argument_is_visited_once", all(sum(1 for v in self.visited if v is a) == 1 for a in orig["args"]))
            eng.check(f"{n}#line_of_produced_node.Call", getattr(r, "lineno", None) == node.lineno and getattr(r, "end_lineno", None) == node.end_lineno)
            return
        eng.check(f"{n}#star_arguments_route_the_call_through_callWithStarArgs", isinstance(r.func, ast.Name) and r.func.id == "callWithStarArgs" and len(rargs) == 1 + len(orig["args"]))
        ok_args, ok_lines = True, True
        for new, old in zip(rargs[1:], orig["args"]):
            if isinstance(old, ast.Starred):
                inner = new.value if isinstance(new, ast.Starred) else None
                iargs = as_list(inner.args) if isinstance(inner, ast.Call) else []
                oval = orig["values"][id(old)]
                good = isinstance(inner, ast.Call) and isinstance(inner.func, ast.Name) and inner.func.id == "wrapStarredValue" and len(iargs) == 2 and iargs[0] is vis(oval) and isinstance(iargs[1], ast.Constant) and iargs[1].value == orig["lines"][id(oval)]
                ok_args = ok_args and good
            else:
                ok_args = ok_args and new is vis(old)
        eng.check(f"{n}#each_star_argument_is_wrapped_by_wrapStarredValue_with_its_line", ok_args)
        # line numbers: what compileScenicAST does next (fix_missing_locations) must give every new node the line of
        # the node it replaces
        import copy

        fixed = ast.fix_missing_locations(_pythonize(copy.copy(r)))
        kinds = {k: True for k in ("Call", "Name_callWithStarArgs", "Starred", "Call_wrapStarredValue", "Name_wrapStarredValue", "Constant_line_argument")}
        kinds["Call"] = getattr(fixed, "lineno", None) == node.lineno
        kinds["Name_callWithStarArgs"] = getattr(fixed.func, "lineno", None) == node.lineno
        for new, old in zip(as_list(fixed.args)[1:], orig["args"]):
            if isinstance(old, ast.Starred):
                sline, vline = orig["lines"][id(old)], orig["lines"][id(orig["values"][id(old)])]
                inner = getattr(new, "value", None)
                ok_lines = ok_lines and getattr(new, "lineno", None) == sline and getattr(inner, "lineno", None) == vline
                kinds["Starred"] = kinds["Starred"] and getattr(new, "lineno", None) == sline
                kinds["Call_wrapStarredValue"] = kinds["Call_wrapStarredValue"] and getattr(inner, "lineno", None) == vline
                kinds["Name_wrapStarredValue"] = kinds["Name_wrapStarredValue"] and getattr(getattr(inner, "func", None), "lineno", None) == vline
                ia = as_list(getattr(inner, "args", []))
                kinds["Constant_line_argument"] = kinds["Constant_line_argument"] and len(ia) == 2 and getattr(ia[1], "lineno", None) == vline
        eng.check(f"{n}#wrapped_star_argument_keeps_its_line", ok_lines, detail="the new Starred/wrapStarredValue nodes get the line of the whole call")
        for k, ok in kinds.items():
            eng.check(f"{n}#line_of_produced_node.{k}", ok)

    def _pythonize(node):
        """PList fields -> python lists (so that stdlib helpers can walk the produced tree)."""
        for f in getattr(node, "_fields", ()):
            v = getattr(node, f, None)
            if isinstance(v, PList):
                v = list(v.items)
                setattr(node, f, v)
            if isinstance(v, list):
                for x in v:
                    if isinstance(x, ast.AST):
                        _pythonize(x)
            elif isinstance(v, ast.AST):
                _pythonize(v)
        return node

    reg.add(
        C.Contract(
            f"{T}.visit_Call",
            params=dict(self=C.Const(None), node=C.Const(None)),
            setup=setup_call,
            post=post_call,
            raises=[C.Raises("Exception", mode="may")],
            replay=replay_call,
            properties=("C09", "C10"),
        )
    )

    # ---------------------------------------------------------------- visit_ClassDef (+ transformPropertyDef)
    S = scenic_ast()
    CLASSES = [
        "class A:\n    pass\n",
        "class A:\n    '''doc'''\n    x = 1\n    def m(self):\n        return 1\n",
        "class A(B):\n    x = 1\n",
        "class A(B, metaclass=M):\n    pass\n",
        "class A():\n    x = 1\n",
    ]

    def find_self_attrs(I, target, node):
        """model of AttributeFinder.find: the attributes accessed on `target`, and a raw use of the name if any"""
        attrs, raw = [], None
        skip = set()
        for x in ast.walk(node):
            if isinstance(x, ast.Attribute) and isinstance(x.value, ast.Name) and x.value.id == target:
                attrs.append(x.attr)
                skip.add(id(x.value))
        for x in ast.walk(node):
            if isinstance(x, ast.Name) and x.id == target and id(x) not in skip:
                raw = x
        return (PSet(sorted(set(attrs))), raw)

    reg.models[f"{COMPILER}:AttributeFinder.find"] = find_self_attrs
    reg.trust("AttributeFinder.find", "model: the set of attributes read from `self` in a default-value expression and a raw occurrence of `self` if any")

    def setup_class(I, env):
        eng = I.eng
        k = eng.choose(len(CLASSES) + 1, "class shape")
        with_prop = k == len(CLASSES)
        src = CLASSES[0] if with_prop else CLASSES[k]
        node = ast.parse(src).body[0]
        prop = None
        if with_prop:
            # a Scenic property definition between two ordinary statements
            prop = S.PropertyDef.__new__(S.PropertyDef)
            attrs = []
            for cn in ("Additive", "Dynamic"):
                a_ = getattr(S, cn).__new__(getattr(S, cn))
                _loc(a_, 3)
                attrs.append(a_)
            prop.property, prop.attributes = "width", attrs
            node.end_lineno = 4
            prop.value = ast.parse("self.length * 2", mode="eval").body
            _loc(prop, 3)
            node.body = [_loc(ast.Pass(), 2), prop, _loc(ast.Expr(value=_loc(ast.Constant(value=0), 4)), 4)]
        self = make_transformer(I)
        orig = dict(bases=list(node.bases), body=list(node.body), keywords=list(node.keywords), name=node.name, decorators=list(node.decorator_list), lineno=node.lineno)
        env.vars.update(self=self, node=node, _orig=orig, _prop=prop, _src=src)
        eng.input_syms.append(("source", C.Const(None), None if with_prop else src))

    def post_class(I, env, outcome):
        eng = I.eng
        n = "compiler.ScenicToPythonTransformer.visit_ClassDef"
        if outcome[0] == "raise":
            eng.check(f"{n}#no_exception", False, detail=_exc_name(outcome[1]))
            return
        r, node, orig, prop, self = outcome[1], env.vars["node"], env.vars["_orig"], env.vars["_prop"], env.vars["self"]
        eng.check(f"{n}#returns_the_generically_visited_class", r is node and any(v is node for v in self.visited))
        bases = as_list(node.bases)
        if orig["bases"]:
            eng.check(f"{n}#explicit_bases_are_kept", len(bases) == len(orig["bases"]) and all(a is b for a, b in zip(bases, orig["bases"])))
        else:
            eng.check(f"{n}#class_without_bases_derives_from_Object", len(bases) == 1 and isinstance(bases[0], ast.Name) and bases[0].id == "Object" and isinstance(bases[0].ctx, ast.Load))
        eng.check(f"{n}#name_keywords_decorators_line_unchanged", node.name == orig["name"] and as_list(node.keywords) == orig["keywords"] and as_list(node.decorator_list) == orig["decorators"] and node.lineno == orig["lineno"])
        body = as_list(node.body)
        tables = [s_ for s_ in body if isinstance(s_, ast.Assign) and len(as_list(s_.targets)) == 1 and isinstance(as_list(s_.targets)[0], ast.Name) and as_list(s_.targets)[0].id == "_scenic_properties" and not any(s_ is o for o in orig["body"])]
        eng.check(f"{n}#gains_exactly_one_property_table", len(tables) == 1)
        rest = [s_ for s_ in body if not any(s_ is t for t in tables)]
        plain = [s_ for s_ in orig["body"] if s_ is not prop]
        eng.check(f"{n}#other_statements_are_kept_in_order", len(rest) == len(plain) and all(a is b for a, b in zip(rest, plain)))
        if len(tables) != 1:
            return
        table = tables[0]
        keys, vals = as_list(table.value.keys), as_list(table.value.values)
        if prop is None:
            eng.check(f"{n}#table_of_a_plain_python_class_is_empty_and_last", keys == [] and vals == [] and body[-1] is table)
            return
        eng.check(f"{n}#table_sits_where_the_first_property_was", body.index(table) == orig["body"].index(prop))
        ok = len(keys) == 1 and isinstance(keys[0], ast.Constant) and keys[0].value == "width" and len(vals) == 1
        v = vals[0] if ok else None
        vargs = as_list(v.args) if isinstance(v, ast.Call) else []
        ok = ok and isinstance(v, ast.Call) and isinstance(v.func, ast.Name) and v.func.id == "_scenic_default" and len(vargs) == 3
        if ok:
            deps = sorted(e.value for e in as_list(vargs[0].elts)) if isinstance(vargs[0], ast.Set) else None
            declared = sorted(getattr(e, "value", None) for e in as_list(vargs[1].elts)) if isinstance(vargs[1], ast.Set) else None
            eng.check(f"{n}#property_attribute_table_lists_the_declared_attributes", declared == ["additive", "dynamic"], detail=f"{declared}")
            ok = deps == ["length"] and isinstance(vargs[1], ast.Set) and isinstance(vargs[2], ast.Lambda) and vargs[2].body is prop.value
            ok = ok and [a.arg for a in as_list(vargs[2].args.args)] == ["self"]
        eng.check(f"{n}#property_default_is_a__scenic_default_of_its_dependencies_and_a_lambda_over_self", bool(ok))

    def post_class_lines(I, env, outcome):
        post_class(I, env, outcome)
        if outcome[0] != "return" or not isinstance(outcome[1], ast.ClassDef):
            return
        import copy

        eng = I.eng
        n = "compiler.ScenicToPythonTransformer.visit_ClassDef"
        node, orig = outcome[1], env.vars["_orig"]
        had = {id(x) for o in orig["body"] + orig["bases"] + orig["keywords"] + orig["decorators"] for x in ast.walk(o)}
        fixed = ast.fix_missing_locations(_pythonize_tree(copy.copy(node)))
        lo, hi = node.lineno, getattr(node, "end_lineno", node.lineno) or node.lineno
        kinds = {}
        for x in ast.walk(fixed):
            if x is fixed or id(x) in had or not hasattr(x, "lineno") and not isinstance(x, (ast.expr, ast.stmt)):
                continue
            label = type(x).__name__ + ("_" + x.id if isinstance(x, ast.Name) else "")
            ok = isinstance(getattr(x, "lineno", None), int) and lo <= x.lineno <= hi
            kinds[label] = kinds.get(label, True) and ok
        # every node the rewrite adds lies, after fix_missing_locations, on a line of the class statement it belongs to
        for label in sorted(kinds):
            eng.check(f"{n}#line_of_produced_node.{label}", kinds[label])

    reg.add(
        C.Contract(
            f"{T}.visit_ClassDef",
            params=dict(self=C.Const(None), node=C.Const(None)),
            setup=setup_class,
            post=post_class_lines,
            inline=["ScenicToPythonTransformer.transformPropertyDef", "Transformer.makeSyntaxError"],
            raises=[C.Raises("Exception", mode="may")],
            replay=replay_class,
            properties=("C09",),
        )
    )

    # ---------------------------------------------------------------- control-flow hooks are transparent at top level
    SAMPLE = {
        "For": "for i in x:\n    pass\n",
        "While": "while x:\n    pass\n",
        "FunctionDef": "def f(a):\n    return a\n",
        "Break": "break\n",
        "Continue": "continue\n",
        "Return": "return x\n",
        "Yield": "(yield x)\n",
        "YieldFrom": "(yield from x)\n",
    }

    def mk_hook(hook):
        def setup(I, env):
            eng = I.eng
            src = SAMPLE[hook]
            stmt = ast.parse(src).body[0]
            node = stmt.value if hook in ("Yield", "YieldFrom") else stmt
            in_loop = eng.choose(2, "inside a loop?") == 1
            self = make_transformer(I, inLoop=in_loop)  # top level: not in a behavior / compose block / interrupt block
            env.vars.update(self=self, node=node, _inloop=in_loop)

        def post(I, env, outcome):
            eng = I.eng
            n = f"compiler.ScenicToPythonTransformer.visit_{hook}"
            if outcome[0] == "raise":
                eng.check(f"{n}#transparent_at_top_level", False, detail=_exc_name(outcome[1]))
                return
            self, node = env.vars["self"], env.vars["node"]
            eng.check(f"{n}#transparent_at_top_level", outcome[1] is node and [v for v in self.visited] == [node])
            f = self.fields
            eng.check(f"{n}#flags_restored", f["inLoop"] == env.vars["_inloop"] and f["inInterruptBlock"] is False and f["usedBreak"] is False and f["usedContinue"] is False)

        reg.add(
            C.Contract(
                f"{T}.visit_{hook}",
                params=dict(self=C.Const(None), node=C.Const(None)),
                setup=setup,
                post=post,
                inline=["Transformer.makeSyntaxError"],
                raises=[C.Raises("Exception", mode="may")],
                note="plain Python at top level: inBehavior = inCompose = inInterruptBlock = False",
                properties=("C09",),
            )
        )

    for h in HOOKS:
        mk_hook(h)

    # ---------------------------------------------------------------- frame census
    # every node class of the ast module except those the module itself documents as "Deprecated ... Unused in Python 3"
    PY_CLASSES = sorted(n for n, c in vars(ast).items() if isinstance(c, type) and issubclass(c, ast.AST) and not n.startswith("_") and c.__module__ in ("ast", "_ast") and not (c.__doc__ or "").startswith("Deprecated"))

    def visitor_names():
        node = extract.get_module(COMPILER).top["ScenicToPythonTransformer"]
        out = set()
        for b in node.body:
            if isinstance(b, ast.FunctionDef) and b.name.startswith("visit_"):
                out.add(b.name[6:])
            elif isinstance(b, ast.Assign):
                for t in b.targets:
                    for x in ast.walk(t):
                        if isinstance(x, ast.Name) and x.id.startswith("visit_"):
                            out.add(x.id[6:])
        return out

    def setup_frame(I, env):
        eng = I.eng
        cls = PY_CLASSES[eng.choose(len(PY_CLASSES), "python node class")]
        env.vars.update(scenicAST=PList([]), filename="<string>", _cls=cls)
        eng.input_syms.append(("class", C.Const(None), cls))

    def post_frame(I, env, outcome):
        eng = I.eng
        cls = env.vars["_cls"]
        has = cls in visitor_names()
        eng.check(
            f"compiler.ScenicToPythonTransformer#frame.only_children_of_{cls}_are_rewritten",
            (not has) or cls in DOCUMENTED or cls in HOOKS,
            detail=f"visit_{cls} exists and is neither a documented rewrite nor a hook proved transparent" if has else None,
        )
        if cls == PY_CLASSES[0]:
            ok = outcome[0] == "return" and isinstance(outcome[1], tuple) and len(outcome[1]) == 2 and as_list(outcome[1][0]) == [] and as_list(outcome[1][1]) == []
            eng.check("compiler.compileScenicAST#empty_program_compiles_to_nothing", ok)

    reg.add(
        C.Contract(
            f"{COMPILER}:compileScenicAST",
            params=dict(scenicAST=C.Const(None), filename=C.Const(None)),
            setup=setup_frame,
            post=post_frame,
            inline=["ScenicToPythonTransformer.__init__", "Transformer.__init__", "ScenicToPythonTransformer.visit"],
            raises=[C.Raises("Exception", mode="may")],
            note="census over every node class of the `ast` module: visit_X exists only for the documented rewrites and the verified hooks",
            properties=("C09",),
        ),
        key=f"{COMPILER}:compileScenicAST[frame-census]",
    )
    _register_round2(reg, make_transformer)
    from standins import python_corpus

    python_corpus.register(reg)


# ================================================================================================= second round
PARSER = "scenic.syntax.parser"

DEFS = [
    "def f(a, b, /, c, d=1, *e, g, h=2, **k): pass\n",
    "def f(a, b=1, /, c=2, *, d=3): pass\n",
    "def f(p='pos', /, q='ord'): pass\n",
    "def f(a, /): pass\n",
    "def f(a, /, b): pass\n",
    "def f(a, b=1, *args): pass\n",
    "def f(a=1, b=2, **kw): pass\n",
    "def f(*, k): pass\n",
    "def f(**kw): pass\n",
    "def f(a, b=1, /, c=2, d=3): pass\n",
]


def replay_make_arguments(inputs, clause):
    from standins.python_corpus import first_difference

    src = inputs.get("source")
    if not src:
        return None
    for t in (src, src.replace("def f(", "g = lambda ").replace("): pass", ": 0")):
        try:
            ast.parse(t)
        except SyntaxError:
            continue
        tree = _real_compile(t)
        d = first_difference(tree, ast.parse(t))
        if d:
            return f"`{t.strip()}`: {d}"
    return None


SCOPE_DEFS = {
    "behavior": "behavior B(count):\n    total = count + 1\n    spacing = 2\n    wait\nmonitor M():\n    seen = 0\n    wait\n",
    "scenario": "scenario S():\n    setup:\n        spacing = 2.5\n        count = 3\n        ego = new Object\n    compose:\n        total = 1\n        seen = 2\n        wait\n",
}
SCOPE_TAIL = """\
count = 10
spacing = [count * k for k in range(3)]
def helper(n):
    total = n + count
    seen = total
    return seen
summary = (helper(1), spacing[-1])
"""


def mk_replay_scope(kind):
    def replay_scope(inputs, clause):
        """Real compiler: plain Python after a behavior+monitor / scenario definition whose locals have the same names."""
        from standins.python_corpus import first_difference

        text = SCOPE_DEFS[kind] + SCOPE_TAIL
        tree = _real_compile(text)
        n_before = SCOPE_DEFS[kind].count("\n")
        expected = ast.parse("\n" * n_before + SCOPE_TAIL).body
        actual = tree.body[-len(expected) :]
        d = first_difference(actual, expected, "statements after the definition")
        return f"plain Python following a {kind} definition is not compiled as CPython would: {d}" if d else None

    return replay_scope


HOOK_TEXT = {
    "For": "for i in x:\n    y = i\n",
    "While": "while x:\n    y = 1\n    break\n",
    "FunctionDef": "def f(a):\n    for i in a:\n        if i:\n            continue\n        return i\n",
    "Break": "for i in x:\n    break\n",
    "Continue": "while x:\n    continue\n",
    "Return": "def f(a):\n    return a\n",
    "Yield": "def f(a):\n    yield a\n",
    "YieldFrom": "def f(a):\n    yield from a\n",
}


def mk_replay_hook(hook):
    def replay(inputs, clause):
        from standins.python_corpus import first_difference

        src = HOOK_TEXT[hook]
        try:
            tree = _real_compile(src)
        except Exception as e:
            return f"`{src.strip()}` (plain Python at top level): compilation fails with {type(e).__name__}: {e}"
        d = first_difference(tree, ast.parse(src))
        return f"`{src.strip()}`: {d}" if d else None

    return replay


def _register_round2(reg, make_transformer):
    from contracts.frontend import _facts, scenic_ast

    _facts()  # parser-resident carriers come from the parser regenerated from the current grammar
    S = scenic_ast()
    # the hooks get replay drivers (a mutant there must give a VIOLATION)
    for h in HOOKS:
        c = reg.contracts.get(f"{T}.visit_{h}")
        if c is not None and c.replay is None:
            c.replay = mk_replay_hook(h)

    # ---------------------------------------------------------------- Parser.make_arguments == CPython's `arguments`
    def setup_ma(I, env):
        eng = I.eng
        src = DEFS[eng.choose(len(DEFS), "parameter list")]
        exp = ast.parse(src).body[0].args
        P, R = list(exp.posonlyargs), list(exp.args)
        allpos = P + R
        nd = len(exp.defaults)
        dflt = {id(a): d for a, d in zip(allpos[len(allpos) - nd :], exp.defaults)} if nd else {}
        pair = lambda a: (a, dflt.get(id(a)))
        r_no = [a for a in R if id(a) not in dflt]
        r_def = [pair(a) for a in R if id(a) in dflt]
        star = None
        if exp.vararg or exp.kwonlyargs or exp.kwarg:
            star = (exp.vararg, PList([(a, d) for a, d in zip(exp.kwonlyargs, exp.kw_defaults)]), exp.kwarg)
        # the five ways the `parameters` rule of the grammar calls make_arguments
        if P and not any(id(a) in dflt for a in P):
            call = (PList([(a, None) for a in P]), PList([]), PList(r_no), PList(r_def), star)
        elif P:
            call = (None, PList([pair(a) for a in P]), None, PList(r_def), star)
        elif r_no:
            call = (None, PList([]), PList(r_no), PList(r_def), star)
        elif r_def:
            call = (None, PList([]), None, PList(r_def), star)
        else:
            call = (None, PList([]), None, None, star)
        env.vars.update(self=C.Obj(f"{PARSER}:Parser").fresh(eng, "self", I), pos_only=call[0], pos_only_with_default=call[1], param_no_default=call[2], param_default=call[3], after_star=call[4], _exp=exp, _src=src)
        eng.input_syms.append(("source", C.Const(None), src))

    def post_ma(I, env, outcome):
        eng = I.eng
        n = "parser.Parser.make_arguments"
        if outcome[0] != "return":
            eng.check(f"{n}#no_exception", False, detail=_exc_name(outcome[1]))
            return
        r, exp = outcome[1], env.vars["_exp"]
        same = lambda xs, ys: len(as_list(xs)) == len(ys) and all(a is b for a, b in zip(as_list(xs), ys))
        isargs = isinstance(r, ast.arguments)
        eng.check(f"{n}#positional_only_parameters_as_CPython", isargs and same(r.posonlyargs, exp.posonlyargs))
        eng.check(f"{n}#ordinary_parameters_as_CPython", isargs and same(r.args, exp.args))
        eng.check(f"{n}#defaults_in_parameter_order_as_CPython", isargs and same(r.defaults, exp.defaults))
        eng.check(f"{n}#star_keyword_only_and_double_star_as_CPython", isargs and r.vararg is exp.vararg and r.kwarg is exp.kwarg and same(r.kwonlyargs, exp.kwonlyargs) and same(r.kw_defaults, exp.kw_defaults))

    reg.add(
        C.Contract(
            f"{PARSER}:Parser.make_arguments",
            params=dict(self=C.Const(None), pos_only=C.Const(None), pos_only_with_default=C.Const(None), param_no_default=C.Const(None), param_default=C.Const(None), after_star=C.Const(None)),
            setup=setup_ma,
            post=post_ma,
            raises=[C.Raises("Exception", mode="may")],
            replay=replay_make_arguments,
            note="oracle: the `arguments` node CPython builds for the same parameter list; inputs in the five forms the `parameters` rule passes",
            properties=("C09",),
        )
    )

    # ---------------------------------------------------------------- scopes: the transformer state after a definition
    reg.trust("LocalFinder.findIn", "model: returns the set of names bound in a block (an abstract set object)")

    def scoped_transformer(I, log):
        self = make_transformer(I)
        outer = PSet([])
        self.fields["behaviorLocals"] = outer
        self.fields["inSetup"] = False

        def visit(x):
            f = self.fields
            log.append(dict(what=x, locals=f["behaviorLocals"], inBehavior=f["inBehavior"], inMonitor=f["inMonitor"], inCompose=f["inCompose"], inSetup=f.get("inSetup")))
            if isinstance(x, ast.arguments):
                for fld in ("posonlyargs", "args", "kwonlyargs"):
                    setattr(x, fld, PList(as_list(getattr(x, fld))))
                return x
            return PList(as_list(x)) if isinstance(x, (list, PList)) else x

        self.fields["visit"] = BuiltinFn("visit", visit)
        self.fields["makeGuardCheckers"] = BuiltinFn("makeGuardCheckers", lambda *a, **k: PList([]))
        self.fields["generateInvocation"] = BuiltinFn("generateInvocation", lambda *a, **k: PList([]))
        return self, outer

    found = {}

    def find_in(I, block):
        key = tuple(id(x) for x in as_list(block))
        if key not in found:
            found[key] = PSet([f"local_of_block_{len(found)}"])
        return found[key]

    reg.models[f"{COMPILER}:LocalFinder.findIn"] = find_in

    def state_checks(eng, n, self, outer):
        f = self.fields
        eng.check(f"{n}#on_exit.behavior_locals_are_those_of_the_enclosing_scope_again", f["behaviorLocals"] is outer)
        eng.check(f"{n}#on_exit.context_flags_are_cleared", f["inBehavior"] is False and f["inMonitor"] is False and f["inCompose"] is False and f.get("inSetup") is False)

    def setup_bl(I, env):
        eng = I.eng
        base = ["Behavior", "Monitor"][eng.choose(2, "kind")]
        log = []
        self, outer = scoped_transformer(I, log)
        body = PList(ast.parse("total = count + 1\n").body)
        args = ast.parse("def f(count, k=1): pass").body[0].args
        doc = [None, '"doc"'][eng.choose(2, "docstring?")]
        hdr = []
        if base == "Behavior" and eng.choose(2, "precondition?") == 1:
            pre = S.Precondition.__new__(S.Precondition)
            pre.value = ast.Name(id="c", ctx=ast.Load())
            pre.lineno = 2
            hdr = [pre]
        found.clear()
        env.vars.update(self=self, baseClassName=base, name="B", args=args, docstring=doc, header=PList(hdr), body=body, _log=log, _outer=outer, _body=body, _base=base)

    def post_bl(I, env, outcome):
        eng = I.eng
        n = "compiler.ScenicToPythonTransformer.makeBehaviorLikeDef"
        if outcome[0] != "return":
            eng.check(f"{n}#no_exception", False, detail=_exc_name(outcome[1]))
            return
        self, outer, log = env.vars["self"], env.vars["_outer"], env.vars["_log"]
        state_checks(eng, n, self, outer)
        stmts = as_list(env.vars["_body"])
        bodyvisits = [e for e in log if isinstance(e["what"], (list, PList)) and as_list(e["what"]) == stmts]
        flag = "inBehavior" if env.vars["_base"] == "Behavior" else "inMonitor"
        ok = len(bodyvisits) == 1 and bodyvisits[0][flag] is True and bodyvisits[0]["locals"] is found.get(tuple(id(x) for x in stmts))
        eng.check(f"{n}#body_is_compiled_with_its_own_locals_and_context", ok)
        r = outcome[1]
        eng.check(f"{n}#result_is_a_class_deriving_from_the_base", isinstance(r, ast.ClassDef) and r.name == "B" and [getattr(b, "id", None) for b in as_list(r.bases)] == [env.vars["_base"]])

    reg.add(
        C.Contract(
            f"{T}.makeBehaviorLikeDef",
            params=dict(self=C.Const(None), baseClassName=C.Const(None), name=C.Const(None), args=C.Const(None), docstring=C.Const(None), header=C.Const(None), body=C.Const(None)),
            setup=setup_bl,
            post=post_bl,
            inline=["ScenicToPythonTransformer.separatePreconditionsAndInvariants", "unquote"],
            raises=[C.Raises("Exception", mode="may")],
            replay=mk_replay_scope("behavior"),
            note="behavior locals are rewritten only inside the behavior: on exit the transformer is back in the enclosing (top-level) scope",
            properties=("C09",),
        )
    )

    def setup_sd(I, env):
        eng = I.eng
        log = []
        self, outer = scoped_transformer(I, log)
        node = S.ScenarioDef.__new__(S.ScenarioDef)
        node.name = "Main"
        node.args = ast.parse("def f(): pass").body[0].args
        node.docstring = None
        node.header = PList([])
        has_setup, has_compose = eng.choose(2, "setup block?") == 1, eng.choose(2, "compose block?") == 1
        node.setup = PList(ast.parse("count = 3\n").body) if has_setup else PList([])
        node.compose = PList(ast.parse("spacing = 2\n").body) if has_compose else PList([])
        node.lineno = 1
        found.clear()
        env.vars.update(self=self, node=node, _log=log, _outer=outer)

    def post_sd(I, env, outcome):
        eng = I.eng
        n = "compiler.ScenicToPythonTransformer.visit_ScenarioDef"
        if outcome[0] != "return":
            eng.check(f"{n}#no_exception", False, detail=_exc_name(outcome[1]))
            return
        self, outer, log, node = env.vars["self"], env.vars["_outer"], env.vars["_log"], env.vars["node"]
        state_checks(eng, n, self, outer)
        for blk, flag in (("setup", "inSetup"), ("compose", "inCompose")):
            stmts = as_list(getattr(node, blk))
            if stmts:
                v = [e for e in log if isinstance(e["what"], (list, PList)) and as_list(e["what"]) == stmts]
                eng.check(f"{n}#{blk}_block_is_compiled_in_its_context_with_the_scenario_locals", len(v) == 1 and v[0][flag] is True and v[0]["locals"] is not outer)

    reg.add(
        C.Contract(
            f"{T}.visit_ScenarioDef",
            params=dict(self=C.Const(None), node=C.Const(None)),
            setup=setup_sd,
            post=post_sd,
            inline=["ScenicToPythonTransformer.separatePreconditionsAndInvariants"],
            raises=[C.Raises("Exception", mode="may")],
            replay=mk_replay_scope("scenario"),
            properties=("C09",),
        ),
        key=f"{T}.visit_ScenarioDef[scope]",
    )
