"""Sidecar contracts for the documented Python rewrites of the Scenic compiler (C09).

Oracle: the property statement and the language reference ("Builtin Names ... can be used but not overwritten", the
class-definition grammar): plain Python is compiled to the tree CPython would build except that
  * `ego`, `workspace`, `globalParameters` (read) become accessor calls,
  * `str`/`int`/`float` are renamed to their lifted versions IN CALL POSITION only,
  * star arguments are wrapped (`callWithStarArgs(f, ..., *wrapStarredValue(v, line))`),
  * a class without bases derives from `Object` and gains one `_scenic_properties` table,
and every produced node carries the line of the node it replaces.  Inputs are REAL `ast` nodes; the transformer's
recursive `visit`/`generic_visit` are an abstract child visitor V (identity on the node, logged; the function position
may also be replaced by a fresh node), so each contract is about ONE rewrite and the frame census closes the argument:
every other Python node class has no visit_X (or a hook proved transparent at top level), hence
ast.NodeTransformer.generic_visit (trusted stdlib) only rewrites children."""
import ast

from pyvc import contracts as C
from pyvc import extract
from pyvc.interp import BuiltinFn, ClassVal
from pyvc.models_fe import as_list, install_native_ast_isinstance, install_native_ast_setattr
from pyvc.values import PDict, PExc, PList, PObj, PSet, PyvcError

COMPILER = "scenic.syntax.compiler"
T = f"{COMPILER}:ScenicToPythonTransformer"
DOCUMENTED = ("Name", "Call", "ClassDef")
HOOKS = ("For", "While", "FunctionDef", "Break", "Continue", "Return", "Yield", "YieldFrom")
BEHAVIOR_ARG = "_Scenic_current_behavior"


def _lit(x):
    """counter-model inputs that are lists arrive as their repr"""
    if isinstance(x, str) and x[:1] in "[({":
        try:
            return ast.literal_eval(x)
        except (ValueError, SyntaxError):
            return x
    return x


def _exc_name(exc):
    return exc.cls.name if isinstance(exc.cls, ClassVal) else getattr(exc.cls, "__name__", str(exc.cls))


def _loc(node, line, col=0, end_line=None, end_col=None):
    node.lineno, node.col_offset = line, col
    node.end_lineno = line if end_line is None else end_line
    node.end_col_offset = col + 1 if end_col is None else end_col
    return node


def _name(id_, line=1, col=0, ctx=None):
    return _loc(ast.Name(id=id_, ctx=ctx or ast.Load()), line, col, line, col + len(id_))


def make_transformer(I, **flags):
    """A ScenicToPythonTransformer object with the abstract child visitor."""
    cls = ClassVal.get(COMPILER, extract.get_module(COMPILER).top["ScenicToPythonTransformer"])
    self = PObj(cls, tag="transformer")
    visited = []
    replaced = {}

    def V(node):
        visited.append(node)
        if isinstance(node, ast.Starred) and id(node.value) in replaced:
            node.value = replaced[id(node.value)]  # generic_visit rewrites the children of the node it is given, in place
        return replaced.get(id(node), node)

    self.fields.update(
        filename="<string>",
        requirements=PList([]),
        inBehavior=False,
        inMonitor=False,
        inCompose=False,
        inTryInterrupt=False,
        inInterruptBlock=False,
        inLoop=False,
        usedBreak=False,
        usedContinue=False,
        behaviorLocals=PSet([]),
        visit=BuiltinFn("visit", V),
        generic_visit=BuiltinFn("generic_visit", V),
    )
    self.fields.update(flags)
    self.visited, self.replaced = visited, replaced
    return self


def _same_location(a, b):
    return all(getattr(a, k, None) == getattr(b, k, None) for k in ("lineno", "col_offset", "end_lineno", "end_col_offset"))


# ------------------------------------------------------------------------------------------------ replay drivers
def _real_compile(src, **flags):
    from standins.frontend_mutants import fast_imports

    fast_imports()
    from scenic.syntax.compiler import compileScenicAST
    from scenic.syntax.parser import parse_string

    tree, _ = compileScenicAST(parse_string(src, "exec"), **flags)
    return tree


def replay_name(inputs, clause):
    """Real parser + compiler on a one-line program using the name in the model's context."""
    from standins.python_corpus import first_difference

    id_, ctx = inputs.get("id"), inputs.get("ctx")
    if id_ is None or _lit(inputs.get("behaviorLocals")):
        return None
    src = {"Load": f"y = {id_}\n", "Store": f"{id_} = 1\n", "Del": f"del {id_}\n"}[ctx]
    from scenic.core.errors import ScenicSyntaxError

    try:
        tree = _real_compile(src)
    except ScenicSyntaxError as e:
        if ctx != "Load" and id_ in ("ego", "workspace", "globalParameters", "str", "int", "float"):
            return None  # documented: built-in names cannot be overwritten
        return f"`{src.strip()}` is rejected: {getattr(e, 'msg', e)}"
    d = first_difference(tree, ast.parse(src))
    return f"`{src.strip()}`: {d}" if d else None


def replay_call(inputs, clause):
    from standins.python_corpus import first_difference

    src = inputs.get("source")
    if not src or inputs.get("inBehavior"):
        return None
    if inputs.get("fresh_children"):
        # arguments whose visitor builds a new node without location: Scenic vector expressions
        import re

        from scenic.core.errors import ScenicSyntaxError

        head, _, rest = src.partition("(")
        src2 = head + "(" + re.sub(r"\b([a-z])\b(?!=)", r"(\1 @ 2)", rest)
        try:
            tree = _real_compile(src2)
        except ScenicSyntaxError:
            return None
        except Exception as e:
            return f"`{src2.strip()}`: compilation escapes with {type(e).__name__}: {e}"
        star_lines = [i + 1 for i, l in enumerate(src2.split("\n")) if "*(" in l]
        got = sorted(n.lineno for n in ast.walk(tree) if isinstance(n, ast.Starred))
        if src2.count("*") and got != sorted(star_lines) and len(src2.split("\n")) > 2:
            return f"`{src2.strip()}`: star arguments are on lines {sorted(star_lines)}, the compiled Starred nodes on lines {got}"
        return None
    tree = _real_compile(src)
    d = first_difference(tree, ast.parse(src))
    return f"`{src.strip()}`: {d}" if d else None


def replay_class(inputs, clause):
    from standins.python_corpus import first_difference

    src = inputs.get("source")
    if not src:
        return None
    tree = _real_compile(src)
    d = first_difference(tree, ast.parse(src))
    return f"`{src.strip()}`: {d}" if d else None


# ------------------------------------------------------------------------------------------------
def register(reg):
    install_native_ast_isinstance(reg)
    install_native_ast_setattr(reg)
    from contracts.frontend import preimport_scenic, scenic_ast

    preimport_scenic()
    reg.models["scenic.core.errors:getText"] = lambda I, *a, **k: (None, None, None)
    reg.trust("errors.getText", "stub: fetches the source line for display only")
    reg.trust("ast.NodeTransformer.generic_visit / NodeVisitor.visit", "stdlib: visit dispatches on the class name; generic_visit replaces each child by the result of visiting it and returns the node")
    reg.trust("abstract child visitor", "inside one rewrite the recursive self.visit/self.generic_visit is an arbitrary function of the child (identity, or a fresh node in function position), logged")

    # ---------------------------------------------------------------- visit_Name
    IDS = ["ego", "workspace", "globalParameters", "str", "int", "float", "x", "loc", "self", "Object"]
    CTX = [("Load", ast.Load), ("Store", ast.Store), ("Del", ast.Del)]
    TRACKED = ("ego", "workspace", "globalParameters")
    BUILTIN = ("str", "int", "float")

    def setup_name(I, env):
        eng = I.eng
        id_ = IDS[eng.choose(len(IDS), "identifier")]
        cname, cctx = CTX[eng.choose(3, "context")]
        locs = [[], ["loc"], ["loc", "x"]][eng.choose(3, "behavior locals")]
        node = _name(id_, 7, 4, cctx())
        self = make_transformer(I, behaviorLocals=PSet(list(locs)), inBehavior=bool(locs))
        env.vars.update(self=self, node=node, _id=id_, _ctx=cname, _locs=locs, _ctxobj=node.ctx)
        eng.input_syms.append(("id", C.Const(None), id_))
        eng.input_syms.append(("ctx", C.Const(None), cname))
        eng.input_syms.append(("behaviorLocals", C.Const(None), locs))

    def post_name(I, env, outcome):
        eng = I.eng
        n = "compiler.ScenicToPythonTransformer.visit_Name"
        id_, ctx, locs, node = env.vars["_id"], env.vars["_ctx"], env.vars["_locs"], env.vars["node"]
        if outcome[0] == "raise":
            exc = outcome[1]
            eng.check(f"{n}#raises.only_ScenicParseError", _exc_name(exc) == "ScenicParseError", detail=_exc_name(exc))
            # documented: the built-in names (and the tracked names) can be used but not overwritten
            eng.check(f"{n}#raises.only_for_overwriting_a_builtin_name", ctx != "Load" and id_ in TRACKED + BUILTIN, detail=f"{id_} in {ctx} context")
            eng.check(f"{n}#raises.located_at_the_name", exc.fields.get("lineno") == 7)
            return
        r = outcome[1]
        eng.check(f"{n}#overwriting_a_builtin_name_is_refused", not (ctx != "Load" and id_ in TRACKED + BUILTIN))
        if id_ in TRACKED:
            ok = isinstance(r, ast.Call) and isinstance(r.func, ast.Name) and r.func.id == id_ and isinstance(r.func.ctx, ast.Load) and as_list(r.args) == [] and as_list(r.keywords) == []
            eng.check(f"{n}#tracked_name_becomes_an_accessor_call", ok)
            eng.check(f"{n}#accessor_call_keeps_the_location", _same_location(r, node))
        elif id_ in BUILTIN:
            eng.check(f"{n}#str_int_float_are_not_renamed_outside_call_position", r is node and node.id == id_)
        elif id_ in locs:
            ok = isinstance(r, ast.Attribute) and isinstance(r.value, ast.Name) and r.value.id == BEHAVIOR_ARG and r.attr == id_ and r.ctx is env.vars["_ctxobj"]
            eng.check(f"{n}#behavior_local_becomes_an_attribute_of_the_behavior_object", ok)
            eng.check(f"{n}#behavior_local_lookup_keeps_the_location", _same_location(r, node))
        else:
            eng.check(f"{n}#other_names_are_returned_unchanged", r is node and node.id == id_ and node.ctx is env.vars["_ctxobj"] and node.lineno == 7)

    reg.add(
        C.Contract(
            f"{T}.visit_Name",
            params=dict(self=C.Const(None), node=C.Const(None)),
            setup=setup_name,
            post=post_name,
            inline=["Transformer.makeSyntaxError", "ScenicToPythonTransformer.makeSyntaxError"],
            raises=[C.Raises("Exception", mode="may")],
            replay=replay_name,
            properties=("C09",),
        )
    )

    # ---------------------------------------------------------------- visit_Call
    FUNCS = ["f", "str", "int", "float", "obj.str", "ego"]
    ARGS = ["", "a", "str", "*b", "a, *b", "*b, a, *c"]
    KWS = ["", "k=v"]

    def build_call(func, args, kws):
        """`func(args, kws)` with every star argument on its own continuation line."""
        parts = [p.strip() for p in args.split(",") if p.strip()] + ([kws] if kws else [])
        src = func + "(" + ",\n    ".join(parts) + ")\n"
        return src, ast.parse(src).body[0].value

    def setup_call(I, env):
        eng = I.eng
        func = FUNCS[eng.choose(len(FUNCS), "function")]
        args = ARGS[eng.choose(len(ARGS), "arguments")]
        kws = KWS[eng.choose(len(KWS), "keywords")]
        in_behavior = eng.choose(2, "inside a behavior?") == 1
        src, node = build_call(func, args, kws)
        self = make_transformer(I, inBehavior=in_behavior)
        replaced = False
        if func == "ego":  # what visit_Name does to the function position
            self.replaced[id(node.func)] = ast.copy_location(ast.Call(_name("ego"), [], []), node.func)
            replaced = True
        orig = dict(func=node.func, args=list(node.args), keywords=list(node.keywords), ids={id(x): getattr(x, "id", None) for x in ast.walk(node)})
        orig["values"] = {id(a): a.value for a in node.args if isinstance(a, ast.Starred)}
        orig["names"] = [x for a in list(node.args) + list(node.keywords) + ([node.func] if not isinstance(node.func, ast.Name) else []) for x in ast.walk(a) if isinstance(x, ast.Name)]
        orig["lines"] = {id(x): getattr(x, "lineno", None) for x in ast.walk(node)}
        # what the visitors of the Scenic operators (visit_VectorOp, visit_New, ...) do: the visited child is a freshly built
        # node WITHOUT a location (fix_missing_locations fills it in later)
        fresh = eng.choose(2, "visited arguments are freshly built nodes without location?") == 1
        if fresh:
            for a in node.args:
                tgt = a.value if isinstance(a, ast.Starred) else a
                self.replaced[id(tgt)] = ast.Call(func=ast.Name(id="Vector", ctx=ast.Load()), args=[], keywords=[])
        env.vars.update(self=self, node=node, _orig=orig, _inb=in_behavior, _src=src, _replaced=replaced, _fresh=fresh)
        eng.input_syms.append(("fresh_children", C.Const(None), fresh))
        eng.input_syms.append(("source", C.Const(None), src))
        eng.input_syms.append(("inBehavior", C.Const(None), in_behavior))

    RENAME = {"str": "_toStrScenic", "int": "_toIntScenic", "float": "_toFloatScenic"}

    def post_call(I, env, outcome):
        eng = I.eng
        n = "compiler.ScenicToPythonTransformer.visit_Call"
        if outcome[0] == "raise":
            eng.check(f"{n}#no_exception", False, detail=_exc_name(outcome[1]))
            return
        r, node, orig, self = outcome[1], env.vars["node"], env.vars["_orig"], env.vars["self"]
        eng.check(f"{n}#returns_a_call_at_the_same_location", isinstance(r, ast.Call) and _same_location(r, node))
        if not isinstance(r, ast.Call):
            return
        starred = [a for a in orig["args"] if isinstance(a, ast.Starred)]
        wrap = bool(starred) and not env.vars["_inb"]
        vfunc = self.replaced.get(id(orig["func"]), orig["func"])
        rargs = as_list(r.args)
        # the function: renamed only if it is (after visiting) the bare name str/int/float
        want_id = None
        if isinstance(vfunc, ast.Name):
            want_id = RENAME.get(orig["ids"][id(orig["func"])], orig["ids"][id(orig["func"])])
        newfunc = rargs[0] if wrap and rargs else r.func
        eng.check(f"{n}#function_is_the_visited_original", newfunc is vfunc)
        if want_id is not None:
            eng.check(f"{n}#str_int_float_renamed_in_call_position", getattr(newfunc, "id", None) == want_id, detail=f"{getattr(newfunc, 'id', None)} vs {want_id}")
        # nothing else is renamed (arguments named str, attributes named str)
        others = orig["names"]
        eng.check(f"{n}#names_outside_call_position_are_not_renamed", all(x.id == orig["ids"][id(x)] for x in others))
        eng.check(f"{n}#keywords_are_the_visited_keywords_in_order", as_list(r.keywords) == orig["keywords"] and all(any(k is v for v in self.visited) for k in orig["keywords"]))
        vis = lambda a: self.replaced.get(id(a), a)  # the visited form of an argument
        if not wrap:
            eng.check(f"{n}#without_star_arguments_the_call_shape_is_kept", r.func is newfunc and len(rargs) == len(orig["args"]) and all(a is vis(b) for a, b in zip(rargs, orig["args"])))
            eng.check(f"{n}#every_argument_is_visited_once", all(sum(1 for v in self.visited if v is a) == 1 for a in orig["args"]))
            eng.check(f"{n}#line_of_produced_node.Call", getattr(r, "lineno", None) == node.lineno and getattr(r, "end_lineno", None) == node.end_lineno)
            return
        eng.check(f"{n}#star_arguments_route_the_call_through_callWithStarArgs", isinstance(r.func, ast.Name) and r.func.id == "callWithStarArgs" and len(rargs) == 1 + len(orig["args"]))
        ok_args, ok_lines = True, True
        for new, old in zip(rargs[1:], orig["args"]):
            if isinstance(old, ast.Starred):
                inner = new.value if isinstance(new, ast.Starred) else None
                iargs = as_list(inner.args) if isinstance(inner, ast.Call) else []
                oval = orig["values"][id(old)]
                good = isinstance(inner, ast.Call) and isinstance(inner.func, ast.Name) and inner.func.id == "wrapStarredValue" and len(iargs) == 2 and iargs[0] is vis(oval) and isinstance(iargs[1], ast.Constant) and iargs[1].value == orig["lines"][id(oval)]
                ok_args = ok_args and good
            else:
                ok_args = ok_args and new is vis(old)
        eng.check(f"{n}#each_star_argument_is_wrapped_by_wrapStarredValue_with_its_line", ok_args)
        # line numbers: what compileScenicAST does next (fix_missing_locations) must give every new node the line of
        # the node it replaces
        import copy

        fixed = ast.fix_missing_locations(_pythonize(copy.copy(r)))
        kinds = {k: True for k in ("Call", "Name_callWithStarArgs", "Starred", "Call_wrapStarredValue", "Name_wrapStarredValue", "Constant_line_argument")}
        kinds["Call"] = getattr(fixed, "lineno", None) == node.lineno
        kinds["Name_callWithStarArgs"] = getattr(fixed.func, "lineno", None) == node.lineno
        for new, old in zip(as_list(fixed.args)[1:], orig["args"]):
            if isinstance(old, ast.Starred):
                sline, vline = orig["lines"][id(old)], orig["lines"][id(orig["values"][id(old)])]
                inner = getattr(new, "value", None)
                ok_lines = ok_lines and getattr(new, "lineno", None) == sline and getattr(inner, "lineno", None) == vline
                kinds["Starred"] = kinds["Starred"] and getattr(new, "lineno", None) == sline
                kinds["Call_wrapStarredValue"] = kinds["Call_wrapStarredValue"] and getattr(inner, "lineno", None) == vline
                kinds["Name_wrapStarredValue"] = kinds["Name_wrapStarredValue"] and getattr(getattr(inner, "func", None), "lineno", None) == vline
                ia = as_list(getattr(inner, "args", []))
                kinds["Constant_line_argument"] = kinds["Constant_line_argument"] and len(ia) == 2 and getattr(ia[1], "lineno", None) == vline
        eng.check(f"{n}#wrapped_star_argument_keeps_its_line", ok_lines, detail="the new Starred/wrapStarredValue nodes get the line of the whole call")
        for k, ok in kinds.items():
            eng.check(f"{n}#line_of_produced_node.{k}", ok)

    def _pythonize(node):
        """PList fields -> python lists (so that stdlib helpers can walk the produced tree)."""
        for f in getattr(node, "_fields", ()):
            v = getattr(node, f, None)
            if isinstance(v, PList):
                v = list(v.items)
                setattr(node, f, v)
            if isinstance(v, list):
                for x in v:
                    if isinstance(x, ast.AST):
                        _pythonize(x)
            elif isinstance(v, ast.AST):
                _pythonize(v)
        return node

    reg.add(
        C.Contract(
            f"{T}.visit_Call",
            params=dict(self=C.Const(None), node=C.Const(None)),
            setup=setup_call,
            post=post_call,
            raises=[C.Raises("Exception", mode="may")],
            replay=replay_call,
            properties=("C09", "C10"),
        )
    )

    # ---------------------------------------------------------------- visit_ClassDef (+ transformPropertyDef)
    S = scenic_ast()
    CLASSES = [
        "class A:\n    pass\n",
        "class A:\n    '''doc'''\n    x = 1\n    def m(self):\n        return 1\n",
        "class A(B):\n    x = 1\n",
        "class A(B, metaclass=M):\n    pass\n",
        "class A():\n    x = 1\n",
    ]

    def find_self_attrs(I, target, node):
        """model of AttributeFinder.find: the attributes accessed on `target`, and a raw use of the name if any"""
        attrs, raw = [], None
        skip = set()
        for x in ast.walk(node):
            if isinstance(x, ast.Attribute) and isinstance(x.value, ast.Name) and x.value.id == target:
                attrs.append(x.attr)
                skip.add(id(x.value))
        for x in ast.walk(node):
            if isinstance(x, ast.Name) and x.id == target and id(x) not in skip:
                raw = x
        return (PSet(sorted(set(attrs))), raw)

    reg.models[f"{COMPILER}:AttributeFinder.find"] = find_self_attrs
    reg.trust("AttributeFinder.find", "model: the set of attributes read from `self` in a default-value expression and a raw occurrence of `self` if any")

    def setup_class(I, env):
        eng = I.eng
        k = eng.choose(len(CLASSES) + 1, "class shape")
        with_prop = k == len(CLASSES)
        src = CLASSES[0] if with_prop else CLASSES[k]
        node = ast.parse(src).body[0]
        prop = None
        if with_prop:
            # a Scenic property definition between two ordinary statements
            prop = S.PropertyDef.__new__(S.PropertyDef)
            prop.property, prop.attributes = "width", []
            prop.value = ast.parse("self.length * 2", mode="eval").body
            _loc(prop, 3)
            node.body = [_loc(ast.Pass(), 2), prop, _loc(ast.Expr(value=_loc(ast.Constant(value=0), 4)), 4)]
        self = make_transformer(I)
        orig = dict(bases=list(node.bases), body=list(node.body), keywords=list(node.keywords), name=node.name, decorators=list(node.decorator_list), lineno=node.lineno)
        env.vars.update(self=self, node=node, _orig=orig, _prop=prop, _src=src)
        eng.input_syms.append(("source", C.Const(None), None if with_prop else src))

    def post_class(I, env, outcome):
        eng = I.eng
        n = "compiler.ScenicToPythonTransformer.visit_ClassDef"
        if outcome[0] == "raise":
            eng.check(f"{n}#no_exception", False, detail=_exc_name(outcome[1]))
            return
        r, node, orig, prop, self = outcome[1], env.vars["node"], env.vars["_orig"], env.vars["_prop"], env.vars["self"]
        eng.check(f"{n}#returns_the_generically_visited_class", r is node and any(v is node for v in self.visited))
        bases = as_list(node.bases)
        if orig["bases"]:
            eng.check(f"{n}#explicit_bases_are_kept", len(bases) == len(orig["bases"]) and all(a is b for a, b in zip(bases, orig["bases"])))
        else:
            eng.check(f"{n}#class_without_bases_derives_from_Object", len(bases) == 1 and isinstance(bases[0], ast.Name) and bases[0].id == "Object" and isinstance(bases[0].ctx, ast.Load))
        eng.check(f"{n}#name_keywords_decorators_line_unchanged", node.name == orig["name"] and as_list(node.keywords) == orig["keywords"] and as_list(node.decorator_list) == orig["decorators"] and node.lineno == orig["lineno"])
        body = as_list(node.body)
        tables = [s_ for s_ in body if isinstance(s_, ast.Assign) and len(as_list(s_.targets)) == 1 and isinstance(as_list(s_.targets)[0], ast.Name) and as_list(s_.targets)[0].id == "_scenic_properties" and not any(s_ is o for o in orig["body"])]
        eng.check(f"{n}#gains_exactly_one_property_table", len(tables) == 1)
        rest = [s_ for s_ in body if not any(s_ is t for t in tables)]
        plain = [s_ for s_ in orig["body"] if s_ is not prop]
        eng.check(f"{n}#other_statements_are_kept_in_order", len(rest) == len(plain) and all(a is b for a, b in zip(rest, plain)))
        if len(tables) != 1:
            return
        table = tables[0]
        keys, vals = as_list(table.value.keys), as_list(table.value.values)
        if prop is None:
            eng.check(f"{n}#table_of_a_plain_python_class_is_empty_and_last", keys == [] and vals == [] and body[-1] is table)
            return
        eng.check(f"{n}#table_sits_where_the_first_property_was", body.index(table) == orig["body"].index(prop))
        ok = len(keys) == 1 and isinstance(keys[0], ast.Constant) and keys[0].value == "width" and len(vals) == 1
        v = vals[0] if ok else None
        vargs = as_list(v.args) if isinstance(v, ast.Call) else []
        ok = ok and isinstance(v, ast.Call) and isinstance(v.func, ast.Name) and v.func.id == "_scenic_default" and len(vargs) == 3
        if ok:
            deps = sorted(e.value for e in as_list(vargs[0].elts)) if isinstance(vargs[0], ast.Set) else None
            ok = deps == ["length"] and isinstance(vargs[1], ast.Set) and as_list(vargs[1].elts) == [] and isinstance(vargs[2], ast.Lambda) and vargs[2].body is prop.value
            ok = ok and [a.arg for a in as_list(vargs[2].args.args)] == ["self"]
        eng.check(f"{n}#property_default_is_a__scenic_default_of_its_dependencies_and_a_lambda_over_self", bool(ok))

    reg.add(
        C.Contract(
            f"{T}.visit_ClassDef",
            params=dict(self=C.Const(None), node=C.Const(None)),
            setup=setup_class,
            post=post_class,
            inline=["ScenicToPythonTransformer.transformPropertyDef", "Transformer.makeSyntaxError"],
            raises=[C.Raises("Exception", mode="may")],
            replay=replay_class,
            properties=("C09",),
        )
    )

    # ---------------------------------------------------------------- control-flow hooks are transparent at top level
    SAMPLE = {
        "For": "for i in x:\n    pass\n",
        "While": "while x:\n    pass\n",
        "FunctionDef": "def f(a):\n    return a\n",
        "Break": "break\n",
        "Continue": "continue\n",
        "Return": "return x\n",
        "Yield": "(yield x)\n",
        "YieldFrom": "(yield from x)\n",
    }

    def mk_hook(hook):
        def setup(I, env):
            eng = I.eng
            src = SAMPLE[hook]
            stmt = ast.parse(src).body[0]
            node = stmt.value if hook in ("Yield", "YieldFrom") else stmt
            in_loop = eng.choose(2, "inside a loop?") == 1
            self = make_transformer(I, inLoop=in_loop)  # top level: not in a behavior / compose block / interrupt block
            env.vars.update(self=self, node=node, _inloop=in_loop)

        def post(I, env, outcome):
            eng = I.eng
            n = f"compiler.ScenicToPythonTransformer.visit_{hook}"
            if outcome[0] == "raise":
                eng.check(f"{n}#transparent_at_top_level", False, detail=_exc_name(outcome[1]))
                return
            self, node = env.vars["self"], env.vars["node"]
            eng.check(f"{n}#transparent_at_top_level", outcome[1] is node and [v for v in self.visited] == [node])
            f = self.fields
            eng.check(f"{n}#flags_restored", f["inLoop"] == env.vars["_inloop"] and f["inInterruptBlock"] is False and f["usedBreak"] is False and f["usedContinue"] is False)

        reg.add(
            C.Contract(
                f"{T}.visit_{hook}",
                params=dict(self=C.Const(None), node=C.Const(None)),
                setup=setup,
                post=post,
                inline=["Transformer.makeSyntaxError"],
                raises=[C.Raises("Exception", mode="may")],
                note="plain Python at top level: inBehavior = inCompose = inInterruptBlock = False",
                properties=("C09",),
            )
        )

    for h in HOOKS:
        mk_hook(h)

    # ---------------------------------------------------------------- frame census
    # every node class of the ast module except those the module itself documents as "Deprecated ... Unused in Python 3"
    PY_CLASSES = sorted(n for n, c in vars(ast).items() if isinstance(c, type) and issubclass(c, ast.AST) and not n.startswith("_") and c.__module__ in ("ast", "_ast") and not (c.__doc__ or "").startswith("Deprecated"))

    def visitor_names():
        node = extract.get_module(COMPILER).top["ScenicToPythonTransformer"]
        out = set()
        for b in node.body:
            if isinstance(b, ast.FunctionDef) and b.name.startswith("visit_"):
                out.add(b.name[6:])
            elif isinstance(b, ast.Assign):
                for t in b.targets:
                    for x in ast.walk(t):
                        if isinstance(x, ast.Name) and x.id.startswith("visit_"):
                            out.add(x.id[6:])
        return out

    def setup_frame(I, env):
        eng = I.eng
        cls = PY_CLASSES[eng.choose(len(PY_CLASSES), "python node class")]
        env.vars.update(scenicAST=PList([]), filename="<string>", _cls=cls)
        eng.input_syms.append(("class", C.Const(None), cls))

    def post_frame(I, env, outcome):
        eng = I.eng
        cls = env.vars["_cls"]
        has = cls in visitor_names()
        eng.check(
            f"compiler.ScenicToPythonTransformer#frame.only_children_of_{cls}_are_rewritten",
            (not has) or cls in DOCUMENTED or cls in HOOKS,
            detail=f"visit_{cls} exists and is neither a documented rewrite nor a hook proved transparent" if has else None,
        )
        if cls == PY_CLASSES[0]:
            ok = outcome[0] == "return" and isinstance(outcome[1], tuple) and len(outcome[1]) == 2 and as_list(outcome[1][0]) == [] and as_list(outcome[1][1]) == []
            eng.check("compiler.compileScenicAST#empty_program_compiles_to_nothing", ok)

    reg.add(
        C.Contract(
            f"{COMPILER}:compileScenicAST",
            params=dict(scenicAST=C.Const(None), filename=C.Const(None)),
            setup=setup_frame,
            post=post_frame,
            inline=["ScenicToPythonTransformer.__init__", "Transformer.__init__", "ScenicToPythonTransformer.visit"],
            raises=[C.Raises("Exception", mode="may")],
            note="census over every node class of the `ast` module: visit_X exists only for the documented rewrites and the verified hooks",
            properties=("C09",),
        ),
        key=f"{COMPILER}:compileScenicAST[frame-census]",
    )
    from standins import python_corpus

    python_corpus.register(reg)
