"""Property fragment for C15 (see contracts/determinism.py)."""

PROPERTIES = {
    "C15": dict(
        modules=["determinism", "interior_point"],
        level="proof",
        claim="2-run relational contracts (independent, arbitrary set iteration orders in the two runs) on the construction of requirement "
        "dependencies and Scenario.dependencies; sorted required properties; key-order independence of the options hash; RNG frame "
        "(both global generators restored after requirement checking) of Scenario._generateInner",
        note="set iteration order modelled as an arbitrary permutation per iteration (L-setorder); RNG state modelled as a position in an abstract stream per generator",
        assumptions=[
            "L-setorder: nothing is assumed about the iteration order of a set (covers hash randomisation and address-dependent hashes)",
            "random.getstate/setstate and numpy.random.get_state/set_state save and restore the complete generator state",
        ],
        not_reached=["nondeterminism inside trimesh/shapely/FCL", "the ray shuffle in canSee (private generator with a constant seed; findMeshInteriorPoint is under contract)", "WeightedAcceptanceChecker's time-dependent ordering (verdict order-independence is C02's sortedRequirements contract)"],
    )
}
