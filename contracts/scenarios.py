"""Sidecar contracts for scenic.core.scenarios (C02 default requirement set; C01/C15 generation loop).

`generateDefaultRequirements` is verified for scenes of THREE objects with symbolic flags (stated bound:
bounded in the number of objects, exact in everything else); the postcondition is the C02 statement."""
import z3

from pyvc import contracts as C
from pyvc.interp import BuiltinFn
from pyvc.values import Opaque, PDict, PObj, SV, sv_and, sv_not, sv_or, tobool

from .common import repo_class

S = "scenic.core.scenarios"
R = "scenic.core.requirements"


def _obj(eng, k, allow=None, occluding=None, requireVisible=False):
    o = PObj("Object", tag=f"obj{k}")
    o.ident = ("sobj", k)
    o.k = k
    o.fields["allowCollisions"] = eng.fresh_bool(f"obj{k}.allowCollisions") if allow is None else allow
    o.fields["occluding"] = eng.fresh_bool(f"obj{k}.occluding") if occluding is None else occluding
    o.fields["requireVisible"] = requireVisible
    o.fields["_observingEntity"] = None
    o.fields["_nonObservingEntity"] = None
    return o


def _cls(o):
    return getattr(o.cls, "name", o.cls)


def register(reg):
    reg.models[f"scenic.core.regions:convertToFootprint"] = lambda I, region: region
    reg.trust("convertToFootprint", "modelled as the identity on region identities in Scenario.containerOfObject (footprint semantics are C16)")

    def base_scenario(I, objs, instances, ego, workspace_all):
        sc = PObj(repo_class(f"{S}:Scenario"), tag="scenario")
        region = PObj(repo_class("scenic.core.regions:AllRegion" if workspace_all else "scenic.core.regions:PolygonalRegion"), tag="workspaceRegion")
        ws = PObj("Workspace", tag="workspace")
        ws.fields["region"] = region
        sc.fields.update(objects=tuple(objs), _instances=tuple(instances), egoObject=ego, workspace=ws)
        return sc, region

    # ------------------------------------------------------------------ (A) collisions and containment
    def setup_a(I, env):
        eng = I.eng
        objs = [_obj(eng, k, occluding=False) for k in range(3)]
        has_container = eng.choose(2, "obj1.regionContainedIn?") == 1
        cont = None
        if has_container:
            cont = PObj(repo_class("scenic.core.regions:PolygonalRegion"), tag="container1")
            objs[1].fields["regionContainedIn"] = cont
        elif eng.choose(2, "obj1 has attribute?") == 1:
            objs[1].fields["regionContainedIn"] = None
        ws_all = eng.choose(2, "workspace is everywhere?") == 1
        sc, region = base_scenario(I, objs, objs, objs[0], ws_all)
        env.vars["self"] = sc
        env.vars["_objs"], env.vars["_cont"], env.vars["_wsregion"], env.vars["_ws_all"] = objs, cont, region, ws_all

    def post_a(I, env, outcome):
        eng = I.eng
        name = "scenarios.Scenario.generateDefaultRequirements[collision+containment]"
        if outcome[0] != "return":
            return
        reqs = list(outcome[1])
        objs, cont, region, ws_all = env.vars["_objs"], env.vars["_cont"], env.vars["_wsregion"], env.vars["_ws_all"]
        inter = [r for r in reqs if _cls(r) == "IntersectionRequirement"]
        for i in range(3):
            for j in range(i + 1, 3):
                a, b = objs[i], objs[j]
                have = [r for r in inter if {id(r.fields["objA"]), id(r.fields["objB"])} == {id(a), id(b)}]
                mandatory = [r for r in have if r.fields["optional"] is False]
                # needed unless one of them is known to allow collisions
                needed = sv_and(sv_not(a.fields["allowCollisions"]), sv_not(b.fields["allowCollisions"]))
                eng.check(f"{name}#ensures.pair_{i}{j}_has_one_mandatory_intersection_requirement", z3.Implies(tobool(needed), z3.BoolVal(len(mandatory) == 1 and len(have) == 1)))
        conts = [r for r in reqs if _cls(r) == "ContainmentRequirement"]
        for k, o in enumerate(objs):
            expect = cont if (k == 1 and cont is not None) else (None if ws_all else region)
            mine = [r for r in conts if r.fields["obj"] is o]
            if expect is None:
                ok = len(mine) == 0
            else:
                ok = len(mine) == 1 and mine[0].fields["container"] is expect and mine[0].fields["optional"] is False
            eng.check(f"{name}#ensures.object_{k}_contained_in_its_container_else_workspace", ok)
        for r in reqs:
            if r.fields["optional"] is not False:
                eng.check(f"{name}#ensures.only_the_blanket_check_is_optional", _cls(r) == "BlanketCollisionRequirement")

    reg.add(
        C.Contract(
            f"{S}:Scenario.generateDefaultRequirements",
            params=dict(self=C.Const(None)),
            setup=setup_a,
            post=post_a,
            inline_all=True,
            bounded=True,
            note="bounded: exactly 3 objects",
            replay=replay_default_requirements,
            properties=("C02",),
        ),
        key=f"{S}:Scenario.generateDefaultRequirements[collision+containment]",
    )

    # ------------------------------------------------------------------ (B) visibility requirements
    def setup_b(I, env):
        eng = I.eng
        objs = [_obj(eng, k, allow=True) for k in range(3)]
        observer = PObj("OrientedPoint", tag="observer")
        observer.fields.update(_observingEntity=None, _nonObservingEntity=None)
        objs[1].fields["_observingEntity"] = observer
        kind2 = eng.choose(3, "obj2 relation?")
        if kind2 == 0:
            objs[2].fields["_observingEntity"] = observer
        elif kind2 == 1:
            objs[2].fields["_nonObservingEntity"] = observer
        objs[1].fields["requireVisible"] = eng.choose(2, "obj1.requireVisible?") == 1
        has_ego = eng.choose(2, "ego?") == 1
        sc, region = base_scenario(I, objs, objs + [observer], objs[0] if has_ego else None, True)
        env.vars["self"] = sc
        env.vars["_objs"], env.vars["_observer"], env.vars["_kind2"], env.vars["_has_ego"] = objs, observer, kind2, has_ego

    def post_b(I, env, outcome):
        eng = I.eng
        name = "scenarios.Scenario.generateDefaultRequirements[visibility]"
        objs, observer, kind2, has_ego = env.vars["_objs"], env.vars["_observer"], env.vars["_kind2"], env.vars["_has_ego"]
        if outcome[0] != "return":
            exc = outcome[1]
            ok = objs[1].fields["requireVisible"] and not has_ego and getattr(exc.cls, "name", "") == "InvalidScenarioError"
            eng.check(f"{name}#raises.only_requireVisible_without_ego", bool(ok))
            return
        reqs = list(outcome[1])

        def expect_occluders(source, target):
            # every object that may occlude, other than source and target
            return [o for o in objs if o is not source and o is not target]

        def check_vis(tag, cls_name, source, target, through_filter=True):
            mine = [r for r in reqs if _cls(r) == cls_name and r.fields["source"] is source and r.fields["target"] is target]
            eng.check(f"{name}#ensures.{tag}.exists_once_and_mandatory", len(mine) == 1 and mine[0].fields["optional"] is False)
            if len(mine) != 1:
                return
            got = mine[0].fields["potential_occluders"]
            for o in expect_occluders(source, target):
                present = any(x is o for x in got)
                # an object known not to occlude may be left out; every other one must be a potential occluder
                eng.check(f"{name}#ensures.{tag}.possible_occluder_obj{o.k}_considered", z3.Implies(tobool(o.fields["occluding"]), z3.BoolVal(present)))
            eng.check(f"{name}#ensures.{tag}.source_and_target_not_occluders", not any(x is source or x is target for x in got))

        check_vis("obj1_visible_from_observer", "VisibilityRequirement", observer, objs[1])
        if kind2 == 0:
            check_vis("obj2_visible_from_observer", "VisibilityRequirement", observer, objs[2])
        elif kind2 == 1:
            check_vis("obj2_not_visible_from_observer", "NonVisibilityRequirement", observer, objs[2])
        if objs[1].fields["requireVisible"] and has_ego:
            check_vis("obj1_visible_from_ego", "VisibilityRequirement", objs[0], objs[1])
        n_vis = len([r for r in reqs if _cls(r) in ("VisibilityRequirement", "NonVisibilityRequirement")])
        want = 1 + (1 if kind2 in (0, 1) else 0) + (1 if (objs[1].fields["requireVisible"] and has_ego) else 0)
        eng.check(f"{name}#ensures.no_other_visibility_requirements", n_vis == want)

    reg.add(
        C.Contract(
            f"{S}:Scenario.generateDefaultRequirements",
            params=dict(self=C.Const(None)),
            setup=setup_b,
            post=post_b,
            raises=[C.Raises("InvalidScenarioError", mode="may")],
            inline_all=True,
            bounded=True,
            note="bounded: exactly 3 objects and one observer",
            replay=replay_default_requirements,
            properties=("C02", "C17", "C01"),
        ),
        key=f"{S}:Scenario.generateDefaultRequirements[visibility]",
    )


def replay_default_requirements(inputs, clause):
    """Real scenarios compiled from Scenic source; the clause is evaluated on scenario.defaultRequirements."""
    import scenic
    from scenic.core.requirements import ContainmentRequirement, IntersectionRequirement, NonVisibilityRequirement, VisibilityRequirement

    progs = [
        # two objects that must be visible from the same observer, plus an occluder
        "ego = new Object at (0, 0, 0)\np = new OrientedPoint at (10, 0, 0)\na = new Object at (10, 5, 0), visible from p\nb = new Object at (10, 10, 0), visible from p\nw = new Object at (20, 20, 0)\n",
        "ego = new Object at (0, 0, 0)\np = new OrientedPoint at (10, 0, 0)\na = new Object at (10, 5, 0), visible from p\nb = new Object at (10, 100, 0), not visible from p\nw = new Object at (20, 20, 0)\n",
        "ego = new Object at (0, 0, 0)\na = new Object at (10, 5, 0), with allowCollisions True\nb = new Object at (10, 10, 0)\n",
        "workspace = Workspace(RectangularRegion((0,0,0), 0, 100, 100))\nego = new Object at (0, 0, 0)\nb = new Object at (10, 10, 0), with regionContainedIn RectangularRegion((10,10,0), 0, 20, 20)\n",
    ]
    for src in progs:
        sc = scenic.scenarioFromString(src, mode2D=False)
        reqs = sc.defaultRequirements
        objs = sc.objects
        vis = [r for r in reqs if isinstance(r, VisibilityRequirement)]
        for r in vis:
            want = [o for o in objs if o is not r.source and o is not r.target and o.occluding]
            missing = [o for o in want if not any(o is x for x in r.potential_occluders)]
            if missing:
                kind = "not visible" if isinstance(r, NonVisibilityRequirement) else "visible"
                idx = lambda o: "object#%d" % [i for i, x in enumerate(objs) if x is o][0]
                return f"the `{kind} from` requirement for {idx(r.target)} has potential occluders {[idx(o) for o in r.potential_occluders]} and omits the occluding {[idx(o) for o in missing]} (program: {src!r})"
        for i, a in enumerate(objs):
            for b in objs[i + 1 :]:
                if a.allowCollisions or b.allowCollisions:
                    continue
                have = [r for r in reqs if isinstance(r, IntersectionRequirement) and not r.optional and {id(r.objA), id(r.objB)} == {id(a), id(b)}]
                if len(have) != 1:
                    return f"{len(have)} mandatory intersection requirements for the pair ({a}, {b}) (program: {src!r})"
        for o in objs:
            cont = [r for r in reqs if isinstance(r, ContainmentRequirement) and r.obj is o]
            expect = sc.containerOfObject(o)
            from scenic.core.regions import AllRegion

            if isinstance(expect, AllRegion):
                continue
            if len(cont) != 1 or cont[0].optional:
                return f"object {o} has {len(cont)} containment requirements (program: {src!r})"
    return None
