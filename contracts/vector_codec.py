"""C18: Vector.encodeTo / decodeFrom (three little-endian doubles) and Distribution.__new__ during a
simulation (C18 replay of run-time random values; C19: sampled at that moment, independently)."""
import z3

from pyvc import contracts as C
from pyvc.builtins_model import isdouble
from pyvc.interp import BuiltinFn
from pyvc.interp import ClassVal
from pyvc.values import Opaque, PDict, PObj, SV, compare, sv_and, tobool, tonum, toz3

from .common import VectorT, install_distribution_stubs, repo_class

V = "scenic.core.vectors"
D = "scenic.core.distributions"


def register(reg):
    install_distribution_stubs(reg)
    register_orientation(reg)

    @reg.spec
    def vec_at(Dt, p, v):
        c = v.fields["coordinates"]
        return SV(z3.And(*[isdouble(Dt, tonum(p) + 8 * i, toz3(c[i], want_real=True)) for i in range(3)]))

    reg.add(
        C.Contract(
            f"{V}:Vector.encodeTo",
            params=dict(cls=C.Const(lambda eng: repo_class(f"{V}:Vector")), vec=VectorT(), stream=C.Stream(at_end=True)),
            ensures={"layout": "vec_at(stream.data, old(stream.pos), vec)", "advance": "stream.pos == old(stream.pos) + 24 and stream.length == stream.pos"},
            properties=("C18",),
        )
    )

    def post_dec(I, env, outcome):
        eng = I.eng
        name = "vectors.Vector.decodeFrom"
        st = env.vars["stream"]
        old = env.vars["_old"].vars["stream"]
        if outcome[0] == "raise":
            eng.check(f"{name}#raises.only_on_short_input", compare("<", old.length - old.pos, 24))
            return
        eng.check(f"{name}#ensures.refuses_truncation", compare(">=", old.length - old.pos, 24))
        v = env.vars["_v"]
        hyp = z3.And(*[isdouble(old.data, tonum(old.pos) + 8 * i, toz3(v.fields["coordinates"][i], want_real=True)) for i in range(3)])
        res = outcome[1]
        ok = isinstance(res, PObj) and getattr(res.cls, "name", "") == "Vector"
        eng.check(f"{name}#ensures.result_is_a_vector", ok)
        if ok:
            eq = sv_and(*[compare("==", a, b) for a, b in zip(res.fields["coordinates"], v.fields["coordinates"])])
            eng.check(f"{name}#ensures.decodes_what_encodeTo_wrote", z3.Implies(hyp, tobool(eq)))

    reg.add(
        C.Contract(
            f"{V}:Vector.decodeFrom",
            params=dict(cls=C.Const(lambda eng: repo_class(f"{V}:Vector")), stream=C.Stream(), _v=VectorT()),
            post=post_dec,
            inline_all=True,
            raises=[C.Raises("struct.error", mode="may")],
            properties=("C18",),
        )
    )

    # ---------------------------------------------------------------- Distribution.__new__ in a simulation
    def setup_new(I, env):
        eng = I.eng
        cls = repo_class(f"{D}:Distribution")
        env.vars["cls"] = cls
        in_sim = eng.choose(2, "simulation in progress?") == 1
        in_req = eng.choose(2, "evaluating requirement?") == 1
        can_replay = eng.choose(2, "replay can continue?") == 1
        log = []
        sim = PObj("Simulation", tag="sim")
        replayed, sampled = Opaque("replayed value"), Opaque("freshly sampled value")

        def replaySampledValue(dist, values):
            log.append(("replay", dist, values, list(values.fields["storage"].keys)))
            return replayed

        def recordSampledValue(dist, values):
            log.append(("record", dist, values, I.bm.get_item(I, values, dist)))

        sim.fields.update(
            replayCanContinue=BuiltinFn("replayCanContinue", lambda: can_replay),
            replaySampledValue=BuiltinFn("replaySampledValue", replaySampledValue),
            recordSampledValue=BuiltinFn("recordSampledValue", recordSampledValue),
        )
        veneer = PObj("veneer", tag="veneer")
        veneer.fields.update(simulationInProgress=BuiltinFn("simulationInProgress", lambda: in_sim), simulation=BuiltinFn("simulation", lambda: sim), evaluatingRequirement=in_req)
        reg.extra_modules = getattr(reg, "extra_modules", {})
        reg.extra_modules["scenic"] = veneer_pkg(veneer)

        def sample(I2, self, subsamples=None):
            log.append(("sample", self, subsamples, list(subsamples.fields["storage"].keys) if subsamples is not None else None))
            return sampled

        reg.models[f"{D}:Samplable.sample"] = sample
        env.vars.update(_log=log, _in_sim=in_sim, _in_req=in_req, _can_replay=can_replay, _replayed=replayed, _sampled=sampled)

    def veneer_pkg(veneer):
        from pyvc.builtins_model import NativeModule

        return NativeModule("scenic", {"syntax": NativeModule("scenic.syntax", {"veneer": veneer})})

    def post_new(I, env, outcome):
        eng = I.eng
        name = "distributions.Distribution.__new__"
        log, in_sim, in_req, can_replay = env.vars["_log"], env.vars["_in_sim"], env.vars["_in_req"], env.vars["_can_replay"]
        if outcome[0] == "raise":
            cn = getattr(outcome[1].cls, "name", getattr(outcome[1].cls, "__name__", "?"))
            eng.check(f"{name}#raises.only_inside_requirements_outside_simulations", cn == "InvalidScenarioError" and in_req and not in_sim)
            return
        res = outcome[1]
        if not in_sim:
            eng.check(f"{name}#ensures.outside_simulations_the_distribution_object_is_returned", isinstance(res, PObj) and res.cls is env.vars["cls"] and not log)
            eng.check(f"{name}#raises.must_refuse_distributions_inside_requirements", not in_req)
            return
        kinds = [e[0] for e in log]
        if can_replay:
            eng.check(f"{name}#ensures.replayed_value_used_when_replaying", kinds == ["replay", "record"] and res is env.vars["_replayed"])
        else:
            eng.check(f"{name}#ensures.sampled_at_once_when_not_replaying", kinds == ["sample", "record"] and res is env.vars["_sampled"])
        if len(log) == 2:
            first, rec = log
            # independence of earlier draws: the sample map handed to sample()/replay is created here and empty
            eng.check(f"{name}#ensures.fresh_empty_sample_map_each_time", first[3] == [])
            eng.check(f"{name}#ensures.value_recorded_for_replay_under_the_distribution", rec[1] is first[1] and rec[2] is first[2] and rec[3] is res)

    reg.add(
        C.Contract(
            f"{D}:Distribution.__new__",
            params=dict(cls=C.Const(None)),
            setup=setup_new,
            post=post_new,
            raises=[C.Raises("InvalidScenarioError", mode="may")],
            properties=("C18", "C19"),
        )
    )


def register_orientation(reg):
    """Orientation.encodeTo / decodeFrom: four doubles = the quaternion, not re-normalised when decoding."""
    import z3

    from pyvc.builtins_model import NativeModule, isdouble
    from pyvc.values import PObj, SV, compare, sv_and, tobool, tonum, toz3

    class RotationModel:
        name = "scipy.spatial.transform.Rotation"

    def rotation_ctor(quat, normalize=True, copy=True):
        r = PObj("Rotation", tag="rotation")
        r.fields["quat"] = tuple(quat)
        r.fields["normalized"] = normalize
        r.fields["as_quat"] = BuiltinFn("as_quat", lambda: r.fields["quat"])
        return r

    def isinstance_hook(I, x, cls):
        if cls is RotationModel or getattr(cls, "fn", None) is rotation_ctor or getattr(cls, "full", "").endswith(":Rotation"):
            return isinstance(x, PObj) and x.cls == "Rotation"
        return None

    reg.constructors["scipy.spatial.transform._rotation:Rotation"] = lambda I, cls, args, kwargs: rotation_ctor(*args, **kwargs)

    def orient(eng, name, I):
        o = PObj(repo_class(f"{V}:Orientation"), tag=name)
        q = tuple(eng.fresh_real(f"{name}.q{i}") for i in range(4))
        o.fields["q"] = q
        for i, x in enumerate(q):
            eng.input_syms.append((f"{name}.q{i}", C.Real(), x))
        return o

    def setup_common(I, env):
        reg.isinstance_hook = isinstance_hook
        I.registry.global_overrides[f"{V}:Rotation"] = None

    @reg.spec
    def quat_at(Dt, p, o):
        q = o.fields["q"]
        return SV(z3.And(*[isdouble(Dt, tonum(p) + 8 * i, toz3(q[i], want_real=True)) for i in range(4)]))

    reg.add(
        C.Contract(
            f"{V}:Orientation.encodeTo",
            params=dict(cls=C.Const(lambda eng: repo_class(f"{V}:Orientation")), orientation=C.Ghost(orient), stream=C.Stream(at_end=True)),
            ensures={"layout": "quat_at(stream.data, old(stream.pos), orientation)", "advance": "stream.pos == old(stream.pos) + 32 and stream.length == stream.pos"},
            properties=("C18",),
        )
    )

    def post_dec(I, env, outcome):
        eng = I.eng
        name = "vectors.Orientation.decodeFrom"
        old = env.vars["_old"].vars["stream"]
        if outcome[0] == "raise":
            eng.check(f"{name}#raises.only_on_short_input", compare("<", old.length - old.pos, 32))
            return
        eng.check(f"{name}#ensures.refuses_truncation", compare(">=", old.length - old.pos, 32))
        o = env.vars["_o"]
        hyp = z3.And(*[isdouble(old.data, tonum(old.pos) + 8 * i, toz3(o.fields["q"][i], want_real=True)) for i in range(4)])
        res = outcome[1]
        ok = isinstance(res, PObj) and getattr(res.cls, "name", "") == "Orientation" and isinstance(res.fields.get("q"), tuple) and len(res.fields["q"]) == 4
        eng.check(f"{name}#ensures.result_is_an_orientation", ok)
        if ok:
            eq = sv_and(*[compare("==", a, b) for a, b in zip(res.fields["q"], o.fields["q"])])
            eng.check(f"{name}#ensures.quaternion_restored_exactly_without_renormalisation", z3.Implies(hyp, tobool(eq)))
            eng.check(f"{name}#ensures.rotation_built_without_normalisation", res.fields["r"].fields["normalized"] is False)

    reg.extra_modules = getattr(reg, "extra_modules", {})
    reg.extra_modules.setdefault("scipy", NativeModule("scipy", {"spatial": NativeModule("scipy.spatial", {"transform": NativeModule("scipy.spatial.transform", {"Rotation": BuiltinFn("Rotation", rotation_ctor)})})}))
    from pyvc import builtins_model as _bm

    _bm.EXTERNAL.setdefault("scipy.spatial.transform.Rotation", lambda I: BuiltinFn("Rotation", rotation_ctor))
    reg.isinstance_hook = isinstance_hook
    reg.add(
        C.Contract(
            f"{V}:Orientation.decodeFrom",
            params=dict(cls=C.Const(lambda eng: repo_class(f"{V}:Orientation")), stream=C.Stream(), _o=C.Ghost(orient)),
            post=post_dec,
            inline=["Orientation.__init__"],
            raises=[C.Raises("struct.error", mode="may")],
            properties=("C18",),
        )
    )
    reg.trust("scipy Rotation (codec)", "Rotation(quat, normalize=False).as_quat() returns quat unchanged")
