"""Sidecar contracts for scenic.core.regions / geometry (C16): region operations obey set semantics in 3-D.

Oracle (from the property statement): every region R denotes a point set mem3(R, p) over R^3
  * PolygonalRegion (and Circular/Sector/Rectangular): the polygon's points AT HEIGHT z (planar regions keep their height),
  * PolygonalFootprintRegion: the polygon's points at any height,   * PolylineRegion: the line's points at z = 0,
  * PointSetRegion: its points,   * everywhere / nowhere: all / no points,
  * IntersectionRegion / UnionRegion / DifferenceRegion: the Boolean combination of the operands' sets.
`A.intersect(B)`, `A.union(B)`, `A.difference(B)` must return a region whose set is the corresponding set operation
(for probe points clear of the operands' boundaries), `intersects` holds exactly when the sets share a point,
`distanceTo` is zero exactly on members and otherwise the Euclidean distance to the nearest member, `projectVector`
returns the nearest hit along +-direction, and bounding boxes enclose every member.

Planar geometry (shapely), numpy and trimesh are library models (pyvc/models_shapely.py, trusted and listed)."""
import z3

from pyvc import contracts as C
from pyvc import models_shapely as MS
from pyvc.interp import BuiltinFn, ClassVal
from pyvc.values import Infinity, PList, PObj, SV, arith, compare, sv_and, sv_implies, sv_ite, sv_not, sv_or, tobool, toz3

from .common import make_vector, repo_class

RG = "scenic.core.regions"
GEO = "scenic.core.geometry"
_R = z3.RealSort()


def RC(name):
    return repo_class(f"{RG}:{name}")


def cname(x):
    c = getattr(x, "cls", None)
    return getattr(c, "name", c)


def is_a(I, r, name):
    return isinstance(r, PObj) and isinstance(r.cls, ClassVal) and I.is_subclass(r.cls, RC(name))


def init_samplable(o, lazy=False):
    o.fields.update(_dependencies=(), _requiredProperties=(), _needsSampling=lazy, _needsLazyEval=False, _isLazy=lazy)
    o.fields["_conditioned"] = o
    return o


def _is_lazy(d):
    if isinstance(d, PObj):
        v = d.fields.get("_isLazy", False)
        return v is True
    return False


class CoordsOf:
    """`geom.coords` / `pt.coords[0]` of a point geometry whose coordinates are not individually modelled."""

    def __init__(self, geom):
        self.geom = geom


def install_stubs(reg):
    """Trusted stubs shared by the region contracts (book-keeping constructors and coercions)."""
    MS.install(reg)
    if getattr(reg, "_region_stubs", False):
        return
    reg._region_stubs = True

    def region_init(I, self, name, *deps, orientation=None):
        self.fields["name"] = name
        self.fields["orientation"] = orientation
        lazy = any(_is_lazy(d) for d in deps)
        init_samplable(self, lazy)
        self.fields["_dependencies"] = tuple(d for d in deps if _is_lazy(d))
        return None

    reg.models[f"{RG}:Region.__init__"] = region_init
    reg.trust("Region.__init__", "stub: stores name and orientation; the region is lazy exactly when one of its dependencies is (Samplable book-keeping is C01)")

    def to_vector(I, thing, typeError=None):
        if isinstance(thing, PObj) and "coordinates" in thing.fields:
            return thing
        if isinstance(thing, (tuple, PList)):
            items = list(thing if isinstance(thing, tuple) else thing.items)
            if 2 <= len(items) <= 3:
                return make_vector(*items)
        if isinstance(thing, MS.NDArr) and thing.shape in ((2,), (3,)):
            return make_vector(*thing.data)
        I.raise_("TypeError", "non-vector in vector context")

    reg.models["scenic.core.type_support:toVector"] = to_vector
    reg.models["scenic.core.type_support:toScalar"] = lambda I, v, msg=None: v
    reg.trust("type_support.toVector/toScalar", "stubs: a Vector is returned unchanged, a 2/3-tuple becomes Vector(*t); scalars unchanged")

    def vector_ctor(I, cls, args, kwargs):
        if len(args) == 2:
            args = tuple(args) + (kwargs.get("z", 0),)
        if len(args) != 3:
            I.raise_("TypeError", "Vector() takes 2 or 3 coordinates")
        v = make_vector(*args)
        v.cls = cls
        if cls.name == "OrientedVector":
            pass
        return v

    reg.constructors["scenic.core.vectors:Vector"] = vector_ctor
    reg.trust("Vector.__init__", "stub: Vector(x, y, z=0) stores coordinates (x, y, z) (Samplable book-keeping is C01)")

    def oriented_ctor(I, cls, args, kwargs):
        x, y, z, h = args
        v = make_vector(x, y, z)
        v.cls = cls
        v.fields["heading"] = h
        return v

    reg.constructors["scenic.core.vectors:OrientedVector"] = oriented_ctor

    def for_union_of(I, regions, tolerance=0):
        return None

    reg.models["scenic.core.vectors:VectorField.forUnionOf"] = for_union_of
    reg.trust("VectorField.forUnionOf", "stub: preferred orientations are not part of the set semantics (returns None)")

    def polyline_ctor(I, cls, args, kwargs):
        o = PObj(cls)
        init_samplable(o)
        polyline = kwargs.get("polyline", args[1] if len(args) > 1 else None)
        points = kwargs.get("points", args[0] if args else None)
        if polyline is None:
            polyline = MS.make_geom(I, "LineString", empty=False, tag="line")
        if not (MS.is_geom(polyline) and MS.gdim(polyline) == 1):
            I.raise_("ValueError", "tried to create PolylineRegion from non-LineString")
        o.fields.update(lineString=polyline, points=points, orientation=kwargs.get("orientation", True), name=kwargs.get("name"), _usingDefaultOrientation=kwargs.get("orientation", True) is True)
        return o

    reg.constructors[f"{RG}:PolylineRegion"] = polyline_ctor
    reg.trust("PolylineRegion.__init__", "stub: PolylineRegion(polyline=L) has lineString L (a LineString / MultiLineString, else ValueError); it lies at z = 0")

    def pointset_ctor(I, cls, args, kwargs):
        o = PObj(cls)
        init_samplable(o)
        name, points = args[0], args[1]
        src = points.items[0] if isinstance(points, PList) and points.items else points
        if isinstance(src, tuple) and len(src) == 1:
            src = src[0]
        o.fields.update(name=name, orientation=kwargs.get("orientation"), tolerance=kwargs.get("tolerance", 1e-6))
        if isinstance(src, CoordsOf):
            g = src.geom
            o.fields["_mem3"] = lambda p, g=g: sv_and(MS.gmem(g, p[0], p[1]), compare("==", p[2], 0))
        else:
            pred = z3.Function(f"mem3!{o.tag}", _R, _R, _R, z3.BoolSort())
            o.fields["_mem3"] = lambda p: SV(pred(*[toz3(c, want_real=True) for c in p]))
        return o

    reg.constructors[f"{RG}:PointSetRegion"] = pointset_ctor
    reg.trust("PointSetRegion.__init__", "stub: a point set built from 2-D shapely points consists of those points at z = 0 (numpy/KD-tree set-up not modelled)")

    def getitem_fallback(I, obj, idx):
        if isinstance(obj, CoordsOf):
            return obj
        return MS._getitem_fallback(I, obj, idx)

    reg.getitem_fallback = getitem_fallback


# ---------------------------------------------------------------------------------------------------
# model objects


def point_like_coords(g):
    g.fields["coords"] = CoordsOf(g)
    return g


def patch_point_results(I):
    """Point / MultiPoint results of set operations expose their coordinates as an opaque `CoordsOf`."""
    orig = MS.make_geom
    return orig


def mk_polygonal(I, tag, z=None, cls="PolygonalRegion", orientation=None, kind="MultiPolygon", polygons=None):
    eng = I.eng
    r = PObj(RC(cls), tag=tag)
    init_samplable(r)
    if z is None:
        z = eng.fresh_real(tag + ".z")
        eng.input_syms.append((tag + ".z", C.Real(), z))
    g = polygons if polygons is not None else MS.make_geom(I, kind, empty=False, tag=tag + ".polygons")
    r.fields.update(_polygons=g, z=z, orientation=orientation, name=None, _points=(), _polygon=g)
    return r


def mk_footprint(I, tag):
    r = PObj(RC("PolygonalFootprintRegion"), tag=tag)
    init_samplable(r)
    r.fields.update(polygons=MS.make_geom(I, "MultiPolygon", empty=False, tag=tag + ".polygons"), orientation=None, name=None, _bounded_cache=None)
    return r


def mk_polyline(I, tag, orientation=None):
    r = PObj(RC("PolylineRegion"), tag=tag)
    init_samplable(r)
    r.fields.update(lineString=MS.make_geom(I, "LineString", empty=False, tag=tag + ".lineString"), orientation=orientation, name=None, points=None, _usingDefaultOrientation=False)
    return r


def mk_abstract(I, tag, log, selfobj=None, orientation=None):
    """A region of an unknown class.  Its operations are *assumed* to satisfy this property's contract (the
    dispatch is verified assume-guarantee: every override is itself under contract): they are logged and return a
    token whose point set is the set operation."""
    o = PObj("AbstractRegion", tag=tag)
    init_samplable(o)
    pred = z3.Function(f"mem3!{tag}", _R, _R, _R, z3.BoolSort())
    o.fields["_mem3"] = lambda p: SV(pred(*[toz3(c, want_real=True) for c in p]))
    o.fields["orientation"] = orientation
    o.fields["name"] = tag

    def op(name):
        def call(*a, **k):
            log.append((name, o, a, k))
            arg = a[0] if a else None
            if name == "intersects":
                return I.eng.fresh_bool(f"{tag}.intersects")
            t = PObj("RegionToken", tag=f"{tag}.{name}()")
            t.fields["_op"] = (name, o, arg)
            if name == "intersect":
                t.fields["_mem3"] = lambda p: sv_and(mem3(I, o, p), mem3(I, arg, p))
            elif name == "union":
                t.fields["_mem3"] = lambda p: sv_or(mem3(I, o, p), mem3(I, arg, p))
            else:
                t.fields["_mem3"] = lambda p: sv_and(mem3(I, o, p), sv_not(mem3(I, arg, p)))
            t.fields["orientation"] = None
            return t

        return BuiltinFn(name, call)

    for n in ("intersect", "union", "difference", "intersects"):
        o.fields[n] = op(n)
    return o


def mem3(I, r, p):
    """The point set denoted by a region (the oracle; see module docstring)."""
    x, y, z = p
    if not isinstance(r, PObj):
        raise Exception(f"not a region: {r!r}")
    if "_mem3" in r.fields:
        return r.fields["_mem3"](p)
    if is_a(I, r, "EmptyRegion"):
        return False
    if is_a(I, r, "AllRegion"):
        return True
    if is_a(I, r, "PolygonalRegion"):
        return sv_and(MS.gmem(r.fields["_polygons"], x, y), compare("==", z, r.fields["z"]))
    if is_a(I, r, "PolygonalFootprintRegion"):
        return MS.gmem(r.fields["polygons"], x, y)
    if is_a(I, r, "PolylineRegion"):
        return sv_and(MS.gmem(r.fields["lineString"], x, y), compare("==", z, 0))
    if is_a(I, r, "IntersectionRegion"):
        return sv_and(*[mem3(I, s, p) for s in r.fields["regions"]])
    if is_a(I, r, "UnionRegion"):
        return sv_or(*[mem3(I, s, p) for s in r.fields["regions"]])
    if is_a(I, r, "DifferenceRegion"):
        return sv_and(mem3(I, r.fields["regionA"], p), sv_not(mem3(I, r.fields["regionB"], p)))
    raise Exception(f"no point-set semantics for {r!r}")


def planar_geoms(I, r):
    out = []
    for k in ("_polygons", "polygons", "lineString"):
        g = r.fields.get(k) if isinstance(r, PObj) else None
        if MS.is_geom(g):
            out.append(g)
    return out


def probe(I, name="p"):
    eng = I.eng
    p = tuple(eng.fresh_real(f"{name}.{c}") for c in "xyz")
    eng.input_syms.append((name, C.TupleOf(C.Real(), C.Real(), C.Real()), p))
    MS.world(I).add_point(p[0], p[1])
    return p


def clear_of_boundaries(I, p, *regions):
    """`a point clear of their boundaries` (property statement): p is not within tolerance of the boundary of a
    polygonal operand; for 1-dimensional operands every point is a boundary point."""
    acc = []
    for r in regions:
        for g in planar_geoms(I, r):
            if MS.gdim(g) == 2:
                acc.append(sv_not(MS.gbd(g, p[0], p[1])))
    return sv_and(*acc) if acc else True


def iff(a, b):
    ta, tb = tobool(a), tobool(b)
    return SV(ta == tb)


OTHER_KINDS = ["polygonal", "footprint", "polyline", "generic"]


def mk_other(I, kind, log, tag="other"):
    if kind == "polygonal":
        return mk_polygonal(I, tag)
    if kind == "footprint":
        return mk_footprint(I, tag)
    if kind == "polyline":
        return mk_polyline(I, tag)
    return mk_abstract(I, tag, log)


# ---------------------------------------------------------------------------------------------------


def register(reg):
    install_stubs(reg)
    _patch_make_geom()
    register_polygonal_setops(reg)


def _patch_make_geom():
    """Point-like results of set operations: `.coords` is an opaque handle understood by the PointSetRegion stub."""
    if getattr(MS, "_coords_patched", False):
        return
    MS._coords_patched = True
    orig = MS.make_geom

    def make_geom(I, kind, *a, **k):
        g = orig(I, kind, *a, **k)
        if kind in ("Point", "MultiPoint") and "coords" not in g.fields:
            g.fields["coords"] = CoordsOf(g)
        return g

    MS.make_geom = make_geom


def register_polygonal_setops(reg):
    name = "regions.PolygonalRegion"

    def make_setup(op, kind):
        def setup(I, env):
            eng = I.eng
            log = []
            A = mk_polygonal(I, "self")
            B = mk_other(I, kind, log)
            env.vars.update(self=A, other=B, _log=log)
            if op in ("intersect", "union"):
                env.vars["triedReversed"] = eng.choose(2, "triedReversed") == 1
            p = probe(I)
            env.vars["_p"] = p
            eng.assume(clear_of_boundaries(I, p, A, B))

        return setup

    def make_post(op, kind):
        oname = f"{name}.{op}[{kind}]"

        def post(I, env, outcome):
            eng = I.eng
            if outcome[0] != "return":
                return
            res = outcome[1]
            A, B, p, log = env.vars["self"], env.vars["other"], env.vars["_p"], env.vars["_log"]
            okreg = isinstance(res, PObj)
            eng.check(f"{oname}#ensures.returns_a_region", okreg)
            if not okreg:
                return
            a, b = mem3(I, A, p), mem3(I, B, p)
            want = {"intersect": sv_and(a, b), "union": sv_or(a, b), "difference": sv_and(a, sv_not(b))}[op]
            if is_a(I, res, "PolygonalRegion"):
                eng.check(f"{oname}#ensures.result_keeps_height_z", compare("==", res.fields["z"], A.fields["z"]))
            eng.check(f"{oname}#ensures.set_semantics", iff(mem3(I, res, p), want))
            if kind == "generic":
                tr = env.vars.get("triedReversed", None)
                calls = [c for c in log if c[0] == op]
                if op == "difference":
                    eng.check(f"{oname}#ensures.generic_fallback_is_DifferenceRegion", is_a(I, res, "DifferenceRegion") and res.fields["regionA"] is A and res.fields["regionB"] is B and not calls)
                elif tr:
                    cls_ = {"intersect": "IntersectionRegion", "union": "UnionRegion"}[op]
                    eng.check(f"{oname}#dispatch.no_second_reversal", not calls)
                    eng.check(f"{oname}#dispatch.generic_fallback", is_a(I, res, cls_) and tuple(res.fields["regions"]) == (A, B))
                else:
                    ok = len(calls) == 1 and calls[0][2] == (A,) and calls[0][3] == {"triedReversed": True}
                    eng.check(f"{oname}#dispatch.reversed_exactly_once_with_triedReversed", ok)

        return post

    for op in ("intersect", "union", "difference"):
        for kind in OTHER_KINDS:
            params = dict(self=C.Const(None), other=C.Const(None))
            if op != "difference":
                params["triedReversed"] = C.Const(False)
            reg.add(
                C.Contract(
                    f"{RG}:PolygonalRegion.{op}",
                    params=params,
                    setup=make_setup(op, kind),
                    post=make_post(op, kind),
                    inline_all=True,
                    replay=make_replay_setop(op, kind),
                    properties=("C16",),
                ),
                key=f"{RG}:PolygonalRegion.{op}[{kind}]",
            )


def _real_regions():
    import warnings

    warnings.filterwarnings("ignore")
    import scenic.core.regions as R
    from scenic.core.vectors import Vector

    return R, Vector


def _member(R, region, pt):
    """Membership in the 3-D point set denoted by a real region (oracle for replays; see module docstring)."""
    if isinstance(region, R.PolygonalRegion):
        return region.footprint.containsPoint(pt) and abs(pt.z - region.z) < 1e-9
    if isinstance(region, R.IntersectionRegion):
        return all(_member(R, r, pt) for r in region.regions)
    if isinstance(region, R.UnionRegion):
        return any(_member(R, r, pt) for r in region.regions)
    if isinstance(region, R.DifferenceRegion):
        return _member(R, region.regionA, pt) and not _member(R, region.regionB, pt)
    return region.containsPoint(pt)


def make_replay_setop(op, kind):
    def replay(inputs, clause):
        R, Vector = _real_regions()
        za = float(inputs.get("self.z", 0.0))
        zb = float(inputs.get("other.z", za))
        A = R.PolygonalRegion([(0, 0), (4, 0), (4, 4), (0, 4)], z=za)
        if kind == "polygonal":
            B = R.PolygonalRegion([(2, 2), (6, 2), (6, 6), (2, 6)], z=zb)
        elif kind == "footprint":
            B = R.PolygonalRegion([(2, 2), (6, 2), (6, 6), (2, 6)]).footprint
        elif kind == "polyline":
            B = R.PolylineRegion([(-1, 3), (7, 3)])
        else:
            return None
        tr = bool(inputs.get("triedReversed", False))
        res = getattr(A, op)(B) if op == "difference" or not tr else getattr(A, op)(B, triedReversed=True)
        if "height" in clause:
            if isinstance(res, R.PolygonalRegion) and abs(res.z - za) > 1e-9:
                return f"PolygonalRegion(z={za}).{op}({type(B).__name__}{'' if kind != 'polygonal' else f'(z={zb})'}) returned a PolygonalRegion at z={res.z}"
            return None
        zs = sorted({za, zb, 0.0})
        for x, y in ((3, 3), (1, 1), (5, 5), (1, 3), (5, 3), (3.5, 3), (-0.5, 3)):
            for z in zs:
                pt = Vector(x, y, z)
                a, b = _member(R, A, pt), _member(R, B, pt)
                want = {"intersect": a and b, "union": a or b, "difference": a and not b}[op]
                if kind == "polyline" and op != "intersect" and b:
                    continue  # points of a 1-dimensional operand are boundary points
                got = _member(R, res, pt)
                if got != want:
                    return f"A = square [0,4]^2 at z={za}, B = {type(B).__name__}{f' at z={zb}' if kind == 'polygonal' else ''}: point {tuple(pt)} in A: {a}, in B: {b}, but in A.{op}(B) = {res!r}: {got}"
        return None

    return replay
