"""Sidecar contracts for scenic.core.regions / geometry (C16): region operations obey set semantics in 3-D.

Oracle (from the property statement): every region R denotes a point set mem3(R, p) over R^3
  * PolygonalRegion (and Circular/Sector/Rectangular): the polygon's points AT HEIGHT z (planar regions keep their height),
  * PolygonalFootprintRegion: the polygon's points at any height,   * PolylineRegion: the line's points at z = 0,
  * PointSetRegion: its points,   * everywhere / nowhere: all / no points,
  * IntersectionRegion / UnionRegion / DifferenceRegion: the Boolean combination of the operands' sets.
`A.intersect(B)`, `A.union(B)`, `A.difference(B)` must return a region whose set is the corresponding set operation
(for probe points clear of the operands' boundaries), `intersects` holds exactly when the sets share a point,
`distanceTo` is zero exactly on members and otherwise the Euclidean distance to the nearest member, `projectVector`
returns the nearest hit along +-direction, and bounding boxes enclose every member.

Planar geometry (shapely), numpy and trimesh are library models (pyvc/models_shapely.py, trusted and listed)."""
import z3

from pyvc import contracts as C
from pyvc import models_shapely as MS
from pyvc.interp import BuiltinFn, ClassVal
from pyvc.values import Infinity, PList, PObj, SV, arith, compare, sv_and, sv_implies, sv_ite, sv_not, sv_or, tobool, toz3

from .common import make_vector, repo_class

RG = "scenic.core.regions"
GEO = "scenic.core.geometry"
_R = z3.RealSort()


def RC(name):
    return repo_class(f"{RG}:{name}")


def cname(x):
    c = getattr(x, "cls", None)
    return getattr(c, "name", c)


def is_a(I, r, name):
    return isinstance(r, PObj) and isinstance(r.cls, ClassVal) and I.is_subclass(r.cls, RC(name))


def init_samplable(o, lazy=False):
    o.fields.update(_dependencies=(), _requiredProperties=(), _needsSampling=lazy, _needsLazyEval=False, _isLazy=lazy)
    o.fields["_conditioned"] = o
    return o


def _is_lazy(d):
    if isinstance(d, PObj):
        v = d.fields.get("_isLazy", False)
        return v is True
    return False


class CoordsOf:
    """`geom.coords` / `pt.coords[0]` of a point geometry whose coordinates are not individually modelled."""

    def __init__(self, geom):
        self.geom = geom


def install_stubs(reg):
    """Trusted stubs shared by the region contracts (book-keeping constructors and coercions)."""
    MS.install(reg)
    if getattr(reg, "_region_stubs", False):
        return
    reg._region_stubs = True

    def region_init(I, self, name, *deps, orientation=None):
        self.fields["name"] = name
        self.fields["orientation"] = orientation
        lazy = any(_is_lazy(d) for d in deps)
        init_samplable(self, lazy)
        self.fields["_dependencies"] = tuple(d for d in deps if _is_lazy(d))
        return None

    reg.models[f"{RG}:Region.__init__"] = region_init
    reg.trust("Region.__init__", "stub: stores name and orientation; the region is lazy exactly when one of its dependencies is (Samplable book-keeping is C01)")

    def to_vector(I, thing, typeError=None):
        if isinstance(thing, PObj) and "coordinates" in thing.fields:
            return thing
        if isinstance(thing, (tuple, PList)):
            items = list(thing if isinstance(thing, tuple) else thing.items)
            if 2 <= len(items) <= 3:
                return make_vector(*items)
        if isinstance(thing, MS.NDArr) and thing.shape in ((2,), (3,)):
            return make_vector(*thing.data)
        I.raise_("TypeError", "non-vector in vector context")

    reg.models["scenic.core.type_support:toVector"] = to_vector
    reg.models["scenic.core.type_support:toScalar"] = lambda I, v, msg=None: v
    reg.trust("type_support.toVector/toScalar", "stubs: a Vector is returned unchanged, a 2/3-tuple becomes Vector(*t); scalars unchanged")

    def vector_ctor(I, cls, args, kwargs):
        if len(args) == 2:
            args = tuple(args) + (kwargs.get("z", 0),)
        if len(args) != 3:
            I.raise_("TypeError", "Vector() takes 2 or 3 coordinates")
        v = make_vector(*args)
        v.cls = cls
        if cls.name == "OrientedVector":
            pass
        return v

    reg.constructors["scenic.core.vectors:Vector"] = vector_ctor
    reg.trust("Vector.__init__", "stub: Vector(x, y, z=0) stores coordinates (x, y, z) (Samplable book-keeping is C01)")

    def oriented_ctor(I, cls, args, kwargs):
        x, y, z, h = args
        v = make_vector(x, y, z)
        v.cls = cls
        v.fields["heading"] = h
        return v

    reg.constructors["scenic.core.vectors:OrientedVector"] = oriented_ctor

    def for_union_of(I, regions, tolerance=0):
        return None

    reg.models["scenic.core.vectors:VectorField.forUnionOf"] = for_union_of
    reg.trust("VectorField.forUnionOf", "stub: preferred orientations are not part of the set semantics (returns None)")

    def polyline_ctor(I, cls, args, kwargs):
        o = PObj(cls)
        init_samplable(o)
        polyline = kwargs.get("polyline", args[1] if len(args) > 1 else None)
        points = kwargs.get("points", args[0] if args else None)
        if polyline is None:
            polyline = MS.make_geom(I, "LineString", empty=False, tag="line")
        if not (MS.is_geom(polyline) and MS.gdim(polyline) == 1):
            I.raise_("ValueError", "tried to create PolylineRegion from non-LineString")
        o.fields.update(lineString=polyline, points=points, orientation=kwargs.get("orientation", True), name=kwargs.get("name"), _usingDefaultOrientation=kwargs.get("orientation", True) is True)
        return o

    reg.constructors[f"{RG}:PolylineRegion"] = polyline_ctor
    reg.trust("PolylineRegion.__init__", "stub: PolylineRegion(polyline=L) has lineString L (a LineString / MultiLineString, else ValueError); it lies at z = 0")

    def pointset_ctor(I, cls, args, kwargs):
        o = PObj(cls)
        init_samplable(o)
        name, points = args[0], args[1]
        src = points.items[0] if isinstance(points, PList) and points.items else points
        if isinstance(src, tuple) and len(src) == 1:
            src = src[0]
        o.fields.update(name=name, orientation=kwargs.get("orientation"), tolerance=kwargs.get("tolerance", 1e-6))
        if isinstance(src, CoordsOf):
            g = src.geom
            o.fields["_mem3"] = lambda p, g=g: sv_and(MS.gmem(g, p[0], p[1]), compare("==", p[2], 0))
        else:
            pred = z3.Function(f"mem3!{o.tag}", _R, _R, _R, z3.BoolSort())
            o.fields["_mem3"] = lambda p: SV(pred(*[toz3(c, want_real=True) for c in p]))
        return o

    reg.constructors[f"{RG}:PointSetRegion"] = pointset_ctor
    reg.trust("PointSetRegion.__init__", "stub: a point set built from 2-D shapely points consists of those points at z = 0 (numpy/KD-tree set-up not modelled)")

    def getitem_fallback(I, obj, idx):
        if isinstance(obj, CoordsOf):
            return obj
        return MS._getitem_fallback(I, obj, idx)

    reg.getitem_fallback = getitem_fallback


# ---------------------------------------------------------------------------------------------------
# model objects


def mk_polygonal(I, tag, z=None, cls="PolygonalRegion", orientation=None, kind="MultiPolygon", polygons=None):
    eng = I.eng
    r = PObj(RC(cls), tag=tag)
    init_samplable(r)
    if z is None:
        z = eng.fresh_real(tag + ".z")
        eng.input_syms.append((tag + ".z", C.Real(), z))
    g = polygons if polygons is not None else MS.make_geom(I, kind, empty=False, tag=tag + ".polygons")
    r.fields.update(_polygons=g, z=z, orientation=orientation, name=None, _points=(), _polygon=g)
    return r


def with_bounds(I, g):
    g.fields["bounds"] = MS.g_bounds(I, g)
    return g


def mk_footprint(I, tag):
    r = PObj(RC("PolygonalFootprintRegion"), tag=tag)
    init_samplable(r)
    r.fields.update(polygons=MS.make_geom(I, "MultiPolygon", empty=False, tag=tag + ".polygons"), orientation=None, name=None, _bounded_cache=None)
    return r


def mk_polyline(I, tag, orientation=None):
    r = PObj(RC("PolylineRegion"), tag=tag)
    init_samplable(r)
    r.fields.update(lineString=MS.make_geom(I, "LineString", empty=False, tag=tag + ".lineString"), orientation=orientation, name=None, points=None, _usingDefaultOrientation=False)
    return r


def mk_abstract(I, tag, log, orientation=None, rich=False, nonempty=True):
    """A region of an unknown class.  Its operations are *assumed* to satisfy this property's contract (the
    dispatch is verified assume-guarantee: every override is itself under contract): they are logged and return a
    token whose point set is the set operation.  With rich=True `intersect` returns one of: a fixed non-empty
    region, `nowhere` (then the operands share no point), or a generic IntersectionRegion.
    Library regions other than `nowhere` are non-empty (class invariant of the constructors): a witness exists."""
    eng = I.eng
    o = PObj("AbstractRegion", tag=tag)
    init_samplable(o)
    pred = z3.Function(f"mem3!{tag}", _R, _R, _R, z3.BoolSort())
    o.fields["_mem3"] = lambda p: SV(pred(*[toz3(c, want_real=True) for c in p]))
    o.fields["orientation"] = orientation
    o.fields["name"] = tag
    if nonempty:
        w = tuple(eng.fresh_real(f"{tag}.witness.{c}") for c in "xyz")
        eng.assume(o.fields["_mem3"](w))
        o.fields["_witness3"] = w

    def op(name):
        def call(*a, **k):
            entry = dict(op=name, target=o, args=a, kwargs=k)
            log.append((name, o, a, k, entry))
            arg = a[0] if a else None
            if name == "intersects":
                r = eng.fresh_bool(f"{tag}.intersects")
                entry["result"] = r
                return r
            if name == "intersect" and rich:
                form = eng.choose(3, "form of the delegated intersection")
                entry["form"] = form
                if form == 1:
                    e = PObj(RC("EmptyRegion"), tag="nowhere")
                    init_samplable(e)
                    e.fields.update(name="nowhere", orientation=None)
                    entry["disjoint"] = (o, arg)
                    return e
                if form == 2:
                    g = PObj(RC("IntersectionRegion"), tag="generic-intersection")
                    init_samplable(g)
                    g.fields.update(regions=(o, arg), orientation=None, name=None, sampler=None)
                    return g
            t = PObj("RegionToken", tag=f"{tag}.{name}()")
            init_samplable(t)
            t.fields["_op"] = (name, o, arg)
            if name == "intersect":
                t.fields["_mem3"] = lambda p: sv_and(mem3(I, o, p), mem3(I, arg, p))
                if rich:
                    w = tuple(eng.fresh_real(f"shared.{c}") for c in "xyz")
                    eng.assume(t.fields["_mem3"](w))
                    entry["shared"] = w
            elif name == "union":
                t.fields["_mem3"] = lambda p: sv_or(mem3(I, o, p), mem3(I, arg, p))
            else:
                t.fields["_mem3"] = lambda p: sv_and(mem3(I, o, p), sv_not(mem3(I, arg, p)))
            t.fields["orientation"] = None
            return t

        return BuiltinFn(name, call)

    for n in ("intersect", "union", "difference", "intersects"):
        o.fields[n] = op(n)
    return o


def mk_special(I, cls):
    r = PObj(RC(cls), tag={"AllRegion": "everywhere", "EmptyRegion": "nowhere"}[cls])
    init_samplable(r)
    r.fields.update(name=r.tag, orientation=None)
    return r


def mem3(I, r, p):
    """The point set denoted by a region (the oracle; see module docstring)."""
    x, y, z = p
    if not isinstance(r, PObj):
        raise Exception(f"not a region: {r!r}")
    if "_mem3" in r.fields:
        return r.fields["_mem3"](p)
    if is_a(I, r, "EmptyRegion"):
        return False
    if is_a(I, r, "AllRegion"):
        return True
    if is_a(I, r, "PolygonalRegion"):
        return sv_and(MS.gmem(r.fields["_polygons"], x, y), compare("==", z, r.fields["z"]))
    if is_a(I, r, "PolygonalFootprintRegion"):
        return MS.gmem(r.fields["polygons"], x, y)
    if is_a(I, r, "PolylineRegion"):
        return sv_and(MS.gmem(r.fields["lineString"], x, y), compare("==", z, 0))
    if is_a(I, r, "IntersectionRegion"):
        return sv_and(*[mem3(I, s, p) for s in r.fields["regions"]])
    if is_a(I, r, "UnionRegion"):
        return sv_or(*[mem3(I, s, p) for s in r.fields["regions"]])
    if is_a(I, r, "DifferenceRegion"):
        return sv_and(mem3(I, r.fields["regionA"], p), sv_not(mem3(I, r.fields["regionB"], p)))
    raise Exception(f"no point-set semantics for {r!r}")


def planar_geoms(I, r):
    out = []
    for k in ("_polygons", "polygons", "lineString"):
        g = r.fields.get(k) if isinstance(r, PObj) else None
        if MS.is_geom(g):
            out.append(g)
    return out


def probe(I, name="p"):
    eng = I.eng
    p = tuple(eng.fresh_real(f"{name}.{c}") for c in "xyz")
    eng.input_syms.append((name, C.TupleOf(C.Real(), C.Real(), C.Real()), p))
    MS.world(I).add_point(p[0], p[1])
    return p


def clear_of_boundaries(I, p, *regions):
    """`a point clear of their boundaries` (property statement): p is not within tolerance of the boundary of a
    polygonal operand; for 1-dimensional operands every point is a boundary point."""
    acc = []
    for r in regions:
        for g in planar_geoms(I, r):
            if MS.gdim(g) == 2:
                acc.append(sv_not(MS.gbd(g, p[0], p[1])))
    return sv_and(*acc) if acc else True


def iff(a, b):
    ta, tb = tobool(a), tobool(b)
    return SV(ta == tb)


OTHER_KINDS = ["polygonal", "footprint", "polyline", "generic"]


def mk_other(I, kind, log, tag="other"):
    if kind == "polygonal":
        return mk_polygonal(I, tag)
    if kind == "footprint":
        return mk_footprint(I, tag)
    if kind == "polyline":
        return mk_polyline(I, tag)
    return mk_abstract(I, tag, log)


# ---------------------------------------------------------------------------------------------------


def register(reg):
    install_stubs(reg)
    _patch_make_geom()
    register_polygonal_setops(reg)
    register_membership_distance(reg)
    register_project_vector(reg)
    register_dispatch(reg)
    register_planar_ops(reg)
    register_containment(reg)
    register_aabb(reg)
    register_view_angle(reg)
    register_bounded_footprint(reg)
    register_union_all(reg)


def _patch_make_geom():
    """Point-like results of set operations: `.coords` is an opaque handle understood by the PointSetRegion stub."""
    if getattr(MS, "_coords_patched", False):
        return
    MS._coords_patched = True
    orig = MS.make_geom

    def make_geom(I, kind, *a, **k):
        g = orig(I, kind, *a, **k)
        if kind in ("Point", "MultiPoint") and "coords" not in g.fields:
            g.fields["coords"] = CoordsOf(g)
        return g

    MS.make_geom = make_geom


def register_polygonal_setops(reg):
    """PolygonalRegion.intersect / union / difference: one contract per operation; the class of `other`
    (polygonal at any height / footprint / polyline / unknown class) is chosen inside."""
    name = "regions.PolygonalRegion"

    def make_setup(op):
        def setup(I, env):
            eng = I.eng
            log = []
            kind = OTHER_KINDS[eng.choose(len(OTHER_KINDS), "class of other")]
            A = mk_polygonal(I, "self")
            B = mk_other(I, kind, log)
            env.vars.update(self=A, other=B, _log=log, _kind=kind)
            eng.input_syms.append(("kind", C.Const(None), kind))
            if op in ("intersect", "union"):
                tr = eng.choose(2, "triedReversed") == 1
                env.vars["triedReversed"] = tr
                eng.input_syms.append(("triedReversed", C.Const(None), tr))
            p = probe(I)
            env.vars["_p"] = p
            eng.assume(clear_of_boundaries(I, p, A, B))
            if kind == "polyline" and op != "intersect":
                # adding / removing a 1-dimensional set to / from a 2-dimensional one: every point of the line is a boundary point
                eng.assume(sv_not(MS.gmem(B.fields["lineString"], p[0], p[1])))

        return setup

    def make_post(op):
        def post(I, env, outcome):
            eng = I.eng
            if outcome[0] != "return":
                return
            res = outcome[1]
            A, B, p, log, kind = env.vars["self"], env.vars["other"], env.vars["_p"], env.vars["_log"], env.vars["_kind"]
            oname = f"{name}.{op}"
            okreg = isinstance(res, PObj)
            eng.check(f"{oname}#ensures.returns_a_region", okreg)
            if not okreg:
                return
            a, b = mem3(I, A, p), mem3(I, B, p)
            want = {"intersect": sv_and(a, b), "union": sv_or(a, b), "difference": sv_and(a, sv_not(b))}[op]
            height_ok = True
            if is_a(I, res, "PolygonalRegion"):
                height_ok = compare("==", res.fields["z"], A.fields["z"])
                eng.check(f"{oname}#ensures.result_keeps_height_z", height_ok)
            # (given the right height) membership in the result is the set operation of the operands' membership
            eng.check(f"{oname}#ensures.set_semantics[{kind}]", sv_implies(height_ok, iff(mem3(I, res, p), want)))
            if kind == "generic":
                tr = env.vars.get("triedReversed", None)
                calls = [c for c in log if c[0] == op]
                if op == "difference":
                    eng.check(f"{oname}#dispatch.generic_fallback_is_DifferenceRegion", is_a(I, res, "DifferenceRegion") and res.fields["regionA"] is A and res.fields["regionB"] is B and not calls)
                elif tr:
                    cls_ = {"intersect": "IntersectionRegion", "union": "UnionRegion"}[op]
                    eng.check(f"{oname}#dispatch.no_second_reversal", not calls)
                    eng.check(f"{oname}#dispatch.generic_fallback", is_a(I, res, cls_) and tuple(res.fields["regions"]) == (A, B))
                else:
                    ok = len(calls) == 1 and calls[0][2] == (A,) and calls[0][3] == {"triedReversed": True}
                    eng.check(f"{oname}#dispatch.reversed_exactly_once_with_triedReversed", ok)

        return post

    for op in ("intersect", "union", "difference"):
        params = dict(self=C.Const(None), other=C.Const(None))
        if op != "difference":
            params["triedReversed"] = C.Const(False)
        reg.add(
            C.Contract(
                f"{RG}:PolygonalRegion.{op}",
                params=params,
                setup=make_setup(op),
                post=make_post(op),
                inline_all=True,
                replay=make_replay_setop(op),
                properties=("C16",),
            )
        )


def _real_regions():
    import warnings

    warnings.filterwarnings("ignore")
    import scenic.core.regions as R
    from scenic.core.vectors import Vector

    return R, Vector


def _member(R, region, pt):
    """Membership in the 3-D point set denoted by a real region (oracle for replays; see module docstring)."""
    if isinstance(region, R.PolygonalRegion):
        return region.footprint.containsPoint(pt) and abs(pt.z - region.z) < 1e-9
    if isinstance(region, R.IntersectionRegion):
        return all(_member(R, r, pt) for r in region.regions)
    if isinstance(region, R.UnionRegion):
        return any(_member(R, r, pt) for r in region.regions)
    if isinstance(region, R.DifferenceRegion):
        return _member(R, region.regionA, pt) and not _member(R, region.regionB, pt)
    return region.containsPoint(pt)


def make_replay_setop(op):
    def replay(inputs, clause):
        kind = inputs.get("kind")
        R, Vector = _real_regions()
        za = float(inputs.get("self.z", 0.0))
        zb = float(inputs.get("other.z", za))
        A = R.PolygonalRegion([(0, 0), (4, 0), (4, 4), (0, 4)], z=za)
        if kind == "polygonal":
            B = R.PolygonalRegion([(2, 2), (6, 2), (6, 6), (2, 6)], z=zb)
        elif kind == "footprint":
            B = R.PolygonalRegion([(2, 2), (6, 2), (6, 6), (2, 6)]).footprint
        elif kind == "polyline":
            B = R.PolylineRegion([(-1, 3), (7, 3)])
        else:
            return None
        tr = bool(inputs.get("triedReversed", False))
        res = getattr(A, op)(B) if op == "difference" or not tr else getattr(A, op)(B, triedReversed=True)
        if "height" in clause:
            if isinstance(res, R.PolygonalRegion) and abs(res.z - za) > 1e-9:
                return f"PolygonalRegion(z={za}).{op}({type(B).__name__}{'' if kind != 'polygonal' else f'(z={zb})'}) returned a PolygonalRegion at z={res.z}"
            return None
        zs = sorted({za, zb, 0.0, za + 1.5})
        for x, y in ((3, 3), (1, 1), (5, 5), (1, 3), (5, 3), (3.5, 3), (-0.5, 3)):
            for z in zs:
                pt = Vector(x, y, z)
                a, b = _member(R, A, pt), _member(R, B, pt)
                want = {"intersect": a and b, "union": a or b, "difference": a and not b}[op]
                if kind == "polyline" and op != "intersect" and b:
                    continue  # points of a 1-dimensional operand are boundary points
                got = _member(R, res, pt)
                if got != want:
                    return f"A = square [0,4]^2 at z={za}, B = {type(B).__name__}{f' at z={zb}' if kind == 'polygonal' else ''}: point {tuple(pt)} in A: {a}, in B: {b}, but in A.{op}(B) = {res!r}: {got}"
        return None

    return replay


# ===================================================================================================
# membership and distance


def mk_point(I, name="point"):
    p = probe(I, name)
    return make_vector(*p), p


def mk_circular(I, tag="self"):
    eng = I.eng
    cx, cy, cz = (eng.fresh_real(f"{tag}.center.{c}") for c in "xyz")
    rad = eng.fresh_real(f"{tag}.radius")
    eng.assume(compare(">", rad, 0))
    eng.input_syms.append((f"{tag}.center", C.TupleOf(C.Real(), C.Real(), C.Real()), (cx, cy, cz)))
    eng.input_syms.append((f"{tag}.radius", C.Real(), rad))
    g = MS.disc_geom(I, cx, cy, rad, tag=tag + ".polygons")
    r = mk_polygonal(I, tag, z=cz, cls="CircularRegion", polygons=g)
    center = make_vector(cx, cy, cz)
    r.fields.update(center=center, radius=rad, resolution=32, circumcircle=(center, rad))
    return r


def sq(x):
    return arith("*", x, x)


def dist3sq(p, q):
    return arith("+", arith("+", sq(arith("-", p[0], q[0])), sq(arith("-", p[1], q[1]))), sq(arith("-", p[2], q[2])))


def check_distance(I, oname, res, R, geom, height, p):
    """`The distance from a region to a point is zero exactly on its members and otherwise the Euclidean distance to the
    nearest member`, for a planar region = geometry `geom` at height `height` (None: at every height)."""
    eng = I.eng
    okn = isinstance(res, (int, float, SV)) and not isinstance(res, bool)
    eng.check(f"{oname}#ensures.returns_a_number", okn)
    if not okn:
        return
    eng.check(f"{oname}#ensures.non_negative", compare(">=", res, 0))
    eng.check(f"{oname}#ensures.zero_exactly_on_members", iff(compare("==", res, 0), mem3(I, R, p)))
    # no member is nearer ...
    qx, qy = eng.fresh_real("member.x"), eng.fresh_real("member.y")
    eng.input_syms.append(("member", C.TupleOf(C.Real(), C.Real()), (qx, qy)))
    d2 = MS.dist_at(I, geom, p[0], p[1])
    MS.world(I).add_point(qx, qy)
    q = (qx, qy, p[2] if height is None else height)
    eng.check(f"{oname}#ensures.no_member_is_nearer", sv_implies(MS.gmem(geom, qx, qy), compare("<=", sq(res), dist3sq(p, q))))
    # ... and the distance is attained: it is the Euclidean distance to the nearest member
    n = MS.nearest_witness(geom, p[0], p[1])
    nq = (n[0], n[1], p[2] if height is None else height)
    eng.check(f"{oname}#ensures.is_the_distance_to_the_nearest_member", sv_and(mem3(I, R, nq), compare("==", sq(res), dist3sq(p, nq))))


def register_membership_distance(reg):
    # ---------------------------------------------------------------- PolygonalRegion
    def setup_poly(I, env):
        A = mk_polygonal(I, "self")
        v, p = mk_point(I)
        env.vars.update(self=A, point=v, _p=p)

    def post_member(oname, clause="member_iff_in_polygon_at_height_z"):
        def post(I, env, outcome):
            if outcome[0] != "return":
                return
            res = outcome[1]
            ok = isinstance(res, (bool, SV))
            I.eng.check(f"{oname}#ensures.returns_a_bool", ok)
            if ok:
                I.eng.check(f"{oname}#ensures.{clause}", iff(res, mem3(I, env.vars["self"], env.vars["_p"])))

        return post

    def replay_poly_contains(method):
        def replay(inputs, clause):
            R, Vector = _real_regions()
            z = float(inputs.get("self.z", 0.0))
            pz = float(inputs["point"][2])
            A = R.PolygonalRegion([(0, 0), (4, 0), (4, 4), (0, 4)], z=z)
            for xy in ((1, 1), (5, 5)):
                pt = Vector(xy[0], xy[1], pz)
                got = bool(getattr(A, method)(pt))
                want = (0 <= xy[0] <= 4 and 0 <= xy[1] <= 4) and pz == z
                if got != want:
                    return f"PolygonalRegion(square [0,4]^2, z={z}).{method}({tuple(pt)}) = {got}, but the point is {'in' if want else 'not in'} the region (distanceTo = {A.distanceTo(pt):.4g})"
            return None

        return replay

    P = dict(self=C.Const(None), point=C.Const(None))
    reg.add(C.Contract(f"{RG}:PolygonalRegion.containsPoint", params=P, setup=setup_poly, post=post_member("regions.PolygonalRegion.containsPoint"), inline_all=True, replay=replay_poly_contains("containsPoint"), properties=("C16",)))
    reg.add(C.Contract(f"{RG}:PolygonalRegion._trueContainsPoint", params=P, setup=setup_poly, post=post_member("regions.PolygonalRegion._trueContainsPoint"), inline_all=True, replay=replay_poly_contains("_trueContainsPoint"), properties=("C16",)))

    def post_poly_dist(I, env, outcome):
        if outcome[0] != "return":
            return
        A = env.vars["self"]
        check_distance(I, "regions.PolygonalRegion.distanceTo", outcome[1], A, A.fields["_polygons"], A.fields["z"], env.vars["_p"])

    def replay_poly_dist(inputs, clause):
        import math

        R, Vector = _real_regions()
        z = float(inputs.get("self.z", 0.0))
        A = R.PolygonalRegion([(0, 0), (4, 0), (4, 4), (0, 4)], z=z)
        pz = float(inputs["point"][2])
        for x, y, d2 in ((1, 1, 0.0), (7, 0, 3.0), (7, 8, 5.0)):
            got = A.distanceTo(Vector(x, y, pz))
            want = math.hypot(d2, pz - z)
            if abs(got - want) > 1e-9:
                return f"PolygonalRegion(square [0,4]^2, z={z}).distanceTo(({x}, {y}, {pz})) = {got}, Euclidean distance to the nearest member is {want}"
        return None

    reg.add(C.Contract(f"{RG}:PolygonalRegion.distanceTo", params=P, setup=setup_poly, post=post_poly_dist, inline_all=True, replay=replay_poly_dist, properties=("C16",)))

    # ---------------------------------------------------------------- CircularRegion
    def setup_circ(I, env):
        A = mk_circular(I)
        v, p = mk_point(I)
        env.vars.update(self=A, point=v, _p=p)

    def replay_circ(method):
        def replay(inputs, clause):
            import math

            R, Vector = _real_regions()
            c = [float(x) for x in inputs["self.center"]]
            rad = float(inputs["self.radius"])
            Cr = R.CircularRegion(Vector(*c), rad, resolution=256)
            pts = [tuple(float(x) for x in inputs["point"])]
            pz = pts[0][2]
            pts += [(c[0] + 3 * rad, c[1], pz), (c[0] + rad / 2, c[1], pz), (c[0], c[1] - 2 * rad, pz)]
            for p in pts:
                planar = math.hypot(p[0] - c[0], p[1] - c[1])
                if method == "distanceTo":
                    got = Cr.distanceTo(Vector(*p))
                    want = math.hypot(max(0.0, planar - rad), p[2] - c[2])
                    if abs(got - want) > 1e-3 * max(1.0, rad):
                        return f"CircularRegion(centre {tuple(c)}, radius {rad}).distanceTo({p}) = {got:.6g}, Euclidean distance to the nearest point of the disc is {want:.6g}"
                else:
                    if abs(planar - rad) < 1e-6:
                        continue
                    got = bool(Cr.containsPoint(Vector(*p)))
                    want = planar <= rad and p[2] == c[2]
                    if got != want:
                        return f"CircularRegion(centre {tuple(c)}, radius {rad}).containsPoint({p}) = {got}, expected {want}"
            return None

        return replay

    reg.add(C.Contract(f"{RG}:CircularRegion.containsPoint", params=P, setup=setup_circ, post=post_member("regions.CircularRegion.containsPoint", "member_iff_in_disc_at_height_z"), inline_all=True, replay=replay_circ("containsPoint"), properties=("C16",)))

    def post_circ_dist(I, env, outcome):
        if outcome[0] != "return":
            return
        A = env.vars["self"]
        check_distance(I, "regions.CircularRegion.distanceTo", outcome[1], A, A.fields["_polygons"], A.fields["z"], env.vars["_p"])

    reg.add(C.Contract(f"{RG}:CircularRegion.distanceTo", params=P, setup=setup_circ, post=post_circ_dist, inline_all=True, replay=replay_circ("distanceTo"), properties=("C16",)))

    # ---------------------------------------------------------------- SectorRegion.containsPoint
    VIEW = z3.Function("viewAngle", _R, _R, _R, _R, _R, _R)

    def view_angle(I, point, base, heading):
        px, py = point[0], point[1]
        bx, by = base[0], base[1]
        return SV(VIEW(*[toz3(v, want_real=True) for v in (px, py, bx, by, heading)]), True)

    reg.models[f"{GEO}:viewAngleToPoint"] = view_angle
    reg.trust("geometry.viewAngleToPoint", "abstract: viewAngle(point, base, heading) = signed angle in [-pi, pi] between the heading direction at `base` and the direction to `point` (atan2 + normalizeAngle not expanded; normalizeAngle is proved under C08)")

    def setup_sector(I, env):
        eng = I.eng
        A = mk_circular(I)
        A.cls = RC("SectorRegion")
        h, a = eng.fresh_real("self.heading"), eng.fresh_real("self.angle")
        eng.assume(sv_and(compare(">=", a, 0)))
        eng.input_syms.append(("self.heading", C.Real(), h))
        eng.input_syms.append(("self.angle", C.Real(), a))
        A.fields.update(heading=h, angle=a)
        c = A.fields["center"].fields["coordinates"]
        rad = A.fields["radius"]
        # the sector's polygon: the disc cut by the cone (oracle for mem3)
        disc = A.fields["_polygons"]
        def memsec(x, y):
            va = SV(VIEW(*[toz3(v, want_real=True) for v in (x, y, c[0], c[1], h)]), True)
            absva = sv_ite(compare(">=", va, 0), va, arith("-", 0, va))
            return sv_and(MS.gmem(disc, x, y), compare("<=", absva, arith("/", a, 2)))
        A.fields["_polygons"] = MS.make_geom(I, "Polygon", mem=memsec, empty=False, tag="self.sector")
        v, p = mk_point(I)
        env.vars.update(self=A, point=v, _p=p)

    reg.add(C.Contract(f"{RG}:SectorRegion.containsPoint", params=P, setup=setup_sector, post=post_member("regions.SectorRegion.containsPoint", "member_iff_in_cone_within_radius_at_height_z"), inline_all=True, properties=("C16",)))

    # ---------------------------------------------------------------- PolylineRegion / PolygonalFootprintRegion
    def setup_line(I, env):
        A = mk_polyline(I, "self")
        v, p = mk_point(I)
        env.vars.update(self=A, point=v, _p=p)

    def replay_line(method):
        def replay(inputs, clause):
            import math

            R, Vector = _real_regions()
            L = R.PolylineRegion([(0, 0), (4, 0)])
            pz = float(inputs["point"][2])
            for x, y, d2 in ((1, 0, 0.0), (1, 3, 3.0), (8, 3, 5.0)):
                if method == "distanceTo":
                    got, want = L.distanceTo(Vector(x, y, pz)), math.hypot(d2, pz)
                    if abs(got - want) > 1e-9:
                        return f"PolylineRegion((0,0)-(4,0)).distanceTo(({x},{y},{pz})) = {got}, expected {want}"
                else:
                    got, want = bool(L.containsPoint(Vector(x, y, pz))), d2 == 0 and pz == 0
                    if got != want:
                        return f"PolylineRegion((0,0)-(4,0)).containsPoint(({x},{y},{pz})) = {got}, expected {want}"
            return None

        return replay

    reg.add(C.Contract(f"{RG}:PolylineRegion.containsPoint", params=P, setup=setup_line, post=post_member("regions.PolylineRegion.containsPoint", "member_iff_on_the_line_at_z_0"), inline_all=True, replay=replay_line("containsPoint"), properties=("C16",)))

    def post_line_dist(I, env, outcome):
        if outcome[0] != "return":
            return
        A = env.vars["self"]
        check_distance(I, "regions.PolylineRegion.distanceTo", outcome[1], A, A.fields["lineString"], 0, env.vars["_p"])

    reg.add(C.Contract(f"{RG}:PolylineRegion.distanceTo", params=P, setup=setup_line, post=post_line_dist, inline_all=True, replay=replay_line("distanceTo"), properties=("C16",)))

    def setup_fp(I, env):
        A = mk_footprint(I, "self")
        v, p = mk_point(I)
        env.vars.update(self=A, point=v, _p=p)

    reg.add(C.Contract(f"{RG}:PolygonalFootprintRegion.containsPoint", params=P, setup=setup_fp, post=post_member("regions.PolygonalFootprintRegion.containsPoint", "member_iff_xy_in_polygon"), inline_all=True, properties=("C16",)))

    def post_fp_dist(I, env, outcome):
        if outcome[0] != "return":
            return
        A = env.vars["self"]
        check_distance(I, "regions.PolygonalFootprintRegion.distanceTo", outcome[1], A, A.fields["polygons"], None, env.vars["_p"])

    reg.add(C.Contract(f"{RG}:PolygonalFootprintRegion.distanceTo", params=P, setup=setup_fp, post=post_fp_dist, inline_all=True, properties=("C16",)))

    # ---------------------------------------------------------------- PointSetRegion (KD-tree contract)
    def setup_ps(I, env):
        eng = I.eng
        A = PObj(RC("PointSetRegion"), tag="self")
        init_samplable(A)
        tol = eng.fresh_real("self.tolerance")
        eng.assume(compare(">=", tol, 0))
        v, p = mk_point(I)
        # scipy.spatial.KDTree.query(p) -> (distance to the nearest point of the set, its index)   [trusted]
        d = eng.fresh_real("kd.distance")
        n = tuple(eng.fresh_real(f"kd.nearest.{c}") for c in "xyz")
        eng.assume(sv_and(compare(">=", d, 0), compare("==", sq(d), dist3sq(p, n))))
        tree = PObj("KDTree", tag="kdTree")
        tree.fields["query"] = BuiltinFn("query", lambda q, *a, **k: (d, eng.fresh_int("kd.index")))
        ptsmem = z3.Function("mem3!points", _R, _R, _R, z3.BoolSort())
        inpts = lambda q: SV(ptsmem(*[toz3(c, want_real=True) for c in q]))
        eng.assume(inpts(n))
        A.fields.update(kdTree=tree, tolerance=tol, orientation=None, name="ps", _points_mem=inpts, _nearest=(d, n))
        # the region: everything within `tolerance` of one of the points
        env.vars.update(self=A, point=v, _p=p)

    reg.trust("scipy.spatial.KDTree.query", "query(p) returns the distance from p to the nearest point of the tree (a point of the set attains it; no point of the set is nearer) and its index")

    def post_ps(method):
        oname = f"regions.PointSetRegion.{method}"

        def post(I, env, outcome):
            eng = I.eng
            if outcome[0] != "return":
                return
            A, p = env.vars["self"], env.vars["_p"]
            d, n = A.fields["_nearest"]
            res = outcome[1]
            q = tuple(eng.fresh_real(f"member.{c}") for c in "xyz")
            eng.assume(sv_implies(A.fields["_points_mem"](q), compare("<=", sq(d), dist3sq(p, q))))  # KD-tree contract at q
            if method == "containsPoint":
                # member <=> within tolerance of some point of the set
                tol = A.fields["tolerance"]
                eng.check(f"{oname}#ensures.true_only_within_tolerance_of_a_point_of_the_set", sv_implies(res, sv_and(A.fields["_points_mem"](n), compare("<=", dist3sq(p, n), sq(tol)))))
                eng.check(f"{oname}#ensures.true_when_within_tolerance_of_a_point_of_the_set", sv_implies(sv_and(A.fields["_points_mem"](q), compare("<=", dist3sq(p, q), sq(tol))), res))
            else:
                eng.check(f"{oname}#ensures.non_negative", compare(">=", res, 0))
                eng.check(f"{oname}#ensures.no_point_of_the_set_is_nearer", sv_implies(A.fields["_points_mem"](q), compare("<=", sq(res), dist3sq(p, q))))
                eng.check(f"{oname}#ensures.is_the_distance_to_the_nearest_point", sv_and(A.fields["_points_mem"](n), compare("==", sq(res), dist3sq(p, n))))

        return post

    reg.add(C.Contract(f"{RG}:PointSetRegion.containsPoint", params=P, setup=setup_ps, post=post_ps("containsPoint"), inline_all=True, properties=("C16",)))
    reg.add(C.Contract(f"{RG}:PointSetRegion.distanceTo", params=P, setup=setup_ps, post=post_ps("distanceTo"), inline_all=True, properties=("C16",)))


# ===================================================================================================
# projection along a direction


def register_project_vector(reg):
    oname = "regions.MeshRegion.projectVector"

    def setup(I, env):
        eng = I.eng
        cls = ["MeshSurfaceRegion", "MeshVolumeRegion"][eng.choose(2, "surface or volume")]
        A = PObj(RC(cls), tag="self")
        init_samplable(A)
        mesh = MS.make_mesh(I, "mesh")
        inside = eng.fresh_bool("point_in_region")
        A.fields.update(mesh=mesh, orientation=None, name=None)
        A.fields["containsPoint"] = BuiltinFn("containsPoint", lambda pt: inside)
        v, p = mk_point(I)
        d = tuple(eng.fresh_real(f"direction.{c}") for c in "xyz")
        eng.input_syms.append(("direction", C.TupleOf(C.Real(), C.Real(), C.Real()), d))
        eng.assume(sv_not(sv_and(*[compare("==", c, 0) for c in d])))
        env.vars.update(self=A, point=v, onDirection=make_vector(*d), _p=p, _d=d, _mesh=mesh, _inside=inside)

    def post(I, env, outcome):
        eng = I.eng
        if outcome[0] != "return":
            return
        res = outcome[1]
        p, mesh = env.vars["_p"], env.vars["_mesh"]
        calls = mesh.fields["_ray_calls"]
        if not calls:
            # the point is in the region: it is its own projection
            eng.check(f"{oname}#ensures.member_projects_to_itself", sv_and(env.vars["_inside"], res is env.vars["point"]))
            return
        eng.check(f"{oname}#ensures.casts_along_plus_and_minus_direction_once", len(calls) == 1 and len(calls[0]["hits"]) == 2)
        call = calls[0]
        d = env.vars["_d"]
        dirs_ok = sv_and(*[sv_and(compare("==", a, b), compare("==", c_, arith("-", 0, b))) for a, c_, b in zip(call["directions"][0].data, call["directions"][1].data, d)])
        orig_ok = sv_and(*[compare("==", a, b) for o in call["origins"] for a, b in zip(o.data, p)])
        eng.check(f"{oname}#ensures.rays_start_at_the_point_along_the_direction_and_its_negation", sv_and(dirs_ok, orig_ok))
        hits = [h for h in call["hits"] if h is not None]
        eng.input_syms.append(("hit_distances", C.Const(None), None))
        for k, h in enumerate(call["hits"]):
            if h is not None:
                eng.input_syms.append((f"t{k}", C.Real(), h[0]))
        if not hits:
            eng.check(f"{oname}#ensures.none_when_no_hit", res is None)
            return
        ok = isinstance(res, PObj) and "coordinates" in res.fields
        eng.check(f"{oname}#ensures.returns_a_vector_when_hit", ok)
        if not ok:
            return
        r = res.fields["coordinates"]
        eng.check(f"{oname}#ensures.result_is_one_of_the_hits", sv_or(*[sv_and(*[compare("==", a, b) for a, b in zip(r, h[1])]) for h in hits]))
        eng.check(f"{oname}#ensures.result_is_the_nearest_hit", sv_and(*[compare("<=", dist3sq(p, r), dist3sq(p, h[1])) for h in hits]))

    def replay(inputs, clause):
        R, Vector = _real_regions()
        t0, t1 = inputs.get("t0"), inputs.get("t1")
        if t0 is None or t1 is None:
            return None
        t0, t1 = max(float(t0), 0.0) + 0.5, max(float(t1), 0.0) + 0.5
        if abs(t0 - t1) < 1e-9:
            t1 += 1.0
        # a box whose top face is t0 above and whose bottom face is t1 below the point (0, 0, 0); direction +z
        box = R.BoxRegion(dimensions=(10, 10, t0 + t1), position=Vector(0, 0, (t0 - t1) / 2))
        surf = box.getSurfaceRegion()
        got = surf.projectVector(Vector(0, 0, 0), Vector(0, 0, 1))
        want = Vector(0, 0, t0) if t0 < t1 else Vector(0, 0, -t1)
        if got is None or abs(got.z - want.z) > 1e-6:
            return f"box surface with faces {t0} above and {t1} below the point (0,0,0): projectVector along +-z returned {got}, the nearest hit is {want}"
        return None

    reg.add(
        C.Contract(
            f"{RG}:MeshRegion.projectVector",
            params=dict(self=C.Const(None), point=C.Const(None), onDirection=C.Const(None)),
            setup=setup,
            post=post,
            inline_all=True,
            replay=replay,
            note="explicit direction given (the default-direction arm only selects the direction)",
            properties=("C16",),
        )
    )


# ===================================================================================================
# double dispatch, generic fallbacks, AllRegion / EmptyRegion laws, composed regions


def delegated(log, op):
    return [c for c in log if c[0] == op]


def check_delegation(I, oname, log, op, A, res):
    """`A.op(B)` with triedReversed=False hands over to B exactly once, with the operands swapped and
    triedReversed=True (so a dispatch chain has at most 2 hops), and returns B's answer."""
    calls = delegated(log, op)
    ok = len(calls) == 1 and calls[0][2] == (A,) and calls[0][3] == {"triedReversed": True}
    I.eng.check(f"{oname}#dispatch.reversed_exactly_once_with_triedReversed_True", ok)


def set_want(op, a, b):
    return {"intersect": sv_and(a, b), "union": sv_or(a, b), "difference": sv_and(a, sv_not(b))}[op]


def register_dispatch(reg):
    # ---------------------------------------------------------------- Region.intersect / union / difference (base class)
    def setup_base(op):
        def setup(I, env):
            eng = I.eng
            log = []
            A = PObj(RC("Region"), tag="self")
            init_samplable(A)
            predA = z3.Function("mem3!self", _R, _R, _R, z3.BoolSort())
            A.fields.update(name="A", orientation=None, _mem3=lambda p: SV(predA(*[toz3(c, want_real=True) for c in p])))
            if op == "difference":
                k = eng.choose(3, "other: generic / nowhere / everywhere")
                B = mk_abstract(I, "other", log) if k == 0 else mk_special(I, "EmptyRegion" if k == 1 else "AllRegion")
            else:
                B = mk_abstract(I, "other", log, rich=(op == "intersects"))
                tr = eng.choose(2, "triedReversed") == 1
                env.vars["triedReversed"] = tr
            env.vars.update(self=A, other=B, _log=log, _p=probe(I))

        return setup

    def post_base(op):
        oname = f"regions.Region.{op}"

        def post(I, env, outcome):
            eng = I.eng
            A, B, p, log = env.vars["self"], env.vars["other"], env.vars["_p"], env.vars["_log"]
            tr = env.vars.get("triedReversed")
            if op == "intersects":
                if outcome[0] == "raise":
                    # NotImplementedError: only when even the reversed attempt yields a generic IntersectionRegion
                    forms = [c[4].get("form") for c in delegated(log, "intersect")]
                    eng.check(f"{oname}#raises.NotImplementedError.only_for_a_generic_intersection", bool(tr) and forms == [2])
                    return
                res = outcome[1]
                if not tr:
                    calls = delegated(log, "intersects")
                    ok = len(calls) == 1 and calls[0][2] == (A,) and calls[0][3] == {"triedReversed": True}
                    eng.check(f"{oname}#dispatch.reversed_exactly_once_with_triedReversed_True", ok)
                    if ok:
                        eng.check(f"{oname}#ensures.returns_the_reversed_answer", iff(res, calls[0][4]["result"]))
                    return
                calls = delegated(log, "intersect")
                eng.check(f"{oname}#dispatch.last_resort_computes_the_intersection_once", len(calls) == 1 and not delegated(log, "intersects"))
                if len(calls) != 1:
                    return
                e = calls[0][4]
                eng.check(f"{oname}#ensures.returns_a_bool", isinstance(res, bool))
                if e.get("form") == 0:
                    w = e["shared"]
                    eng.check(f"{oname}#ensures.true_iff_the_regions_share_a_point", sv_and(res is True, mem3(I, A, w), mem3(I, B, w)))
                elif e.get("form") == 1:
                    eng.assume(sv_not(sv_and(mem3(I, A, p), mem3(I, B, p))))  # the delegated result is `nowhere`: no shared point (instance at p)
                    eng.check(f"{oname}#ensures.true_iff_the_regions_share_a_point", res is False)
                return
            if outcome[0] != "return":
                return
            res = outcome[1]
            ok = isinstance(res, PObj)
            eng.check(f"{oname}#ensures.returns_a_region", ok)
            if not ok:
                return
            eng.check(f"{oname}#ensures.set_semantics", iff(mem3(I, res, p), set_want(op, mem3(I, A, p), mem3(I, B, p))))
            if op == "difference":
                if is_a(I, B, "EmptyRegion"):
                    eng.check(f"{oname}#ensures.minus_nowhere_is_self", res is A)
                elif is_a(I, B, "AllRegion"):
                    eng.check(f"{oname}#ensures.minus_everywhere_is_nowhere", is_a(I, res, "EmptyRegion"))
                else:
                    eng.check(f"{oname}#dispatch.generic_fallback_is_DifferenceRegion", is_a(I, res, "DifferenceRegion") and res.fields["regionA"] is A and res.fields["regionB"] is B and not log)
                return
            if tr:
                cls_ = {"intersect": "IntersectionRegion", "union": "UnionRegion"}[op]
                eng.check(f"{oname}#dispatch.no_second_reversal", not log)
                eng.check(f"{oname}#dispatch.generic_fallback", is_a(I, res, cls_) and tuple(res.fields["regions"]) == (A, B))
            else:
                check_delegation(I, oname, log, op, A, res)

        return post

    for op in ("intersect", "union", "difference", "intersects"):
        params = dict(self=C.Const(None), other=C.Const(None))
        if op != "difference":
            params["triedReversed"] = C.Const(False)
        reg.add(
            C.Contract(
                f"{RG}:Region.{op}",
                params=params,
                setup=setup_base(op),
                post=post_base(op),
                raises=[C.Raises("NotImplementedError", mode="may")] if op == "intersects" else (),
                inline_all=True,
                properties=("C16",),
            )
        )

    # ---------------------------------------------------------------- AllRegion / EmptyRegion laws
    def setup_special(cls, op):
        def setup(I, env):
            eng = I.eng
            log = []
            A = mk_special(I, cls)
            k = eng.choose(3, "other: generic / nowhere / everywhere")
            B = mk_abstract(I, "other", log) if k == 0 else mk_special(I, "EmptyRegion" if k == 1 else "AllRegion")
            env.vars.update(self=A, other=B, _log=log, _p=probe(I))
            if op in ("intersect", "union", "intersects"):
                env.vars["triedReversed"] = eng.choose(2, "triedReversed") == 1

        return setup

    def post_special(cls, op):
        oname = f"regions.{cls}.{op}"

        def post(I, env, outcome):
            eng = I.eng
            if outcome[0] != "return":
                return
            A, B, p, log = env.vars["self"], env.vars["other"], env.vars["_p"], env.vars["_log"]
            res = outcome[1]
            eng.check(f"{oname}#dispatch.answers_directly", not log)
            if op == "intersects":
                # non-empty other (witness) / nowhere / everywhere
                if is_a(I, B, "EmptyRegion") or cls == "EmptyRegion":
                    shares = False
                else:
                    shares = True  # B has a point (witness or everywhere) and A = everywhere contains it
                eng.check(f"{oname}#ensures.true_iff_the_regions_share_a_point", isinstance(res, bool) and res == shares)
                return
            ok = isinstance(res, PObj)
            eng.check(f"{oname}#ensures.returns_a_region", ok)
            if ok:
                eng.check(f"{oname}#ensures.set_semantics", iff(mem3(I, res, p), set_want(op, mem3(I, A, p), mem3(I, B, p))))

        return post

    for cls, ops in (("AllRegion", ("intersect", "union", "intersects")), ("EmptyRegion", ("intersect", "union", "intersects", "difference"))):
        for op in ops:
            params = dict(self=C.Const(None), other=C.Const(None))
            if op != "difference":
                params["triedReversed"] = C.Const(False)
            reg.add(C.Contract(f"{RG}:{cls}.{op}", params=params, setup=setup_special(cls, op), post=post_special(cls, op), inline_all=True, properties=("C16",)))

    # ---------------------------------------------------------------- composed regions: Boolean combination
    def mk_operand(I, tag, answers):
        eng = I.eng
        o = PObj("AbstractRegion", tag=tag)
        init_samplable(o)
        o.fields.update(orientation=None, name=tag)
        for m in ("containsPoint", "containsObject", "intersects"):
            b = eng.fresh_bool(f"{tag}.{m}")
            answers[(tag, m)] = b
            o.fields[m] = BuiltinFn(m, lambda x, b=b, **k: b)
        return o

    def setup_composed(cls, method):
        def setup(I, env):
            eng = I.eng
            ans = {}
            r1, r2 = mk_operand(I, "A", ans), mk_operand(I, "B", ans)
            S = PObj(RC(cls), tag="self")
            init_samplable(S)
            S.fields.update(orientation=None, name=None, sampler=None)
            if cls == "DifferenceRegion":
                S.fields.update(regionA=r1, regionB=r2)
            else:
                n = 2 + eng.choose(2, "two or three operands")
                regs = [r1, r2] + ([mk_operand(I, "C", ans)] if n == 3 else [])
                S.fields["regions"] = tuple(regs)
            env.vars.update(self=S, _ans=ans)
            if method == "containsPoint":
                env.vars["point"] = mk_point(I)[0]
            else:
                obj = PObj("Object", tag="obj")
                obj.fields["occupiedSpace"] = PObj("AbstractRegion", tag="obj.occupiedSpace")
                env.vars["obj"] = obj

        return setup

    def post_composed(cls, method):
        oname = f"regions.{cls}.{method}"

        def post(I, env, outcome):
            eng = I.eng
            if outcome[0] != "return":
                return
            ans, S, res = env.vars["_ans"], env.vars["self"], outcome[1]
            tags = ["A", "B"] + (["C"] if len(S.fields.get("regions", ())) == 3 else [])
            if cls == "IntersectionRegion":
                want = sv_and(*[ans[(t, method)] for t in tags])
                clause = "true_iff_every_operand_says_true"
            elif cls == "UnionRegion":
                want = sv_or(*[ans[(t, method)] for t in tags])
                clause = "true_iff_some_operand_says_true"
            elif method == "containsPoint":
                want = sv_and(ans[("A", method)], sv_not(ans[("B", method)]))
                clause = "true_iff_in_A_and_not_in_B"
            else:
                want = sv_and(ans[("A", "containsObject")], sv_not(ans[("B", "intersects")]))
                clause = "true_iff_A_contains_the_object_and_B_does_not_touch_it"
            eng.check(f"{oname}#ensures.{clause}", iff(I.truth(res), want))

        return post

    for cls, methods in (("IntersectionRegion", ("containsPoint", "containsObject")), ("UnionRegion", ("containsPoint",)), ("DifferenceRegion", ("containsPoint", "containsObject"))):
        for m in methods:
            params = dict(self=C.Const(None), point=C.Const(None)) if m == "containsPoint" else dict(self=C.Const(None), obj=C.Const(None))
            reg.add(C.Contract(f"{RG}:{cls}.{m}", params=params, setup=setup_composed(cls, m), post=post_composed(cls, m), inline_all=True, properties=("C16",)))

    # ---------------------------------------------------------------- PointSetRegion.intersect: dispatch protocol
    def setup_ps(I, env):
        eng = I.eng
        log = []
        A = PObj(RC("PointSetRegion"), tag="self")
        init_samplable(A)
        pred = z3.Function("mem3!pointset", _R, _R, _R, z3.BoolSort())
        A.fields.update(name="ps", orientation=None, _mem3=lambda p: SV(pred(*[toz3(c, want_real=True) for c in p])))
        other_is_point_set = eng.choose(2, "other: a region of another kind / another point set") == 1
        if other_is_point_set:
            B = PObj(RC("PointSetRegion"), tag="other")
            init_samplable(B)
            predB = z3.Function("mem3!pointset2", _R, _R, _R, z3.BoolSort())
            B.fields.update(name="ps2", orientation=None, _mem3=lambda p: SV(predB(*[toz3(c, want_real=True) for c in p])))

            def delegated_to_the_other_point_set(*a, **k):
                # logged, not interpreted: a hand-over to another point set is itself the failure (the chain never ends)
                log.append(("intersect", B, a, k, dict(op="intersect", target=B, args=a, kwargs=k)))
                tok = PObj("AbstractRegion", tag="answer of the other point set")
                init_samplable(tok)
                tok.fields.update(name=None, orientation=None, _mem3=lambda p: sv_and(mem3(I, A, p), mem3(I, B, p)))
                return tok

            B.fields["intersect"] = BuiltinFn("intersect", delegated_to_the_other_point_set)
        else:
            B = mk_abstract(I, "other", log)
        tr = eng.choose(2, "triedReversed") == 1
        eng.input_syms.append(("triedReversed", C.Const(None), tr))
        eng.input_syms.append(("other_is_a_point_set", C.Const(None), other_is_point_set))
        env.vars.update(self=A, other=B, triedReversed=tr, _log=log, _p=probe(I), _ops=other_is_point_set)

    def post_ps(I, env, outcome):
        eng = I.eng
        oname = "regions.PointSetRegion.intersect"
        if outcome[0] != "return":
            return
        A, B, p, log, tr, res = env.vars["self"], env.vars["other"], env.vars["_p"], env.vars["_log"], env.vars["triedReversed"], outcome[1]
        ok = isinstance(res, PObj)
        eng.check(f"{oname}#ensures.returns_a_region", ok)
        if not ok:
            return
        eng.check(f"{oname}#ensures.set_semantics", iff(mem3(I, res, p), sv_and(mem3(I, A, p), mem3(I, B, p))))
        if tr or env.vars["_ops"]:
            # the end of a dispatch chain: already reversed once, or two point sets (which would otherwise hand the
            # call back and forth forever): no further delegation, the point-set sampler is used
            eng.check(f"{oname}#dispatch.no_second_reversal", not log)
            eng.check(f"{oname}#dispatch.generic_fallback_with_sampler", is_a(I, res, "IntersectionRegion") and tuple(res.fields["regions"]) == (A, B) and res.fields.get("sampler") is not None)
        else:
            # a region of another kind gets the first try, exactly once, with the operands swapped; it may be told that
            # the reversal has happened (then it answers itself) or not (then it may hand the call back once, with the
            # flag set, which ends the chain at the arm above): either way the chain is finite
            calls = delegated(log, "intersect")
            ok = len(calls) == 1 and calls[0][2] == (A,) and calls[0][3] in ({}, {"triedReversed": True}, {"triedReversed": False})
            eng.check(f"{oname}#dispatch.other_operand_tried_exactly_once_with_the_operands_swapped", ok)

    def replay_ps(inputs, clause):
        R, Vector = _real_regions()
        a = R.PointSetRegion("a", [(0, 0, 0), (1, 1, 0)])
        b = R.PointSetRegion("b", [(0, 0, 0), (2, 2, 0)])
        import sys

        old_limit = sys.getrecursionlimit()
        sys.setrecursionlimit(300)
        try:
            a.intersect(b)  # an un-flagged reversal bounces between the two operands forever
        except RecursionError:
            return "PointSetRegion('a', [(0,0,0), (1,1,0)]).intersect(PointSetRegion('b', [(0,0,0), (2,2,0)])) never returns: the two point sets hand the call back and forth (RecursionError)"
        finally:
            sys.setrecursionlimit(old_limit)
        return None

    reg.add(C.Contract(f"{RG}:PointSetRegion.intersect", params=dict(self=C.Const(None), other=C.Const(None), triedReversed=C.Const(False)), setup=setup_ps, post=post_ps, inline_all=True, replay=replay_ps, properties=("C16",)))


# ===================================================================================================
# footprint / polyline set operations, intersects (z-awareness), region-in-region containment


class UndefinedNames(dict):
    """Free names of a carrier that are defined nowhere (not a parameter / local, not at module level, not a builtin):
    looking one up raises NameError, as in Python."""

    def __init__(self, target):
        import ast
        import builtins

        from pyvc import extract
        from pyvc.interp import SymRaise
        from pyvc.values import PExc

        super().__init__()
        self._raise = lambda n: (_ for _ in ()).throw(SymRaise(PExc(NameError, (f"name '{n}' is not defined",))))
        ex = extract.extract(target)
        bound = {a.arg for a in ast.walk(ex.node) if isinstance(a, ast.arg)}
        bound |= {n.id for n in ast.walk(ex.node) if isinstance(n, ast.Name) and isinstance(n.ctx, (ast.Store, ast.Del))}
        bound |= {n.name for n in ast.walk(ex.node) if isinstance(n, (ast.FunctionDef, ast.ClassDef)) and n is not ex.node}
        for n in ast.walk(ex.node):
            if isinstance(n, (ast.Import, ast.ImportFrom)):
                bound |= {(a.asname or a.name).split(".")[0] for a in n.names}
            if isinstance(n, ast.ExceptHandler) and n.name:
                bound.add(n.name)
        for n in ast.walk(ex.node):
            if isinstance(n, ast.Name) and isinstance(n.ctx, ast.Load) and n.id not in bound:
                if n.id in ex.module.top or hasattr(builtins, n.id) or n.id in ("__class__",):
                    continue
                dict.__setitem__(self, n.id, None)

    def __getitem__(self, name):
        self._raise(name)


def with_undefined_names(contract):
    und = UndefinedNames(contract.target)
    if len(und):
        for k, v in contract.env.items():
            dict.__setitem__(und, k, v) if k not in und else None
        contract.env = und
    return contract


def register_planar_ops(reg):
    # ---------------------------------------------------------------- PolygonalFootprintRegion.intersect / union / difference
    FP_KINDS = ["footprint", "polygonal", "generic"]

    def setup_fp(op):
        def setup(I, env):
            eng = I.eng
            log = []
            kind = FP_KINDS[eng.choose(len(FP_KINDS), "class of other")]
            A = mk_footprint(I, "self")
            B = mk_other(I, kind, log)
            env.vars.update(self=A, other=B, _log=log, _kind=kind)
            eng.input_syms.append(("kind", C.Const(None), kind))
            if op != "difference":
                tr = eng.choose(2, "triedReversed") == 1
                env.vars["triedReversed"] = tr
                eng.input_syms.append(("triedReversed", C.Const(None), tr))
            p = probe(I)
            env.vars["_p"] = p
            eng.assume(clear_of_boundaries(I, p, A, B))

        return setup

    def post_fp(op):
        oname = f"regions.PolygonalFootprintRegion.{op}"

        def post(I, env, outcome):
            eng = I.eng
            if outcome[0] != "return":
                # two footprints that merely touch (their planar intersection is a line / point): within tolerance
                inter = getattr(MS.world(I), "intersections", [])
                touching = bool(inter) and inter[-1][2] not in ("empty", "Polygon", "MultiPolygon")  # incl. a GeometryCollection: boundaries touch somewhere
                eng.check(f"{oname}#raises.TypeError.only_when_the_footprints_merely_touch", env.vars["_kind"] == "footprint" and touching)
                return
            res = outcome[1]
            A, B, p, log, kind = env.vars["self"], env.vars["other"], env.vars["_p"], env.vars["_log"], env.vars["_kind"]
            ok = isinstance(res, PObj)
            eng.check(f"{oname}#ensures.returns_a_region", ok)
            if not ok:
                return
            height_ok = True
            if kind == "polygonal" and is_a(I, res, "PolygonalRegion"):
                height_ok = compare("==", res.fields["z"], B.fields["z"])
                eng.check(f"{oname}#ensures.result_keeps_height_z_of_the_planar_operand", height_ok)
            eng.check(f"{oname}#ensures.set_semantics[{kind}]", sv_implies(height_ok, iff(mem3(I, res, p), set_want(op, mem3(I, A, p), mem3(I, B, p)))))
            if kind == "generic":
                tr = env.vars.get("triedReversed")
                if op == "difference":
                    eng.check(f"{oname}#dispatch.generic_fallback_is_DifferenceRegion", is_a(I, res, "DifferenceRegion") and not log)
                elif tr:
                    eng.check(f"{oname}#dispatch.no_second_reversal", not log)
                else:
                    check_delegation(I, oname, log, op, A, res)

        return post

    def replay_fp(op):
        def replay(inputs, clause):
            R, Vector = _real_regions()
            kind = inputs.get("kind")
            zb = float(inputs.get("other.z", 0.0))
            A = R.PolygonalRegion([(0, 0), (4, 0), (4, 4), (0, 4)]).footprint
            if kind == "polygonal":
                B = R.PolygonalRegion([(2, 2), (6, 2), (6, 6), (2, 6)], z=zb)
            elif kind == "footprint":
                B = R.PolygonalRegion([(2, 2), (6, 2), (6, 6), (2, 6)]).footprint
            else:
                return None
            res = getattr(A, op)(B)
            if "height" in clause:
                if isinstance(res, R.PolygonalRegion) and abs(res.z - zb) > 1e-9:
                    return f"footprint.{op}(PolygonalRegion(z={zb})) returned a PolygonalRegion at z={res.z}"
                return None
            for x, y in ((3, 3), (1, 1), (5, 5)):
                for z in sorted({zb, 0.0, zb + 1.5}):
                    pt = Vector(x, y, z)
                    a, b = _member(R, A, pt), _member(R, B, pt)
                    want = {"intersect": a and b, "union": a or b, "difference": a and not b}[op]
                    got = _member(R, res, pt)
                    if got != want:
                        return f"A = footprint of [0,4]^2, B = {type(B).__name__}{f' at z={zb}' if kind == 'polygonal' else ''}: point {tuple(pt)} in A: {a}, in B: {b}, but in A.{op}(B) = {res!r}: {got}"
            return None

        return replay

    for op in ("intersect", "union", "difference"):
        params = dict(self=C.Const(None), other=C.Const(None))
        if op != "difference":
            params["triedReversed"] = C.Const(False)
        reg.add(C.Contract(f"{RG}:PolygonalFootprintRegion.{op}", params=params, setup=setup_fp(op), post=post_fp(op), raises=[C.Raises("TypeError", mode="may")] if op == "intersect" else (), inline_all=True, replay=replay_fp(op), properties=("C16",)))

    # ---------------------------------------------------------------- PolylineRegion.intersect / difference / intersects, PolygonalRegion.intersects
    def setup_line(op, selfkind):
        def setup(I, env):
            eng = I.eng
            log = []
            kinds = ["polygonal", "footprint", "polyline", "generic"] if selfkind == "polyline" else ["polygonal", "polyline", "generic"]
            kind = kinds[eng.choose(len(kinds), "class of other")]
            A = mk_polyline(I, "self") if selfkind == "polyline" else mk_polygonal(I, "self")
            B = mk_other(I, kind, log) if not (kind == "generic" and op == "intersects") else mk_abstract(I, "other", log, rich=True)
            env.vars.update(self=A, other=B, _log=log, _kind=kind)
            eng.input_syms.append(("kind", C.Const(None), kind))
            if op != "difference":
                tr = eng.choose(2, "triedReversed") == 1
                env.vars["triedReversed"] = tr
                eng.input_syms.append(("triedReversed", C.Const(None), tr))
            p = probe(I)
            env.vars["_p"] = p
            eng.assume(clear_of_boundaries(I, p, A, B))

        return setup

    def post_line_setop(op):
        oname = f"regions.PolylineRegion.{op}"

        def post(I, env, outcome):
            eng = I.eng
            if outcome[0] != "return":
                return
            res = outcome[1]
            A, B, p, log, kind = env.vars["self"], env.vars["other"], env.vars["_p"], env.vars["_log"], env.vars["_kind"]
            ok = isinstance(res, PObj)
            eng.check(f"{oname}#ensures.returns_a_region", ok)
            if not ok:
                return
            eng.check(f"{oname}#ensures.set_semantics[{kind}]", iff(mem3(I, res, p), set_want(op, mem3(I, A, p), mem3(I, B, p))))
            if kind == "generic":
                tr = env.vars.get("triedReversed")
                if op == "difference":
                    eng.check(f"{oname}#dispatch.generic_fallback_is_DifferenceRegion", is_a(I, res, "DifferenceRegion") and not log)
                elif tr:
                    eng.check(f"{oname}#dispatch.no_second_reversal", not log)
                else:
                    check_delegation(I, oname, log, op, A, res)

        return post

    def replay_line(op):
        def replay(inputs, clause):
            R, Vector = _real_regions()
            kind = inputs.get("kind")
            zb = float(inputs.get("other.z", 0.0))
            L = R.PolylineRegion([(-1, 3), (7, 3)])
            if kind == "polygonal":
                B = R.PolygonalRegion([(0, 0), (4, 0), (4, 4), (0, 4)], z=zb)
            elif kind == "footprint":
                B = R.PolygonalRegion([(0, 0), (4, 0), (4, 4), (0, 4)]).footprint
            elif kind == "polyline":
                B = R.PolylineRegion([(3, -1), (3, 7)])
                if op == "intersect":
                    # two polylines that overlap along a segment AND cross in an isolated point
                    L1 = R.PolylineRegion([(0, 0), (4, 0), (4, 4)])
                    L2 = R.PolylineRegion([(1, 0), (3, 0), (3, 2), (5, 2)])
                    r12 = L1.intersect(L2)
                    pt = Vector(4, 2, 0)
                    if L1.containsPoint(pt) and L2.containsPoint(pt) and not _member(R, r12, pt):
                        return f"L1 = (0,0)-(4,0)-(4,4), L2 = (1,0)-(3,0)-(3,2)-(5,2): the crossing point (4,2,0) lies on both but not in L1.intersect(L2) = {r12!r} (isolated points of a mixed intersection are dropped)"
            else:
                return None
            if op == "intersects":
                got = bool(L.intersects(B))
                want = not (kind == "polygonal" and zb != 0)
                if got != want:
                    return f"PolylineRegion (z=0) .intersects({type(B).__name__}{f' at z={zb}' if kind == 'polygonal' else ''}) = {got}; they share {'a' if want else 'no'} point"
                return None
            res = getattr(L, op)(B)
            for x, y in ((3, 3), (5, 3), (-0.5, 3), (3, 5)):
                for z in sorted({zb, 0.0}):
                    pt = Vector(x, y, z)
                    a, b = _member(R, L, pt), _member(R, B, pt)
                    if kind == "polyline" and op != "intersect" and b:
                        continue  # every point of a 1-dimensional operand is a boundary point (the property speaks of points clear of the boundaries)
                    want = {"intersect": a and b, "difference": a and not b}[op]
                    got = _member(R, res, pt)
                    if got != want:
                        return f"L = polyline (-1,3)-(7,3) at z=0, B = {type(B).__name__}{f' at z={zb}' if kind == 'polygonal' else ''}: point {tuple(pt)} in L: {a}, in B: {b}, but in L.{op}(B) = {res!r}: {got}"
            return None

        return replay

    for op in ("intersect", "difference"):
        params = dict(self=C.Const(None), other=C.Const(None))
        if op != "difference":
            params["triedReversed"] = C.Const(False)
        reg.add(C.Contract(f"{RG}:PolylineRegion.{op}", params=params, setup=setup_line(op, "polyline"), post=post_line_setop(op), inline_all=True, replay=replay_line(op), properties=("C16",)))

    def post_intersects(cls):
        oname = f"regions.{cls}.intersects"

        def post(I, env, outcome):
            eng = I.eng
            A, B, p, log, kind = env.vars["self"], env.vars["other"], env.vars["_p"], env.vars["_log"], env.vars["_kind"]
            tr = env.vars["triedReversed"]
            if outcome[0] == "raise":
                forms = [c[4].get("form") for c in delegated(log, "intersect")]
                eng.check(f"{oname}#raises.NotImplementedError.only_for_a_generic_intersection", kind == "generic" and bool(tr) and forms == [2])
                return
            res = outcome[1]
            okb = isinstance(res, (bool, SV))
            eng.check(f"{oname}#ensures.returns_a_bool", okb)
            if not okb:
                return
            if kind == "generic":
                if not tr:
                    calls = delegated(log, "intersects")
                    ok = len(calls) == 1 and calls[0][2] == (A,) and calls[0][3] == {"triedReversed": True}
                    eng.check(f"{oname}#dispatch.reversed_exactly_once_with_triedReversed_True", ok)
                return
            # `A.intersects(B)` holds exactly when they share a point
            eng.check(f"{oname}#ensures.a_shared_point_implies_true[{kind}]", sv_implies(sv_and(mem3(I, A, p), mem3(I, B, p)), res))
            ga, gb = planar_geoms(I, A)[0], planar_geoms(I, B)[0]
            wit = [w for (other_g, r, w) in ga.fields.get("_intersects_log", []) if other_g is gb]
            if wit:
                heights = {h for h in (height_of(I, A), height_of(I, B)) if h is not None}
                w3 = (wit[0][0], wit[0][1], next(iter(heights)) if heights else 0)
                eng.check(f"{oname}#ensures.true_implies_a_shared_point[{kind}]", sv_implies(res, sv_and(mem3(I, A, w3), mem3(I, B, w3))))
            else:
                eng.check(f"{oname}#ensures.true_implies_a_shared_point[{kind}]", sv_not(res))

        return post

    for cls, selfkind in (("PolylineRegion", "polyline"), ("PolygonalRegion", "polygonal")):
        reg.add(
            C.Contract(
                f"{RG}:{cls}.intersects",
                params=dict(self=C.Const(None), other=C.Const(None), triedReversed=C.Const(False)),
                setup=setup_line("intersects", selfkind),
                post=post_intersects(cls),
                raises=[C.Raises("NotImplementedError", mode="may")],
                inline_all=True,
                replay=replay_line("intersects") if cls == "PolylineRegion" else replay_poly_intersects,
                properties=("C16",),
            )
        )


def exc_name(outcome):
    c = outcome[1].cls
    return getattr(c, "__name__", getattr(c, "name", str(c)))


def height_of(I, r):
    if is_a(I, r, "PolygonalRegion"):
        return r.fields["z"]
    if is_a(I, r, "PolylineRegion"):
        return 0
    return None


def replay_poly_intersects(inputs, clause):
    R, Vector = _real_regions()
    kind = inputs.get("kind")
    za, zb = float(inputs.get("self.z", 0.0)), float(inputs.get("other.z", 0.0))
    A = R.PolygonalRegion([(0, 0), (4, 0), (4, 4), (0, 4)], z=za)
    if kind == "polygonal":
        B = R.PolygonalRegion([(2, 2), (6, 2), (6, 6), (2, 6)], z=zb)
        want = za == zb
    elif kind == "polyline":
        B = R.PolylineRegion([(-1, 3), (7, 3)])
        want = za == 0
    else:
        return None
    got = bool(A.intersects(B))
    if got != want:
        return f"PolygonalRegion(z={za}).intersects({type(B).__name__}{f'(z={zb})' if kind == 'polygonal' else ' (z=0)'}) = {got}; they share {'a' if want else 'no'} point"
    return None


# ===================================================================================================
# CircularRegion.intersects, region-in-region containment


def register_containment(reg):
    reg.trust("G-discs-meet", "two closed discs lying in the same plane share a point exactly when the distance of their centres is at most the sum of the radii; discs in different parallel planes share no point")

    # ---------------------------------------------------------------- CircularRegion.intersects(CircularRegion)
    def setup_ci(I, env):
        A, B = mk_circular(I, "self"), mk_circular(I, "other")
        env.vars.update(self=A, other=B, triedReversed=I.eng.choose(2, "triedReversed") == 1)

    def post_ci(I, env, outcome):
        eng = I.eng
        oname = "regions.CircularRegion.intersects"
        if outcome[0] != "return":
            return
        A, B, res = env.vars["self"], env.vars["other"], outcome[1]
        ca, cb = A.fields["center"].fields["coordinates"], B.fields["center"].fields["coordinates"]
        rsum = arith("+", A.fields["radius"], B.fields["radius"])
        planar = arith("+", sq(arith("-", ca[0], cb[0])), sq(arith("-", ca[1], cb[1])))
        share = sv_and(compare("==", ca[2], cb[2]), compare("<=", planar, sq(rsum)))  # G-discs-meet
        eng.check(f"{oname}#ensures.true_iff_the_discs_share_a_point", iff(I.truth(res), share))

    def replay_ci(inputs, clause):
        import math

        R, Vector = _real_regions()
        ca, cb = [float(x) for x in inputs["self.center"]], [float(x) for x in inputs["other.center"]]
        ra, rb = float(inputs["self.radius"]), float(inputs["other.radius"])
        A, B = R.CircularRegion(Vector(*ca), ra), R.CircularRegion(Vector(*cb), rb)
        got = bool(A.intersects(B))
        planar = math.hypot(ca[0] - cb[0], ca[1] - cb[1])
        if abs(planar - (ra + rb)) < 1e-9:
            return None
        want = ca[2] == cb[2] and planar <= ra + rb
        if got != want:
            return f"CircularRegion(centre {tuple(ca)}, r={ra}).intersects(CircularRegion(centre {tuple(cb)}, r={rb})) = {got}; the discs share {'a' if want else 'no'} point (A.intersect(B) = {A.intersect(B)!r})"
        return None

    reg.add(C.Contract(f"{RG}:CircularRegion.intersects", params=dict(self=C.Const(None), other=C.Const(None), triedReversed=C.Const(False)), setup=setup_ci, post=post_ci, inline_all=True, replay=replay_ci, properties=("C16",)), key=f"{RG}:CircularRegion.intersects[circular]")

    # ---------------------------------------------------------------- containsRegionInner
    def mk_tol(I):
        eng = I.eng
        if eng.choose(2, "tolerance zero or positive") == 0:
            eng.input_syms.append(("tolerance", C.Const(None), 0))
            return 0
        t = eng.fresh_real("tolerance")
        eng.assume(compare(">", t, 0))
        eng.input_syms.append(("tolerance", C.Real(), t))
        return t

    def mk_mesh_region(I, tag):
        r = PObj(RC("MeshVolumeRegion"), tag=tag)
        init_samplable(r)
        bp = MS.make_geom(I, "Polygon", empty=False, tag=tag + "._boundingPolygon")
        pred = z3.Function(f"mem3!{tag}", _R, _R, _R, z3.BoolSort())
        # a mesh lies inside the prism over its bounding polygon (projection onto the plane)
        P3 = lambda p: SV(pred(*[toz3(c, want_real=True) for c in p]))
        r.fields.update(_boundingPolygon=bp, orientation=None, name=None, _mem3=lambda p: sv_and(P3(p), MS.gmem(bp, p[0], p[1])))
        zf = z3.Function(f"lift!{tag}", _R, _R, _R)

        def lift(x, y):
            # the bounding polygon is the projection of the mesh: every point of it lies below/above a mesh point
            z = SV(zf(toz3(x, want_real=True), toz3(y, want_real=True)), True)
            I.eng.assume(sv_implies(MS.gmem(bp, x, y), P3((x, y, z))))
            return z

        r.fields["_lift"] = lift
        return r

    def check_containment_answer(I, oname, res, container_geom, inner, tol, p, dz=None):
        """result True => every member of `inner` is within `tol` of the container; result False => some member is not."""
        eng = I.eng
        okb = isinstance(res, (bool, SV))
        eng.check(f"{oname}#ensures.returns_a_bool", okb)
        if not okb:
            return
        d = MS.dist_at(I, container_geom, p[0], p[1], witness=False)
        eng.check(f"{oname}#ensures.true_only_if_every_member_is_within_tolerance", sv_implies(sv_and(res, mem3(I, inner, p)), compare("<=", d, tol)))
        log = getattr(MS.world(I), "contains_log", [])
        if log:
            a, b, r, (cx, cy) = log[-1]
            dw = MS.dist_at(I, container_geom, cx, cy, witness=False)
            zs = height_of(I, inner)
            if "_lift" in inner.fields:
                zs = inner.fields["_lift"](cx, cy)
            w3 = (cx, cy, zs if zs is not None else p[2])
            eng.check(f"{oname}#ensures.false_only_if_some_member_is_not_within_tolerance", sv_or(res, sv_and(mem3(I, inner, w3), compare(">", dw, tol))))
        else:
            eng.check(f"{oname}#ensures.false_only_if_some_member_is_not_within_tolerance", False)

    # PolygonalFootprintRegion
    FPK = ["polygonal", "footprint", "mesh", "generic"]

    def setup_fpc(I, env):
        eng = I.eng
        kind = FPK[eng.choose(len(FPK), "class of reg")]
        A = mk_footprint(I, "self")
        B = mk_mesh_region(I, "reg") if kind == "mesh" else mk_other(I, kind, [], tag="reg")
        env.vars.update(self=A, reg=B, tolerance=mk_tol(I), _kind=kind, _p=probe(I))
        eng.input_syms.append(("kind", C.Const(None), kind))

    def post_fpc(I, env, outcome):
        eng = I.eng
        oname = "regions.PolygonalFootprintRegion.containsRegionInner"
        kind = env.vars["_kind"]
        if outcome[0] == "raise":
            if exc_name(outcome) == "NotImplementedError":
                eng.check(f"{oname}#raises.NotImplementedError.only_for_other_region_classes", kind == "generic")
            return
        eng.check(f"{oname}#raises.NotImplementedError.must_for_other_region_classes", kind != "generic")
        check_containment_answer(I, oname, outcome[1], env.vars["self"].fields["polygons"], env.vars["reg"], env.vars["tolerance"], env.vars["_p"])

    def replay_fpc(inputs, clause):
        R, Vector = _real_regions()
        P = R.PolygonalRegion([(0, 0), (4, 0), (4, 4), (0, 4)])
        Q = R.PolygonalRegion([(1, 1), (2, 1), (2, 2), (1, 2)])
        got = P.footprint.containsRegionInner(Q if inputs.get("kind") != "footprint" else Q.footprint, float(inputs.get("tolerance", 0)))
        if got is not True:
            return f"footprint of [0,4]^2 .containsRegionInner([1,2]^2) = {got}"
        return None

    reg.add(with_undefined_names(C.Contract(f"{RG}:PolygonalFootprintRegion.containsRegionInner", params=dict(self=C.Const(None), reg=C.Const(None), tolerance=C.Const(0)), setup=setup_fpc, post=post_fpc, raises=[C.Raises("NotImplementedError", mode="may")], inline_all=True, replay=replay_fpc, properties=("C16",))))

    # PolylineRegion (only regions of dimension <= 1 reach it: Region.containsRegion filters by dimensionality)
    LK = ["polyline", "generic"]

    def setup_lc(I, env):
        eng = I.eng
        kind = LK[eng.choose(len(LK), "class of other")]
        A = mk_polyline(I, "self")
        B = mk_other(I, kind, [], tag="other")
        env.vars.update(self=A, other=B, tolerance=mk_tol(I), _kind=kind, _p=probe(I))
        eng.input_syms.append(("kind", C.Const(None), kind))

    def post_lc(I, env, outcome):
        eng = I.eng
        oname = "regions.PolylineRegion.containsRegionInner"
        kind = env.vars["_kind"]
        if outcome[0] == "raise":
            if exc_name(outcome) == "TypeError":
                eng.check(f"{oname}#raises.TypeError.only_for_regions_without_planar_geometry", kind == "generic")
            return
        eng.check(f"{oname}#raises.TypeError.must_for_regions_without_planar_geometry", kind != "generic")
        check_containment_answer(I, oname, outcome[1], env.vars["self"].fields["lineString"], env.vars["other"], env.vars["tolerance"], env.vars["_p"])

    def replay_lc(inputs, clause):
        R, Vector = _real_regions()
        L = R.PolylineRegion([(0, 0), (4, 4)])
        tol = float(inputs.get("tolerance", 0))
        got = L.containsRegionInner(R.PolylineRegion([(1, 1), (2, 2)]), tol)
        if got is not True:
            return f"PolylineRegion((0,0)-(4,4)).containsRegionInner(PolylineRegion((1,1)-(2,2)), tolerance={tol}) = {got}: the sub-segment lies on the polyline"
        return None

    reg.add(with_undefined_names(C.Contract(f"{RG}:PolylineRegion.containsRegionInner", params=dict(self=C.Const(None), other=C.Const(None), tolerance=C.Const(0)), setup=setup_lc, post=post_lc, raises=[C.Raises("TypeError", mode="may")], inline_all=True, replay=replay_lc, properties=("C16",))))

    # PolygonalRegion
    PK = ["polygonal", "polyline", "generic"]

    def setup_pc(I, env):
        eng = I.eng
        kind = PK[eng.choose(len(PK), "class of other")]
        A = mk_polygonal(I, "self")
        B = mk_other(I, kind, [], tag="other")
        env.vars.update(self=A, other=B, tolerance=mk_tol(I), _kind=kind, _p=probe(I))
        eng.input_syms.append(("kind", C.Const(None), kind))

    def post_pc(I, env, outcome):
        eng = I.eng
        oname = "regions.PolygonalRegion.containsRegionInner"
        kind, A, B, p, tol = env.vars["_kind"], env.vars["self"], env.vars["other"], env.vars["_p"], env.vars["tolerance"]
        if outcome[0] == "raise":
            if exc_name(outcome) == "TypeError":
                eng.check(f"{oname}#raises.TypeError.only_for_regions_without_planar_geometry", kind == "generic")
            return
        eng.check(f"{oname}#raises.TypeError.must_for_regions_without_planar_geometry", kind != "generic")
        res = outcome[1]
        hb = height_of(I, B)
        same = compare("==", hb, A.fields["z"])
        # heights: a region at another height (farther than the tolerance) is not contained
        eng.check(f"{oname}#ensures.height_is_taken_into_account", sv_implies(sv_and(res, compare(">", sq(arith("-", hb, A.fields["z"])), sq(tol))), False))
        eng.assume(same)
        check_containment_answer(I, oname, res, A.fields["_polygons"], B, tol, p)

    def replay_pc(inputs, clause):
        R, Vector = _real_regions()
        if "height" not in clause:
            return None
        za = float(inputs.get("self.z", 0.0))
        zb = float(inputs.get("other.z", 0.0)) if inputs.get("kind") == "polygonal" else 0.0
        tol = float(inputs.get("tolerance", 0))
        if abs(za - zb) <= tol:
            return None
        P = R.PolygonalRegion([(0, 0), (4, 0), (4, 4), (0, 4)], z=za)
        Q = R.PolygonalRegion([(1, 1), (2, 1), (2, 2), (1, 2)], z=zb) if inputs.get("kind") == "polygonal" else R.PolylineRegion([(1, 1), (2, 2)])
        if P.containsRegionInner(Q, tol):
            return f"PolygonalRegion([0,4]^2, z={za}).containsRegionInner({type(Q).__name__} at z={zb}, tolerance={tol}) = True although no point of it is within {tol} of the container"
        return None

    reg.add(C.Contract(f"{RG}:PolygonalRegion.containsRegionInner", params=dict(self=C.Const(None), other=C.Const(None), tolerance=C.Const(0)), setup=setup_pc, post=post_pc, raises=[C.Raises("TypeError", mode="may")], inline_all=True, replay=replay_pc, properties=("C16",)))

    # ---------------------------------------------------------------- Region.containsRegion (fast paths)
    def setup_cr(I, env):
        eng = I.eng
        inner_calls = []
        truth = eng.fresh_bool("reg_is_contained_in_self")

        def region(tag, k):
            if k == 1:
                return mk_special(I, "AllRegion")
            if k == 2:
                return mk_special(I, "EmptyRegion")
            o = PObj("AbstractRegion", tag=tag)
            init_samplable(o)
            dim = None if eng.choose(2, f"{tag}.dimensionality known?") == 0 else eng.fresh_int(f"{tag}.dimensionality")
            size = None if eng.choose(2, f"{tag}.size known?") == 0 else eng.fresh_real(f"{tag}.size")
            if dim is not None:
                eng.assume(sv_and(compare(">=", dim, 0), compare("<=", dim, 3)))
            if size is not None:
                eng.assume(compare(">", size, 0))
            o.fields.update(dimensionality=dim, size=size, name=tag, orientation=None)
            return o

        A = region("self", eng.choose(3, "self: generic / everywhere / nowhere"))
        B = region("reg", eng.choose(3, "reg: generic / everywhere / nowhere"))
        A.fields["containsRegionInner"] = BuiltinFn("containsRegionInner", lambda r, t: (inner_calls.append((r, t)), truth)[1])
        tol = 0 if eng.choose(2, "tolerance") == 0 else eng.fresh_real("tolerance")
        if isinstance(tol, SV):
            eng.assume(compare(">", tol, 0))
        env.vars.update(self=A, reg=B, tolerance=tol, _truth=truth, _inner=inner_calls)

    def post_cr(I, env, outcome):
        eng = I.eng
        oname = "regions.Region.containsRegion"
        if outcome[0] != "return":
            return
        A, B, res, truth, tol = env.vars["self"], env.vars["reg"], outcome[1], env.vars["_truth"], env.vars["tolerance"]
        a_all, a_emp, b_all, b_emp = is_a(I, A, "AllRegion"), is_a(I, A, "EmptyRegion"), is_a(I, B, "AllRegion"), is_a(I, B, "EmptyRegion")
        if a_all or b_emp:
            eng.check(f"{oname}#ensures.everywhere_contains_everything_and_nowhere_is_contained_in_everything", res is True)
            return
        if a_emp or b_all:
            # reg is non-empty (not `nowhere`) / self is not everything
            eng.check(f"{oname}#ensures.nowhere_contains_nothing_and_only_everywhere_contains_everywhere", res is False)
            return
        # measure facts (trusted): a subset has no larger dimension, and at equal dimension no larger size (tolerance 0)
        da, db, sa, sb = A.fields["dimensionality"], B.fields["dimensionality"], A.fields["size"], B.fields["size"]
        if da is not None and db is not None:
            eng.assume(sv_implies(truth, compare(">=", da, db)))
            if sa is not None and sb is not None and not isinstance(tol, SV):
                eng.assume(sv_implies(sv_and(truth, compare("==", da, db)), compare(">=", sa, sb)))
        eng.check(f"{oname}#ensures.agrees_with_containsRegionInner_and_measure_monotonicity", iff(I.truth(res), truth))
        eng.check(f"{oname}#ensures.inner_test_called_at_most_once_with_the_arguments", len(env.vars["_inner"]) <= 1 and all(c[0] is B and c[1] is tol for c in env.vars["_inner"]))

    reg.trust("measure-monotonicity", "if region B is contained in region A then dim(B) <= dim(A), and size(B) <= size(A) when the dimensions agree (tolerance 0)")
    reg.add(C.Contract(f"{RG}:Region.containsRegion", params=dict(self=C.Const(None), reg=C.Const(None), tolerance=C.Const(0)), setup=setup_cr, post=post_cr, inline_all=True, properties=("C16",)))


# ===================================================================================================
# bounding boxes


def check_box(I, oname, res, member, p):
    eng = I.eng
    ok = isinstance(res, tuple) and len(res) == 2 and all(isinstance(c, tuple) and len(c) == 3 for c in res)
    eng.check(f"{oname}#ensures.returns_two_corners", ok)
    if ok:
        lo, hi = res
        inside = sv_and(*[sv_and(compare("<=", a, v), compare("<=", v, b)) for a, v, b in zip(lo, p, hi)])
        eng.check(f"{oname}#ensures.every_member_is_inside_the_box", sv_implies(member, inside))


def register_aabb(reg):
    reg.add(
        C.Contract(
            f"{GEO}:findMinMax",
            params=dict(iterable=C.ListOf(C.Real(), (1, 2, 3, 4), as_tuple=True)),
            ensures={
                "lower_bound": "all(result[0] <= v for v in old(iterable))",
                "upper_bound": "all(v <= result[1] for v in old(iterable))",
                "min_attained": "any(result[0] == v for v in old(iterable))",
                "max_attained": "any(result[1] == v for v in old(iterable))",
            },
            result=lambda I, env: (I.eng.fresh_real("minv"), I.eng.fresh_real("maxv")),
            bounded=True,
            note="bounded: 1..4 values (symbolic)",
            properties=("C16",),
        )
    )

    def setup_poly(I, env):
        A = mk_polygonal(I, "self")
        with_bounds(I, A.fields["_polygons"])
        env.vars.update(self=A, _p=probe(I))

    def post_poly(I, env, outcome):
        if outcome[0] == "return":
            check_box(I, "regions.PolygonalRegion.AABB", outcome[1], mem3(I, env.vars["self"], env.vars["_p"]), env.vars["_p"])

    reg.add(C.Contract(f"{RG}:PolygonalRegion.AABB", params=dict(self=C.Const(None)), setup=setup_poly, post=post_poly, inline_all=True, properties=("C16",)))

    def setup_line(I, env):
        A = mk_polyline(I, "self")
        with_bounds(I, A.fields["lineString"])
        env.vars.update(self=A, _p=probe(I))

    def post_line(I, env, outcome):
        if outcome[0] == "return":
            check_box(I, "regions.PolylineRegion.AABB", outcome[1], mem3(I, env.vars["self"], env.vars["_p"]), env.vars["_p"])

    reg.add(C.Contract(f"{RG}:PolylineRegion.AABB", params=dict(self=C.Const(None)), setup=setup_line, post=post_line, inline_all=True, properties=("C16",)))

    def setup_circ(I, env):
        env.vars.update(self=mk_circular(I), _p=probe(I))

    def post_circ(I, env, outcome):
        if outcome[0] == "return":
            check_box(I, "regions.CircularRegion.AABB", outcome[1], mem3(I, env.vars["self"], env.vars["_p"]), env.vars["_p"])

    reg.add(C.Contract(f"{RG}:CircularRegion.AABB", params=dict(self=C.Const(None)), setup=setup_circ, post=post_circ, inline_all=True, properties=("C16",)))

    def setup_rect(I, env):
        A, member = mk_rectangular(I)
        env.vars.update(self=A, _member=member)

    def post_rect(I, env, outcome):
        if outcome[0] == "return":
            p, member = env.vars["_member"]
            check_box(I, "regions.RectangularRegion.AABB", outcome[1], member, p)

    reg.add(C.Contract(f"{RG}:RectangularRegion.AABB", params=dict(self=C.Const(None)), setup=setup_rect, post=post_rect, inline=["Vector.__getitem__", "RectangularRegion.AABB"], properties=("C16",)))

    def setup_mesh(I, env):
        A = PObj(RC("MeshVolumeRegion"), tag="self")
        init_samplable(A)
        mesh = MS.make_mesh(I, "mesh")
        A.fields.update(mesh=mesh, orientation=None, name=None)
        env.vars.update(self=A, _p=probe(I), _mesh=mesh)

    def post_mesh(I, env, outcome):
        if outcome[0] == "return":
            p = env.vars["_p"]
            res = outcome[1]
            if isinstance(res, tuple):
                res = tuple(tuple(c) if isinstance(c, tuple) else c for c in res)
            check_box(I, "regions.MeshRegion.AABB", res, env.vars["_mesh"].fields["_mem3"](*p), p)

    reg.add(C.Contract(f"{RG}:MeshRegion.AABB", params=dict(self=C.Const(None)), setup=setup_mesh, post=post_mesh, inline_all=True, properties=("C16",)))

    def setup_ps(I, env):
        eng = I.eng
        n = 1 + eng.choose(3, "number of points")
        pts = [[eng.fresh_real(f"pt{i}.{c}") for c in "xyz"] for i in range(n)]
        A = PObj(RC("PointSetRegion"), tag="self")
        init_samplable(A)
        A.fields.update(points=MS.NDArr((n, 3), pts), orientation=None, name="ps")
        env.vars.update(self=A, _pts=pts)

    def post_ps(I, env, outcome):
        if outcome[0] == "return":
            for i, pt in enumerate(env.vars["_pts"]):
                check_box(I, "regions.PointSetRegion.AABB", outcome[1], True, pt)

    reg.add(C.Contract(f"{RG}:PointSetRegion.AABB", params=dict(self=C.Const(None)), setup=setup_ps, post=post_ps, inline_all=True, bounded=True, note="bounded: 1..3 points (symbolic coordinates)", properties=("C16",)))


def mk_rectangular(I, tag="self"):
    """A RectangularRegion as its constructor leaves it (position, heading, hw, hl, corners, circumcircle) and a generic
    member: position + Rot(heading) (rx, ry) with |rx| <= hw, |ry| <= hl, at the height of the position."""
    eng = I.eng
    px, py, pz = (eng.fresh_real(f"{tag}.position.{c}") for c in "xyz")
    h, w, l = eng.fresh_real(f"{tag}.heading"), eng.fresh_real(f"{tag}.width"), eng.fresh_real(f"{tag}.length")
    eng.assume(sv_and(compare(">", w, 0), compare(">", l, 0)))
    for n, v in (("position", (px, py, pz)),):
        eng.input_syms.append((f"{tag}.{n}", C.TupleOf(C.Real(), C.Real(), C.Real()), v))
    for n, v in (("heading", h), ("width", w), ("length", l)):
        eng.input_syms.append((f"{tag}.{n}", C.Real(), v))
    hw, hl = arith("/", w, 2), arith("/", l, 2)
    c, s = MS.cos(I, h), MS.sin(I, h)
    rot = lambda x, y: (arith("+", px, arith("-", arith("*", c, x), arith("*", s, y))), arith("+", py, arith("+", arith("*", s, x), arith("*", c, y))), pz)
    corners = tuple(make_vector(*rot(a, b)) for a, b in ((hw, hl), (arith("-", 0, hw), hl), (arith("-", 0, hw), arith("-", 0, hl)), (hw, arith("-", 0, hl))))
    g = MS.make_geom(I, "Polygon", empty=False, tag=tag + ".polygons")
    r = mk_polygonal(I, tag, z=pz, cls="RectangularRegion", polygons=g)
    pos = make_vector(px, py, pz)
    r.fields.update(position=pos, heading=h, width=w, length=l, hw=hw, hl=hl, corners=corners)
    rx, ry = eng.fresh_real("rx"), eng.fresh_real("ry")
    eng.input_syms.append(("local", C.TupleOf(C.Real(), C.Real()), (rx, ry)))
    member = sv_and(compare("<=", arith("-", 0, hw), rx), compare("<=", rx, hw), compare("<=", arith("-", 0, hl), ry), compare("<=", ry, hl))
    return r, (rot(rx, ry), member)


# ===================================================================================================
# geometry.viewAngleToPoint (the cone test behind SectorRegion.containsPoint)

ATAN2 = z3.Function("atan2", _R, _R, _R)


def ensure_atan2(I):
    """math.atan2(y, x): abstract, value in (-pi, pi] (A2-atan2-range)."""
    import math

    mm = I.modules["math"]
    if "atan2" in mm.attrs:
        return
    eng = I.eng

    def atan2(y, x):
        v = SV(ATAN2(toz3(y, want_real=True), toz3(x, want_real=True)), True)
        eng.assume(sv_and(compare(">", v, -math.pi), compare("<=", v, math.pi)))
        return v

    mm.attrs["atan2"] = BuiltinFn("math.atan2", atan2)


def register_view_angle(reg):
    import fractions
    import math

    TAU = z3.RealVal(str(fractions.Fraction(repr(math.tau))))
    reg.trust("A2-atan2-range", "math.atan2(y, x) is an angle in (-pi, pi] (the direction of (x, y); abstract otherwise)")

    def is_turns(x):
        t = toz3(x, want_real=True) / TAU
        return SV(t == z3.ToReal(z3.ToInt(t)))

    # normalizeAngle: assumed at the call site with the contract that is PROVED under C08 (contracts/relations.py)
    def norm_result(I, env):
        eng = I.eng
        a = env.lookup("angle")
        r = eng.fresh_real("normalized")
        w = eng.fresh_int("winding")
        eng.assume(compare("==", r, arith("-", a, arith("*", math.tau, w))))
        return r

    reg.add(
        C.Contract(
            f"{GEO}:normalizeAngle",
            params=dict(angle=C.Real()),
            ensures={"in_range": "-math.pi <= result and result <= math.pi", "identity_in_range": "implies(-math.pi <= angle and angle <= math.pi, result == angle)"},
            result=norm_result,
            call_only=True,
            note="result = angle - tau * k for an integer k, in [-pi, pi]; verified with loop invariants under C08 (relations.py)",
            properties=("C16",),
        )
    )

    def setup(I, env):
        eng = I.eng
        ensure_atan2(I)
        p = tuple(eng.fresh_real(f"point.{c}") for c in "xyz")
        b = tuple(eng.fresh_real(f"base.{c}") for c in "xyz")
        h = eng.fresh_real("heading")  # EVERY heading, not only normalised ones (450 deg, accumulated headings, ...)
        eng.input_syms.append(("point", C.TupleOf(C.Real(), C.Real(), C.Real()), p))
        eng.input_syms.append(("base", C.TupleOf(C.Real(), C.Real(), C.Real()), b))
        eng.input_syms.append(("heading", C.Real(), h))
        env.vars.update(point=p, base=b, heading=h)

    def post(I, env, outcome):
        eng = I.eng
        oname = "geometry.viewAngleToPoint"
        if outcome[0] != "return":
            return
        r, p, b, h = outcome[1], env.vars["point"], env.vars["base"], env.vars["heading"]
        ok = isinstance(r, (int, float, SV))
        eng.check(f"{oname}#ensures.returns_a_number", ok)
        if not ok:
            return
        eng.check(f"{oname}#ensures.in_range_minus_pi_to_pi_for_every_heading", sv_and(compare("<=", -math.pi, r), compare("<=", r, math.pi)))
        az = SV(ATAN2(toz3(arith("-", p[1], b[1]), want_real=True), toz3(arith("-", p[0], b[0]), want_real=True)), True)
        rel = arith("-", arith("-", az, math.pi / 2.0), h)  # azimuth of (point - base) in Scenic's convention, relative to the heading
        eng.check(f"{oname}#ensures.is_the_azimuth_of_the_point_minus_the_heading_modulo_a_full_turn", is_turns(arith("-", r, rel)))

    def replay(inputs, clause):
        from scenic.core.geometry import viewAngleToPoint

        h0 = float(inputs.get("heading", 0.0))
        for h in (h0, 2.5 * math.pi, -3 * math.pi, 12.0, 0.3):
            for p in ((0.0, 1.0, 0.0), (1.0, 0.2, 0.0), (-1.0, -0.5, 0.0), (0.3, -2.0, 0.0)):
                r = viewAngleToPoint(p, (0.0, 0.0, 0.0), h)
                want = math.atan2(p[1], p[0]) - math.pi / 2 - h
                k = (r - want) / math.tau
                if not (-math.pi - 1e-9 <= r <= math.pi + 1e-9) or abs(k - round(k)) > 1e-6:
                    return f"viewAngleToPoint({p}, (0, 0, 0), heading={h}) = {r}: not the relative azimuth {want} brought into [-pi, pi]"
        return None

    reg.add(C.Contract(f"{GEO}:viewAngleToPoint", params=dict(point=C.Const(None), base=C.Const(None), heading=C.Const(None)), setup=setup, post=post, replay=replay, properties=("C16",)))


# ===================================================================================================
# PolygonalFootprintRegion.approxBoundFootprint: soundness of the cached bounded footprint for every history


def register_bounded_footprint(reg):
    def bound_footprint(I, self, centerZ, height):
        """boundFootprint(c, h): the prism over the polygon between c - h/2 and c + h/2 (trimesh extrusion, trusted)."""
        r = PObj(RC("MeshVolumeRegion"), tag="bounded-footprint")
        init_samplable(r)
        half = arith("/", height, 2)
        r.fields.update(_slab=(arith("-", centerZ, half), arith("+", centerZ, half)), _of=self, orientation=None, name=None)
        log = self.fields.setdefault("_bound_calls", [])
        log.append((centerZ, height, r))
        return r

    reg.models[f"{RG}:PolygonalFootprintRegion.boundFootprint"] = bound_footprint
    reg.trust("PolygonalFootprintRegion.boundFootprint", "stub: boundFootprint(c, h) is the prism over the footprint's polygon between z = c - h/2 and z = c + h/2 (trimesh triangulation / extrusion not modelled; the replay checks the real mesh bounds)")

    def setup(I, env):
        eng = I.eng
        A = mk_footprint(I, "self")
        cz, h = eng.fresh_real("centerZ"), eng.fresh_real("height")
        eng.assume(compare(">", h, 0))
        eng.input_syms.append(("centerZ", C.Real(), cz))
        eng.input_syms.append(("height", C.Real(), h))
        hist = eng.choose(2, "history: first use / an earlier request is cached")
        if hist == 1:
            # ANY earlier history leaves the cache in a state satisfying the cache invariant (re-established below):
            # the cached region is the prism between prev_centerZ -+ prev_height/2
            pc, ph = eng.fresh_real("cached.centerZ"), eng.fresh_real("cached.height")
            eng.assume(compare(">", ph, 0))
            eng.input_syms.append(("cached.centerZ", C.Real(), pc))
            eng.input_syms.append(("cached.height", C.Real(), ph))
            prev = PObj(RC("MeshVolumeRegion"), tag="cached-bounded-footprint")
            init_samplable(prev)
            prev.fields.update(_slab=(arith("-", pc, arith("/", ph, 2)), arith("+", pc, arith("/", ph, 2))), _of=A, orientation=None, name=None)
            A.fields["_bounded_cache"] = (pc, ph, prev)
        else:
            A.fields["_bounded_cache"] = None
        env.vars.update(self=A, centerZ=cz, height=h)

    def post(I, env, outcome):
        eng = I.eng
        oname = "regions.PolygonalFootprintRegion.approxBoundFootprint"
        if outcome[0] != "return":
            return
        A, cz, h, res = env.vars["self"], env.vars["centerZ"], env.vars["height"], outcome[1]
        ok = isinstance(res, PObj) and "_slab" in res.fields and res.fields.get("_of") is A
        eng.check(f"{oname}#ensures.returns_a_bounded_footprint_of_this_region", ok)
        if ok:
            lo, hi = res.fields["_slab"]
            half = arith("/", h, 2)
            eng.check(f"{oname}#ensures.result_covers_the_requested_slab_whatever_was_cached_before", sv_and(compare("<=", lo, arith("-", cz, half)), compare("<=", arith("+", cz, half), hi)))
        # cache invariant re-established (so the obligation above holds after every history of requests)
        cache = A.fields.get("_bounded_cache")
        okc = isinstance(cache, tuple) and len(cache) == 3 and isinstance(cache[2], PObj) and "_slab" in cache[2].fields
        eng.check(f"{oname}#cache.holds_a_centre_a_height_and_a_region", okc)
        if okc:
            c0, h0, r0 = cache
            lo0, hi0 = r0.fields["_slab"]
            eng.check(f"{oname}#cache.cached_region_is_the_prism_of_the_cached_centre_and_height", sv_and(compare(">", h0, 0), compare("==", lo0, arith("-", c0, arith("/", h0, 2))), compare("==", hi0, arith("+", c0, arith("/", h0, 2))), r0.fields.get("_of") is A))

    def replay(inputs, clause):
        R, Vector = _real_regions()
        F = R.PolygonalRegion([(0, 0), (4, 0), (4, 4), (0, 4)]).footprint
        cz, h = float(inputs["centerZ"]), float(inputs["height"])
        hist = []
        if "cached.centerZ" in inputs:
            pc, ph = float(inputs["cached.centerZ"]), float(inputs["cached.height"])
            h0 = ph / (100 * max(1, pc))  # the earlier request that leaves (pc, ph) in the cache
            F.approxBoundFootprint(pc, h0)
            hist.append((pc, h0))
        res = F.approxBoundFootprint(cz, h)
        zlo, zhi = float(res.mesh.bounds[0][2]), float(res.mesh.bounds[1][2])
        if zlo > cz - h / 2 + 1e-9 or zhi < cz + h / 2 - 1e-9:
            return f"footprint.approxBoundFootprint({cz}, {h}) after earlier requests {hist} returned a prism spanning z in [{zlo}, {zhi}], which does not cover the requested slab [{cz - h / 2}, {cz + h / 2}]"
        if clause.startswith("cache."):
            # the cache invariant, observed on the real object, and its consequence for the next request
            c0, h0, r0 = F._bounded_cache
            clo, chi = float(r0.mesh.bounds[0][2]), float(r0.mesh.bounds[1][2])
            if abs(clo - (c0 - h0 / 2)) > 1e-6 * max(1, abs(h0)) or abs(chi - (c0 + h0 / 2)) > 1e-6 * max(1, abs(h0)):
                nz = c0 + h0 / 4  # a later request inside the recorded range
                res2 = F.approxBoundFootprint(nz, h)
                z2lo, z2hi = float(res2.mesh.bounds[0][2]), float(res2.mesh.bounds[1][2])
                tail = ""
                if z2lo > nz - h / 2 + 1e-9 or z2hi < nz + h / 2 - 1e-9:
                    tail = f"; the next request approxBoundFootprint({nz}, {h}) is served a prism spanning z in [{z2lo}, {z2hi}], which does not cover [{nz - h / 2}, {nz + h / 2}]"
                return f"after footprint.approxBoundFootprint({cz}, {h}) (earlier requests {hist}) the cache records centre {c0} and height {h0} but the cached prism spans z in [{clo}, {chi}]" + tail
        return None

    reg.add(
        C.Contract(
            f"{RG}:PolygonalFootprintRegion.approxBoundFootprint",
            params=dict(self=C.Const(None), centerZ=C.Const(None), height=C.Const(None)),
            setup=setup,
            post=post,
            inline_all=True,
            replay=replay,
            note="history = arbitrary cache state satisfying the cache invariant, which every call re-establishes (induction over the sequence of requests)",
            properties=("C16",),
        )
    )


# ===================================================================================================
# Extension: PolygonalRegion.unionAll, PolylineRegion.unionAll / __add__ (n-ary unions)
#
# Oracle (property statement): a point clear of the operands' boundaries belongs to the union exactly when it belongs to
# one of the operands, all three coordinates taken into account (planar regions keep their height); an operand list the
# library does not accept is refused with an exception instead of being given a wrong set.

UNIONALL_KINDS = ["polygonal", "nowhere", "footprint", "polyline"]


def register_union_all(reg):
    def mk_operand(I, kind, tag):
        if kind == "nowhere":
            return mk_special(I, "EmptyRegion")
        return mk_other(I, kind, [], tag=tag)

    # ---------------------------------------------------------------- PolygonalRegion.unionAll
    def setup_pu(I, env):
        eng = I.eng
        n = 1 + eng.choose(2, "one or two further operands")
        kinds = ["polygonal"] + [UNIONALL_KINDS[eng.choose(len(UNIONALL_KINDS), f"class of operand {i}")] for i in range(1, n + 1)]
        order = eng.choose(2, "polygonal operand first / last")
        ops = [mk_operand(I, k, f"r{i}") for i, k in enumerate(kinds)]
        if order == 1:
            ops, kinds = ops[::-1], kinds[::-1]
        eng.input_syms.append(("kinds", C.Const(None), list(kinds)))
        p = probe(I)
        eng.assume(clear_of_boundaries(I, p, *ops))
        for o, k in zip(ops, kinds):
            if k == "polyline":  # adding a 1-dimensional set to a 2-dimensional one: every point of the line is a boundary point
                eng.assume(sv_not(MS.gmem(o.fields["lineString"], p[0], p[1])))
        env.vars.update(regions=PList(ops), buf=0, _ops=ops, _kinds=kinds, _p=p)

    def post_pu(I, env, outcome):
        eng = I.eng
        oname = "regions.PolygonalRegion.unionAll"
        ops, kinds, p = env.vars["_ops"], env.vars["_kinds"], env.vars["_p"]
        tag = "[" + "+".join(sorted(set(kinds))) + "]"
        if outcome[0] != "return":
            return
        res = outcome[1]
        ok = isinstance(res, PObj)
        eng.check(f"{oname}#ensures.returns_a_region", ok)
        if not ok:
            return
        want = sv_or(*[mem3(I, o, p) for o in ops])
        eng.check(f"{oname}#ensures.set_semantics{tag}", iff(mem3(I, res, p), want))
        zs = [o.fields["z"] for o, k in zip(ops, kinds) if k == "polygonal"]
        if is_a(I, res, "PolygonalRegion") and zs:
            eng.check(f"{oname}#ensures.result_keeps_the_common_height_z", sv_and(*[compare("==", res.fields["z"], z) for z in zs]))

    def replay_pu(inputs, clause):
        R, Vector = _real_regions()
        try:
            kinds = list(_lit_list(inputs.get("kinds")))
        except Exception:
            kinds = ["polygonal", "polygonal"]
        za = float(inputs.get("r0.z", inputs.get("r1.z", inputs.get("r2.z", 2.0))))
        sq_ = lambda x0, y0, x1, y1: [(x0, y0), (x1, y0), (x1, y1), (x0, y1)]
        shapes = [sq_(0, 0, 4, 4), sq_(2, 2, 6, 6), sq_(5, 0, 7, 1)]
        for z0, step in ((za, 0.0), (2.0, 0.0), (za, 1.5)):  # common height / different heights (refused, or a correct union)
            ops = []
            for i, k in enumerate(kinds):
                if k == "polygonal":
                    ops.append(R.PolygonalRegion(shapes[i % 3], z=z0 + i * step))
                elif k == "footprint":
                    ops.append(R.PolygonalRegion(shapes[i % 3]).footprint)
                elif k == "polyline":
                    ops.append(R.PolylineRegion([(-1, 3), (8, 3)]))
                else:
                    ops.append(R.nowhere)
            try:
                res = R.PolygonalRegion.unionAll(ops)
            except (TypeError, ValueError):
                continue
            desc = ", ".join(f"{type(o).__name__}" + (f"(z={o.z})" if isinstance(o, R.PolygonalRegion) else "") for o in ops)
            for x, y in ((1, 1), (3, 3.5), (5, 5), (6, 0.5), (9, 9), (3, 1), (5.5, 2.5)):
                for z in sorted({z0, 0.0, z0 + 1.5, z0 + 3.0}):
                    pt = Vector(x, y, z)
                    want = any(_member(R, o, pt) for o in ops)
                    got = _member(R, res, pt)
                    if got != want:
                        return f"PolygonalRegion.unionAll([{desc}]) = {res!r}: point {tuple(pt)} is in {[type(o).__name__ for o in ops if _member(R, o, pt)] or 'no operand'} but {'in' if got else 'not in'} the union"
        return None

    reg.add(
        C.Contract(
            f"{RG}:PolygonalRegion.unionAll",
            params=dict(regions=C.Const(None), buf=C.Const(0)),
            setup=setup_pu,
            post=post_pu,
            raises=[C.Raises("TypeError", mode="may"), C.Raises("ValueError", mode="may")],
            inline_all=True,
            replay=replay_pu,
            bounded=True,
            note="bounded: 2..3 operands (a PolygonalRegion plus polygonal / nowhere / footprint / polyline operands, polygonal operand first or last), buf = 0",
            properties=("C16",),
        )
    )

    # ---------------------------------------------------------------- PolylineRegion.unionAll / __add__
    def setup_lu(method):
        def setup(I, env):
            eng = I.eng
            if method == "__add__":
                kinds = ["polyline", ["polyline", "polygonal"][eng.choose(2, "class of other")]]
            else:
                n = eng.choose(3, "number of operands: 0 / 1 / 2")
                kinds = ["polyline"] * n
                if n == 2 and eng.choose(2, "second operand: polyline / polygonal") == 1:
                    kinds[1] = "polygonal"
            ops = []
            for i, k in enumerate(kinds):
                o = mk_other(I, k, [], tag=f"r{i}")
                if k == "polyline" and eng.choose(2, f"r{i}: LineString / MultiLineString") == 1:
                    o.fields["lineString"].fields["_kind"] = "MultiLineString"
                    o.fields["lineString"].fields["geoms"] = PList([o.fields["lineString"]])
                ops.append(o)
            eng.input_syms.append(("kinds", C.Const(None), list(kinds)))
            p = probe(I)
            if method == "__add__":
                env.vars.update(self=ops[0], other=ops[1])
            else:
                env.vars.update(regions=PList(ops))
            env.vars.update(_ops=ops, _kinds=kinds, _p=p)

        return setup

    def post_lu(method):
        oname = f"regions.PolylineRegion.{method}"

        def post(I, env, outcome):
            eng = I.eng
            ops, kinds, p = env.vars["_ops"], env.vars["_kinds"], env.vars["_p"]
            if outcome[0] == "raise":
                eng.check(f"{oname}#raises.only_for_operands_that_are_not_polylines", any(k != "polyline" for k in kinds))
                return
            res = outcome[1]
            if res is NotImplemented:
                eng.check(f"{oname}#ensures.NotImplemented_only_for_operands_that_are_not_polylines", any(k != "polyline" for k in kinds))
                return
            ok = isinstance(res, PObj)
            eng.check(f"{oname}#ensures.returns_a_region", ok)
            if ok:
                eng.check(f"{oname}#ensures.accepts_only_polylines", all(k == "polyline" for k in kinds))
                eng.check(f"{oname}#ensures.set_semantics", iff(mem3(I, res, p), sv_or(*[mem3(I, o, p) for o in ops])))

        return post

    def replay_lu(method):
        def replay(inputs, clause):
            R, Vector = _real_regions()
            A, B = R.PolylineRegion([(0, 0), (2, 0), (2, 2)]), R.PolylineRegion([(5, 5), (5, 7)])
            M = A + B
            C_ = R.PolylineRegion([(-3, 0), (-1, 0)])
            cases = [("A + B", [A, B]), ("(A + B) + C", [M, C_]), ("C + (A + B)", [C_, M]), ("single", [A])]
            if method == "unionAll":
                try:
                    res = R.PolylineRegion.unionAll([A, R.PolygonalRegion([(0, 0), (1, 0), (1, 1)])])  # refused with TypeError, or a correct union
                    return f"PolylineRegion.unionAll([polyline, PolygonalRegion]) returned {res!r} instead of refusing the operand"
                except TypeError:
                    pass
            for name, ops in cases:
                if method == "__add__":
                    if len(ops) != 2:
                        continue
                    res = ops[0] + ops[1]
                else:
                    res = R.PolylineRegion.unionAll(ops)
                for x, y in ((1, 0), (2, 1), (5, 6), (-2, 0), (3, 3), (0, 1), (5, 8)):
                    for z in (0.0, 1.0):
                        pt = Vector(x, y, z)
                        want = any(o.containsPoint(pt) for o in ops)
                        if bool(res.containsPoint(pt)) != want:
                            return f"PolylineRegion.{method} ({name}): point {tuple(pt)} {'is' if want else 'is not'} on an operand but containsPoint of the union says {not want}"
            if method == "unionAll" and R.PolylineRegion.unionAll([]) is not R.nowhere:
                return "PolylineRegion.unionAll([]) is not `nowhere`"
            return None

        return replay

    reg.add(C.Contract(f"{RG}:PolylineRegion.unionAll", params=dict(regions=C.Const(None)), setup=setup_lu("unionAll"), post=post_lu("unionAll"), raises=[C.Raises("TypeError", mode="may")], inline_all=True, replay=replay_lu("unionAll"), bounded=True, note="bounded: 0..2 operands (LineString / MultiLineString polylines, or a non-polyline second operand)", properties=("C16",)))
    reg.add(C.Contract(f"{RG}:PolylineRegion.__add__", params=dict(self=C.Const(None), other=C.Const(None)), setup=setup_lu("__add__"), post=post_lu("__add__"), inline_all=True, replay=replay_lu("__add__"), properties=("C16",)))


def _lit_list(v):
    import ast

    return ast.literal_eval(v) if isinstance(v, str) else v
