"""C19 (compiler side): `do choose` / `do shuffle` always go through the run-time scheduler
(`_invokeSubBehavior(self, (items…), schedule="choose"|"shuffle")`), whatever the number and form of the
listed items -- a single item still has preconditions to check and the simulation must be rejected if it is
not eligible."""
import ast

from pyvc import contracts as C
from pyvc.interp import BuiltinFn
from pyvc.values import PList, PObj

M = "scenic.syntax.compiler"


def _as_list(x):
    if isinstance(x, PList):
        return list(x.items)
    return list(x)


def register(reg):
    def setup(I, env):
        eng = I.eng
        n = 1 + eng.choose(3, "number of listed items")
        dict_form = eng.choose(2, "dict form?") == 1
        if dict_form:
            elts = [ast.Dict(keys=[ast.Name(id=f"b{k}", ctx=ast.Load()) for k in range(n)], values=[ast.Constant(value=k + 1) for k in range(n)])]
        else:
            elts = [ast.Name(id=f"b{k}", ctx=ast.Load()) for k in range(n)]
        node = ast.stmt()  # stands for the s.DoChoose / s.DoShuffle statement node (same attributes)
        node.elts = elts
        node.lineno, node.col_offset, node.end_lineno, node.end_col_offset = 7, 0, 7, 10
        self = env.vars["self"]
        self.fields["visit"] = BuiltinFn("visit", lambda e: e)
        env.vars.update(node=node, _elts=elts)

    def post(kind):
        def check(I, env, outcome):
            eng = I.eng
            name = f"compiler.ScenicToPythonTransformer.visit_Do{kind.capitalize()}"
            if outcome[0] != "return":
                return
            stmts = _as_list(outcome[1])
            ok = len(stmts) == 2 and isinstance(stmts[0], ast.Expr) and isinstance(stmts[0].value, ast.YieldFrom) and isinstance(stmts[0].value.value, ast.Call)
            eng.check(f"{name}#ensures.yields_from_one_scheduler_call_then_checks_invariants", ok)
            if not ok:
                return
            call = stmts[0].value.value
            fn = call.func
            eng.check(f"{name}#ensures.calls_invokeSubBehavior", isinstance(fn, ast.Attribute) and fn.attr == "_invokeSubBehavior")
            kws = _as_list(call.keywords)
            eng.check(f"{name}#ensures.schedule_keyword_is_{kind}", len(kws) == 1 and kws[0].arg == "schedule" and isinstance(kws[0].value, ast.Constant) and kws[0].value.value == kind)
            args = _as_list(call.args)
            ok2 = len(args) == 2 and isinstance(args[1], ast.Tuple)
            eng.check(f"{name}#ensures.all_listed_items_passed_in_order", ok2 and [id(x) for x in _as_list(args[1].elts)] == [id(x) for x in env.vars["_elts"]])

        return check

    for kind in ("choose", "shuffle"):
        reg.add(
            C.Contract(
                f"{M}:ScenicToPythonTransformer.visit_Do{kind.capitalize()}",
                params=dict(self=C.Obj(f"{M}:ScenicToPythonTransformer"), node=C.Const(None)),
                setup=setup,
                post=post(kind),
                inline=["ScenicToPythonTransformer.makeDoLike", "ScenicToPythonTransformer.generateInvocation"],
                bounded=True,
                note="bounded: 1 to 3 listed items, list and dict form",
                properties=("C19",),
            )
        )
