"""C19 (compiler side): `do choose` / `do shuffle` always go through the run-time scheduler
(`_invokeSubBehavior(self, (items…), schedule="choose"|"shuffle")`), whatever the number and form of the
listed items -- a single item still has preconditions to check and the simulation must be rejected if it is
not eligible."""
import ast

from pyvc import contracts as C
from pyvc.interp import BuiltinFn
from pyvc.values import PList, PObj

M = "scenic.syntax.compiler"


def _as_list(x):
    if isinstance(x, PList):
        return list(x.items)
    return list(x)


def register(reg):
    def setup(I, env):
        eng = I.eng
        n = 1 + eng.choose(3, "number of listed items")
        dict_form = eng.choose(2, "dict form?") == 1
        if dict_form:
            elts = [ast.Dict(keys=[ast.Name(id=f"b{k}", ctx=ast.Load()) for k in range(n)], values=[ast.Constant(value=k + 1) for k in range(n)])]
        else:
            elts = [ast.Name(id=f"b{k}", ctx=ast.Load()) for k in range(n)]
        node = ast.stmt()  # stands for the s.DoChoose / s.DoShuffle statement node (same attributes)
        node.elts = elts
        node.lineno, node.col_offset, node.end_lineno, node.end_col_offset = 7, 0, 7, 10
        self = env.vars["self"]
        self.fields["visit"] = BuiltinFn("visit", lambda e: e)
        env.vars.update(node=node, _elts=elts)

    def post(kind):
        def check(I, env, outcome):
            eng = I.eng
            name = f"compiler.ScenicToPythonTransformer.visit_Do{kind.capitalize()}"
            if outcome[0] != "return":
                return
            stmts = _as_list(outcome[1])
            ok = len(stmts) == 2 and isinstance(stmts[0], ast.Expr) and isinstance(stmts[0].value, ast.YieldFrom) and isinstance(stmts[0].value.value, ast.Call)
            eng.check(f"{name}#ensures.yields_from_one_scheduler_call_then_checks_invariants", ok)
            if not ok:
                return
            call = stmts[0].value.value
            fn = call.func
            eng.check(f"{name}#ensures.calls_invokeSubBehavior", isinstance(fn, ast.Attribute) and fn.attr == "_invokeSubBehavior")
            kws = _as_list(call.keywords)
            eng.check(f"{name}#ensures.schedule_keyword_is_{kind}", len(kws) == 1 and kws[0].arg == "schedule" and isinstance(kws[0].value, ast.Constant) and kws[0].value.value == kind)
            args = _as_list(call.args)
            ok2 = len(args) == 2 and isinstance(args[1], ast.Tuple)
            eng.check(f"{name}#ensures.all_listed_items_passed_in_order", ok2 and [id(x) for x in _as_list(args[1].elts)] == [id(x) for x in env.vars["_elts"]])

        return check

    def replay(kind):
        def run(inputs, clause):
            """Compiles `do choose|shuffle …` with 1..3 items in list and dict form with the real front end and inspects
            the produced call; then runs a single ineligible candidate on the real simulator (it must be a rejected
            simulation, as for any other number of candidates)."""
            from scenic.syntax.compiler import compileScenicAST
            from scenic.syntax.parser import parse_string

            for n in (1, 2, 3):
                for dict_form in (False, True):
                    items = "{" + ", ".join(f"b{k}(): {k + 1}" for k in range(n)) + "}" if dict_form else ", ".join(f"b{k}()" for k in range(n))
                    src = f"behavior Main():\n    do {kind} {items}\n"
                    tree, _ = compileScenicAST(parse_string(src, "exec"))
                    calls = [c for c in ast.walk(tree) if isinstance(c, ast.Call) and isinstance(c.func, ast.Attribute) and c.func.attr == "_invokeSubBehavior"]
                    if len(calls) != 1:
                        return f"`do {kind} {items}` compiles to {len(calls)} scheduler calls"
                    kws = {k.arg: getattr(k.value, "value", None) for k in calls[0].keywords}
                    if kws.get("schedule") != kind:
                        return f"`do {kind} {items}` compiles to _invokeSubBehavior(...) with keywords {kws}: the run-time scheduler for `{kind}` is bypassed"
                    got = len(calls[0].args[1].elts) if len(calls[0].args) == 2 and isinstance(calls[0].args[1], ast.Tuple) else None
                    if got != (1 if dict_form else n):
                        return f"`do {kind} {items}` passes {got} items to the scheduler"
            import scenic
            from scenic.core.simulators import DummySimulator

            prog = (
                "behavior Never():\n    precondition: False\n    wait\n"
                f"behavior Main():\n    do {kind} Never()\n"
                "ego = new Object with behavior Main\n"
            )
            scenario = scenic.scenarioFromString(prog, mode2D=True)
            scene, _ = scenario.generate(maxIterations=10)
            try:
                sim = DummySimulator().simulate(scene, maxSteps=2, maxIterations=1, raiseGuardViolations=True)
            except Exception as e:
                return f"`do {kind} Never()` with an ineligible single candidate: {type(e).__name__} escaped instead of the simulation being rejected ({e})"
            if sim is not None:
                return f"`do {kind} Never()` with an ineligible single candidate ran a simulation instead of rejecting it"
            return None

        return run

    for kind in ("choose", "shuffle"):
        reg.add(
            C.Contract(
                f"{M}:ScenicToPythonTransformer.visit_Do{kind.capitalize()}",
                params=dict(self=C.Obj(f"{M}:ScenicToPythonTransformer"), node=C.Const(None)),
                setup=setup,
                post=post(kind),
                replay=replay(kind),
                inline=["ScenicToPythonTransformer.makeDoLike", "ScenicToPythonTransformer.generateInvocation"],
                bounded=True,
                note="bounded: 1 to 3 listed items, list and dict form",
                properties=("C19",),
            )
        )
