"""Sidecar contracts for the sampling machinery behind C01: once-per-scene memoisation (Samplable.sampleAll / sample),
dependency book-keeping (Samplable.__init__ / Distribution.__init__), the rejection loop (Scenario._generateInner),
the continuous sampling sites as RNG-trace contracts (Range, Normal), Uniform / UniformDistribution, `clone()` of the
primitives and veneer.resample.

Together with the discrete sites in contracts/distributions.py these are the clauses (a)-(d) of the decomposition in
DESIGN.md section 5 / C01; the step from them to "conditional distribution" is the rejection-sampling lemma (appendix
of DESIGN.md), an assumption listed in props_C01.py."""
import z3

from pyvc import contracts as C
from pyvc import builtins_model as bm
from pyvc.builtins_model import IdToken
from pyvc.interp import BuiltinFn, SymRaise
from pyvc.values import PDict, PExc, PList, PObj, SV, compare, is_scalar, sv_and, sv_ite, sv_not, tobool

from .common import repo_class
from .distributions import identity_map
from .lifting import exc_name, preload_real_package, record_ctor

D = "scenic.core.distributions"
S = "scenic.core.scenarios"
L = "scenic.core.lazy_eval"
V = "scenic.syntax.veneer"

DICT_INLINE = ["DefaultIdentityDict.__init__", "DefaultIdentityDict.__getitem__", "DefaultIdentityDict.__setitem__", "DefaultIdentityDict.__contains__"]


def register(reg):
    preload_real_package()
    register_memoisation(reg)
    register_init(reg)
    register_generate_inner(reg)
    register_sites(reg)
    register_clone(reg)
    register_requirement_closure(reg)


# ------------------------------------------------------------------------------------------------
# (1) Samplable.sampleAll / Samplable.sample: every node drawn at most once per scene, dependencies first


class Dag:
    """A small concrete expression DAG of Samplable nodes whose sampleGiven is a logged abstract draw (ghost counter)."""

    def __init__(self, I):
        self.I = I
        self.cls = repo_class(f"{D}:Samplable")
        self.calls = []  # (sampler object, {dep: value seen in the map or MISSING})
        self.value_of = {}
        self.rejecting = None

    MISSING = object()

    def node(self, tag, deps=(), needs=True):
        o = PObj(self.cls, tag=tag)
        o.fields.update(_dependencies=tuple(deps), _needsSampling=needs, _isLazy=needs, _needsLazyEval=False, _requiredProperties=())
        o.fields["_conditioned"] = o
        val = PObj("SampledValue", tag=f"v({tag})")
        self.value_of[id(o)] = val

        def sample_given(value_map, o=o, val=val):
            seen = {}
            st = value_map.fields["storage"]
            for d in o.fields["_dependencies"]:
                seen[id(d)] = st.get(IdToken(d), Dag.MISSING)
            self.calls.append((o, seen))
            return val

        o.fields["sampleGiven"] = BuiltinFn("sampleGiven", sample_given)
        return o

    def count(self, o):
        return len([1 for n, _ in self.calls if n is o])

    def sampler_of(self, n):
        return n.fields["_conditioned"]

    def reachable(self, roots):
        out, stack = [], [r for r in roots if r.fields.get("_needsSampling")]
        while stack:
            n = stack.pop()
            if any(n is x for x in out):
                continue
            out.append(n)
            stack.extend(self.sampler_of(n).fields["_dependencies"])
        return out


def build_dag(I, env):
    """4 nodes n0..n3 with an arbitrary acyclic dependency relation (edge i -> j only for j < i: 64 shapes), optionally
    n2 conditioned to a proxy with its own dependencies, a constant, and three orders of the requested quantities."""
    eng = I.eng
    dag = Dag(I)
    nodes = []
    shape = []
    for i in range(4):
        deps = []
        for j in range(i):
            if eng.choose(2, f"n{i} depends on n{j}?") == 1:
                deps.append(nodes[j])
                shape.append(f"n{i}->n{j}")
        nodes.append(dag.node(f"n{i}", deps))
    proxied = eng.choose(2, "n2 conditioned to a proxy?") == 1
    if proxied:
        proxy = dag.node("proxy(n2)", [nodes[1]])
        nodes[2].fields["_conditioned"] = proxy
        dag.proxy = proxy
    const = PObj("Constant", tag="constant")
    const.fields["_needsSampling"] = False
    order = eng.choose(3, "order of the quantities")
    qs = [(nodes[3], nodes[2], nodes[1], nodes[0], const), (nodes[0], const, nodes[1], nodes[2], nodes[3]), (nodes[3], nodes[1], nodes[3], const, nodes[2])][order]
    eng.input_syms.append(("edges", C.Const(None), ",".join(shape)))
    eng.input_syms.append(("proxied", C.Const(None), proxied))
    eng.input_syms.append(("order", C.Const(None), order))
    return dag, nodes, const, qs


def check_once_and_ordered(eng, name, dag, roots):
    every = dag.reachable(roots)
    samplers = [dag.sampler_of(n) for n in every]
    eng.check(f"{name}#ensures.every_node_drawn_at_most_once_per_scene", all(dag.count(o) <= 1 for o, _ in dag.calls))
    eng.check(f"{name}#ensures.every_needed_node_drawn_exactly_once", all(dag.count(s) == 1 for s in samplers))
    eng.check(f"{name}#ensures.nothing_else_is_drawn", all(any(o is s for s in samplers) for o, _ in dag.calls))
    ok = True
    for o, seen in dag.calls:
        for d in o.fields["_dependencies"]:
            want = dag.value_of[id(dag.sampler_of(d))] if d.fields.get("_needsSampling") else d
            if seen.get(id(d)) is not want:
                ok = False
    eng.check(f"{name}#ensures.dependencies_are_drawn_before_their_dependents_and_passed_on", ok)


def register_memoisation(reg):
    def setup_all(I, env):
        dag, nodes, const, qs = build_dag(I, env)
        env.vars["quantities"] = qs
        env.vars.update(_dag=dag, _nodes=nodes, _const=const, _qs=qs)

    def post_all(I, env, outcome):
        eng = I.eng
        name = "distributions.Samplable.sampleAll"
        if outcome[0] != "return":
            return
        dag, qs, const = env.vars["_dag"], env.vars["_qs"], env.vars["_const"]
        check_once_and_ordered(eng, name, dag, [q for q in qs])
        res = outcome[1]
        ok = isinstance(res, PObj) and "storage" in res.fields
        eng.check(f"{name}#ensures.returns_the_sample_map", ok)
        if not ok:
            return
        st = res.fields["storage"]
        good = True
        for q in qs:
            want = dag.value_of[id(dag.sampler_of(q))] if q.fields.get("_needsSampling") else q
            if st.get(IdToken(q), q) is not want:
                good = False
        eng.check(f"{name}#ensures.every_quantity_maps_to_its_single_draw_and_constants_to_themselves", good)
        inner = all(st.get(IdToken(n)) is dag.value_of[id(dag.sampler_of(n))] for n in dag.reachable(list(qs)))
        eng.check(f"{name}#ensures.shared_dependencies_are_in_the_map_with_the_same_single_draw", inner)

    reg.add(
        C.Contract(
            f"{D}:Samplable.sampleAll",
            params=dict(quantities=C.Const(None)),
            setup=setup_all,
            post=post_all,
            inline=["Samplable.sample"] + DICT_INLINE,
            replay=replay_sample_all,
            bounded=True,
            note="bounded: DAGs of 4 random nodes (all 64 acyclic dependency relations), an optional conditioned proxy, one constant, three request orders incl. a repeated quantity; ghost counter: sampleGiven calls per node <= 1",
            properties=("C01",),
        ),
        key=f"{D}:Samplable.sampleAll[memoisation]",
    )

    # ---- Samplable.sample on a partially filled map
    def setup_one(I, env):
        eng = I.eng
        dag = Dag(I)
        n0 = dag.node("n0")
        n1 = dag.node("n1", [n0])
        n2 = dag.node("n2", [n1, n0])
        form = eng.choose(4, "already sampled values")
        given = {}
        if form == 0:
            env.vars["subsamples"] = None
        else:
            pre = [[], [n0], [n1, n0]][form - 1]
            for n in pre:
                given[id(n)] = PObj("SampledValue", tag=f"given({n.tag})")
            env.vars["subsamples"] = identity_map(I, [(n, given[id(n)]) for n in pre])
        env.vars.update(self=n2, _dag=dag, _n=(n0, n1, n2), _given=given, _form=form)
        eng.input_syms.append(("form", C.Const(None), form))

    def post_one(I, env, outcome):
        eng = I.eng
        name = "distributions.Samplable.sample"
        if outcome[0] != "return":
            return
        dag, (n0, n1, n2), given = env.vars["_dag"], env.vars["_n"], env.vars["_given"]
        eng.check(f"{name}#ensures.result_is_this_node's_draw", outcome[1] is dag.value_of[id(n2)] and dag.count(n2) == 1)
        eng.check(f"{name}#ensures.values_already_in_the_map_are_not_drawn_again", all(dag.count(n) == (0 if id(n) in given else 1) for n in (n0, n1)) or (id(n1) in given and dag.count(n0) == 0 and dag.count(n1) == 0))
        ok = True
        for o, seen in dag.calls:
            for d in o.fields["_dependencies"]:
                want = given.get(id(d), dag.value_of[id(d)])
                if seen.get(id(d)) is not want:
                    ok = False
        eng.check(f"{name}#ensures.dependencies_available_with_their_single_value", ok)
        eng.check(f"{name}#ensures.at_most_once", all(dag.count(n) <= 1 for n in (n0, n1, n2)))

    reg.add(
        C.Contract(
            f"{D}:Samplable.sample",
            params=dict(self=C.Const(None), subsamples=C.Const(None)),
            setup=setup_one,
            post=post_one,
            inline=["Samplable.sample"] + DICT_INLINE,
            replay=replay_sample_one,
            bounded=True,
            note="bounded: chain n2 -> (n1, n0), n1 -> n0 with 4 states of the given map",
            properties=("C01",),
        ),
        key=f"{D}:Samplable.sample[memoisation]",
    )


def replay_sample_all(inputs, clause):
    """Real Samplable nodes with counting sampleGiven, same DAG as the model."""
    from scenic.core.distributions import Samplable

    counts, order_log = {}, []

    class Node(Samplable):
        def __init__(self, tag, deps):
            super().__init__(deps)
            self.tag = tag
            self._needsSampling = self._isLazy = True

        def sampleGiven(self, value):
            counts[self.tag] = counts.get(self.tag, 0) + 1
            for d in self._dependencies:
                if d not in value:
                    order_log.append(f"{self.tag} drawn before its dependency {d.tag}")
            return ("v", self.tag)

    edges = [e for e in str(inputs.get("edges", "")).split(",") if e]
    nodes = []
    for i in range(4):
        deps = [nodes[int(e.split("->n")[1])] for e in edges if e.startswith(f"n{i}->")]
        nodes.append(Node(f"n{i}", deps))
    if inputs.get("proxied"):
        nodes[2].conditionTo(Node("proxy(n2)", [nodes[1]]))
    const = 17
    order = int(inputs.get("order", 0))
    qs = [(nodes[3], nodes[2], nodes[1], nodes[0], const), (nodes[0], const, nodes[1], nodes[2], nodes[3]), (nodes[3], nodes[1], nodes[3], const, nodes[2])][order]
    res = Samplable.sampleAll(qs)
    over = {t: c for t, c in counts.items() if c > 1}
    if over:
        return f"nodes drawn more than once in one scene: {over} (edges {edges}, order {order})"
    if order_log:
        return "; ".join(order_log)
    for q in qs:
        if isinstance(q, Node):
            want = ("v", q._conditioned.tag)
            if res[q] != want:
                return f"sample[{q.tag}] = {res[q]!r}, expected {want!r}"
    return None


# ------------------------------------------------------------------------------------------------
# (1b) Samplable.__init__ / Distribution.__init__: only lazy values are dependencies, in argument order


def register_init(reg):
    da = repo_class(f"{L}:DelayedArgument")

    def lazy(tag, props=(), sampling=True):
        o = PObj(da, tag=tag)
        o.fields.update(_isLazy=True, _needsSampling=sampling, _needsLazyEval=bool(props), _requiredProperties=tuple(props), _dependencies=())
        return o

    def make(target, short, is_dist):
        def setup(I, env):
            eng = I.eng
            cands = [lazy("A", ("p",)), 3, lazy("B", ("q", "p")), PObj("PlainObject", tag="plain"), lazy("C")]
            chosen = [c for k, c in enumerate(cands) if eng.choose(2, f"argument {k} present?") == 1]
            env.vars["dependencies"] = tuple(chosen)
            if is_dist:
                env.vars["valueType"] = None
            env.vars["_chosen"] = chosen

        def post(I, env, outcome):
            eng = I.eng
            if outcome[0] != "return":
                return
            chosen, f = env.vars["_chosen"], env.vars["self"].fields
            want = [c for c in chosen if isinstance(c, PObj) and c.fields.get("_isLazy")]
            deps = f.get("_dependencies")
            eng.check(f"{short}#ensures.dependencies_are_exactly_the_lazy_arguments_in_argument_order", isinstance(deps, tuple) and len(deps) == len(want) and all(a is b for a, b in zip(deps, want)))
            props = sorted({p for c in want for p in c.fields["_requiredProperties"]})
            eng.check(f"{short}#ensures.required_properties_are_the_union_of_the_dependencies'", list(f.get("_requiredProperties", ())) == props)
            eng.check(f"{short}#ensures.conditioned_to_itself", f.get("_conditioned") is env.vars["self"])
            if is_dist:
                eng.check(f"{short}#ensures.a_distribution_always_needs_sampling", f.get("_needsSampling") is True and f.get("_isLazy") is True)
            else:
                eng.check(f"{short}#ensures.needs_sampling_iff_it_has_dependencies", f.get("_needsSampling") is (len(want) > 0))

        params = dict(self=C.Obj(target.rsplit(".", 1)[0]), dependencies=C.Const(None))
        if is_dist:
            params["valueType"] = C.Const(None)
        reg.add(C.Contract(target, params=params, setup=setup, post=post, inline=["Samplable.__init__", "LazilyEvaluable.__init__"], replay=make_replay_init(is_dist), properties=("C01",)), key=f"{target}[dependencies]")

    make(f"{D}:Samplable.__init__", "distributions.Samplable.__init__", False)
    make(f"{D}:Distribution.__init__", "distributions.Distribution.__init__", True)


# ------------------------------------------------------------------------------------------------
# (2) Scenario._generateInner: activation of soft requirements, attempt count, rejection, RNG frame, accepted sample


class Stream:
    """An abstract generator: its state is a position; every draw advances it."""

    def __init__(self, name):
        self.name, self.pos, self.draws = name, 0, []

    def state(self):
        return ("rng-state", self.name, self.pos)

    def draw(self, I, who):
        self.pos += 1
        u = I.eng.fresh_real("u")
        I.eng.assume(sv_and(compare(">=", u, 0), compare("<", u, 1)))
        self.draws.append((who, self.pos, u))
        return u

    def setstate(self, I, st):
        if not (isinstance(st, tuple) and len(st) == 3 and st[0] == "rng-state" and st[1] == self.name):
            I.raise_("TypeError", f"state of another generator passed to {self.name}.setstate")
        self.pos = st[2]


def register_generate_inner(reg):
    NREQ = 2
    rej_cls = lambda: repo_class(f"{D}:RejectionException")

    def setup(I, env):
        eng = I.eng
        py, np_ = Stream("random"), Stream("numpy.random")
        who = ["generator"]
        log = []
        reg.extra_modules = getattr(reg, "extra_modules", None) or {}
        reg.extra_modules["random"] = bm.NativeModule(
            "random",
            {"random": BuiltinFn("random", lambda: py.draw(I, who[0])), "getstate": BuiltinFn("getstate", lambda: py.state()), "setstate": BuiltinFn("setstate", lambda s: py.setstate(I, s))},
        )
        nprand = bm.NativeModule("numpy.random", {"get_state": BuiltinFn("get_state", lambda: np_.state()), "set_state": BuiltinFn("set_state", lambda s: np_.setstate(I, s))})
        reg.extra_modules["numpy"] = bm.NativeModule("numpy", {"random": nprand})
        reg.models["scenic.core.errors:optionallyDebugRejection"] = lambda I_, *a: None

        reqs = []
        for i in range(NREQ):
            r = PObj("CompiledRequirement", tag=f"soft requirement {i}")
            p = eng.fresh_real(f"prob{i}")
            eng.assume(sv_and(compare(">=", p, 0), compare("<=", p, 1)))
            eng.input_syms.append((f"prob{i}", C.Real(), p))
            r.fields.update(prob=p, active="stale")
            reqs.append(r)
        deps = (PObj("Samplable", tag="dep0"), PObj("Samplable", tag="dep1"))
        obj = PObj("Object", tag="object 0")
        attempts = []  # per attempt: dict(sample=..., verdict=...)

        def sample_all(I_, quantities):
            k = len(attempts)
            rec = dict(k=k, quantities=quantities, before=(py.state(), np_.state()), sample=None, checked=0, verdict="sampling-rejected", active=[r.fields["active"] for r in reqs])
            attempts.append(rec)
            log.append(("sampleAll", k))
            py.draw(I, "sampling")
            if eng.choose(2, "sampling rejects?") == 1:
                raise SymRaise(PExc(rej_cls(), ("rejected while sampling",)))
            sampled = PObj("Object", tag=f"sampled object 0 (attempt {k})")
            sampled.fields["_needsSampling"] = False
            rec["sample"] = identity_map(I, [(obj, sampled)])
            rec["verdict"] = "unchecked"
            return rec["sample"]

        reg.models[f"{D}:Samplable.sampleAll"] = sample_all

        noise_py = eng.choose(2, "checker draws from random?")
        noise_np = eng.choose(2, "checker draws from numpy.random?")

        def check_requirements(sample):
            rec = attempts[-1] if attempts else None
            log.append(("check", len(attempts) - 1, sample, py.state(), np_.state()))
            if rec is not None and sample is rec["sample"]:
                rec["checked"] += 1
            who[0] = "checker"
            for _ in range(noise_py):
                py.draw(I, "checker")
            for _ in range(noise_np):
                np_.draw(I, "checker")
            who[0] = "generator"
            verdict = PObj("Requirement", tag="violated requirement") if eng.choose(2, "a requirement is violated?") == 1 else None
            if rec is not None:
                rec["verdict"] = "rejected" if verdict is not None else "accepted"
            log.append(("checked", len(attempts) - 1))
            return verdict

        checker = PObj("Checker", tag="checker")
        checker.fields["checkRequirements"] = BuiltinFn("checkRequirements", check_requirements)
        self = PObj(repo_class(f"{S}:Scenario"), tag="scenario")
        scenes = []

        def make_scene(sample):
            log.append(("makeScene", sample, py.state(), np_.state()))
            sc = PObj("Scene", tag="scene")
            sc.fields["sample"] = sample
            scenes.append(sc)
            return sc

        ext = None
        ext_calls = []
        if eng.choose(2, "external sampler?") == 1:
            ext = PObj("ExternalSampler", tag="external sampler")
            ext.fields["rejectionFeedback"] = PObj("Feedback", tag="rejection feedback")
            ext.fields["sample"] = BuiltinFn("sample", lambda fb: (ext_calls.append((fb, len(attempts))), None)[1])
        fb0 = PObj("Feedback", tag="initial feedback")
        self.fields.update(userRequirements=tuple(reqs), externalSampler=ext, dependencies=deps, objects=(obj,), checker=checker)
        self.fields["_makeSceneFromSample"] = BuiltinFn("_makeSceneFromSample", make_scene)
        maxit = eng.fresh_int("maxIterations")
        eng.assume(sv_and(compare("<=", maxit, 3), compare(">=", maxit, -1)))
        eng.input_syms.append(("maxIterations", C.Int(), maxit))
        env.vars.update(self=self, maxIterations=maxit, verbosity=2, feedback=fb0)
        env.vars.update(_py=py, _np=np_, _log=log, _reqs=reqs, _attempts=attempts, _scenes=scenes, _deps=deps, _ext=ext, _ext_calls=ext_calls, _fb0=fb0, _maxit=maxit)

    def post(I, env, outcome):
        eng = I.eng
        name = "scenarios.Scenario._generateInner"
        v = env.vars
        py, np_, log, reqs, attempts, maxit = v["_py"], v["_np"], v["_log"], v["_reqs"], v["_attempts"], v["_maxit"]
        # (d) soft requirements: one draw each, in order, before anything else; active == (u <= prob)
        gen_draws = [d for d in py.draws if d[0] == "generator"]
        eng.check(f"{name}#rng.exactly_one_activation_draw_per_soft_requirement", len(gen_draws) == len(reqs) and [d[1] for d in gen_draws] == list(range(1, len(reqs) + 1)))
        if len(gen_draws) == len(reqs):
            for i, (r, d) in enumerate(zip(reqs, gen_draws)):
                act = r.fields["active"]
                eng.check(f"{name}#ensures.soft_requirement_{i}_active_iff_its_draw_is_at_most_its_probability", isinstance(act, bool) and (tobool(compare("<=", d[2], r.fields["prob"])) == z3.BoolVal(act)))
        eng.check(f"{name}#ensures.activation_is_decided_once_before_the_first_attempt_and_kept", all(a["active"] == [r.fields["active"] for r in reqs] for a in attempts))
        # (c) attempts
        n = len(attempts)
        eng.check(f"{name}#ensures.every_attempt_samples_exactly_the_scenario's_dependencies", all(a["quantities"] is v["_deps"] for a in attempts))
        eng.check(f"{name}#ensures.each_sample_is_checked_exactly_once_and_only_its_own_attempt's", all(a["checked"] == (0 if a["sample"] is None else 1) for a in attempts) and len([e for e in log if e[0] == "check"]) == len([a for a in attempts if a["sample"] is not None]))
        eng.check(f"{name}#ensures.all_but_the_last_attempt_were_rejected", all(a["verdict"] in ("rejected", "sampling-rejected") for a in attempts[:-1]))
        if outcome[0] == "return":
            res = outcome[1]
            ok = isinstance(res, tuple) and len(res) == 2
            eng.check(f"{name}#ensures.returns_scene_and_iteration_count", ok)
            if ok:
                scene, its = res
                eng.check(f"{name}#ensures.iterations_counts_the_attempts_exactly", compare("==", its, n))
                eng.check(f"{name}#ensures.returned_scene_is_built_from_the_last_sample_and_that_sample_passed_the_checker", n >= 1 and attempts[-1]["verdict"] == "accepted" and len(v["_scenes"]) == 1 and scene is v["_scenes"][0] and scene.fields["sample"] is attempts[-1]["sample"])
                eng.check(f"{name}#raises.RejectionException.must_when_the_budget_is_exhausted", compare("<=", n, maxit))
        else:
            exc = outcome[1]
            eng.check(f"{name}#raises.only_RejectionException", exc_name(exc) == "RejectionException")
            eng.check(f"{name}#raises.RejectionException.only_when_the_attempts_reached_maxIterations", sv_and(compare(">=", n, maxit), n == 0 or compare("==", n, maxit)))
            eng.check(f"{name}#raises.RejectionException.only_after_every_attempt_was_rejected", all(a["verdict"] in ("rejected", "sampling-rejected") for a in attempts) and len(v["_scenes"]) == 0)
        # frame: both generators are back in their pre-check state before anything else happens
        for i, e in enumerate(log):
            if e[0] != "check":
                continue
            later = [x for x in log[i + 1 :] if x[0] in ("sampleAll", "makeScene")][:1]
            if later and later[0][0] == "makeScene":
                at_next = (later[0][2], later[0][3])
            elif later:
                at_next = attempts[later[0][1]]["before"]
            else:
                at_next = (py.state(), np_.state())
            eng.check(f"{name}#frame.python_generator_restored_after_requirement_checking", at_next[0] == e[3], detail=f"before the check {e[3]}, afterwards {at_next[0]}")
            eng.check(f"{name}#frame.numpy_generator_restored_after_requirement_checking", at_next[1] == e[4], detail=f"before the check {e[4]}, afterwards {at_next[1]}")
        user = [d[1] for d in py.draws if d[0] != "checker"]
        eng.check(f"{name}#frame.draws_seen_by_sampling_are_consecutive_(independent_of_the_checker)", user == list(range(1, len(user) + 1)))
        # external sampler: one call per attempt, before sampling, with the feedback of the previous rejection
        if v["_ext"] is not None:
            calls = v["_ext_calls"]
            ok = len(calls) == n and all(c[1] == k for k, c in enumerate(calls)) and all(c[0] is (v["_fb0"] if k == 0 else v["_ext"].fields["rejectionFeedback"]) for k, c in enumerate(calls))
            eng.check(f"{name}#ensures.external_sampler_called_once_per_attempt_with_the_pending_feedback", ok)

    reg.add(
        C.Contract(
            f"{S}:Scenario._generateInner",
            params=dict(self=C.Const(None), maxIterations=C.Const(None), verbosity=C.Const(None), feedback=C.Const(None)),
            setup=setup,
            post=post,
            raises=[C.Raises("RejectionException", mode="may")],
            inline=DICT_INLINE,
            unroll=6,
            replay=replay_generate_inner,
            bounded=True,
            note="bounded: maxIterations in [-1, 3] (symbolic), 2 soft requirements with symbolic probabilities, every accept/reject/"
            "sampling-rejection pattern, checker drawing 0-1 values from each global generator; Samplable.sampleAll, the checker and "
            "_makeSceneFromSample are abstract logged calls",
            properties=("C01",),
        ),
        key=f"{S}:Scenario._generateInner[rejection-loop]",
    )


def replay_generate_inner(inputs, clause):
    """A real compiled scenario with two soft requirements and a scripted checker (rejects k times, draws extra random
    values while checking).  Compared against an identical run with a silent checker."""
    import random

    import numpy
    import scenic
    from scenic.core.distributions import RejectionException

    maxit = int(inputs.get("maxIterations", 2))
    p0, p1 = float(inputs.get("prob0", 0.5)), float(inputs.get("prob1", 0.5))
    src = f"ego = new Object at (Range(0, 10), 0, 0)\nrequire[{p0!r}] ego.position.x >= -100\nrequire[{p1!r}] ego.position.x >= -200\n"
    out = []
    for pattern in ([], [True], [True, True], [True, True, True]):
        results = []
        for noisy in (False, True):
            sc = scenic.scenarioFromString(src, mode2D=False)
            calls = []

            class Scripted:
                def checkRequirements(self, sample, calls=calls, noisy=noisy, pattern=pattern):
                    k = len(calls)
                    calls.append(sample)
                    if noisy:
                        random.random()
                        numpy.random.random()
                    return "scripted rejection" if k < len(pattern) and pattern[k] else None

            sc.checker = Scripted()
            random.seed(11)
            numpy.random.seed(11)
            draws = []
            real_random = random.random
            try:
                scene, its = sc._generateInner(maxit, 0, None)
                outcome = ("scene", its, scene.egoObject.position.x)
            except RejectionException:
                outcome = ("rejected", len(calls), None)
            acts = tuple(r.active for r in sc.userRequirements)
            results.append((outcome, acts, random.random(), float(numpy.random.random())))
            need = len(pattern) + 1
            if outcome[0] == "scene" and (outcome[1] != need or need > maxit):
                return f"_generateInner({maxit}) returned after {outcome[1]} iterations with a checker rejecting the first {len(pattern)} samples (expected {need} iterations{' i.e. RejectionException' if need > maxit else ''})"
            if outcome[0] == "rejected" and need <= maxit:
                return f"_generateInner({maxit}) raised RejectionException after {outcome[1]} checks although sample {need} would have been accepted"
            if outcome[0] == "rejected" and outcome[1] != max(maxit, 0):
                return f"_generateInner({maxit}) raised RejectionException after {outcome[1]} checked samples (expected {max(maxit, 0)})"
        if results[0] != results[1]:
            return f"a checker that draws random values changes the outcome: {results[0]} (silent) vs {results[1]} (noisy), rejection pattern {pattern}"
        # activation: re-run the two activation draws
        random.seed(11)
        u0, u1 = random.random(), random.random()
        want = (u0 <= p0, u1 <= p1)
        if results[0][1] != want:
            return f"soft requirements active = {results[0][1]}, but the activation draws {u0:.4f}, {u1:.4f} against probabilities {p0}, {p1} give {want}"
    # independence of the activation draws: many RNG outcomes, the model's probabilities and a generic pair
    for q0, q1 in ((p0, p1), (0.3, 0.7), (0.7, 0.3)):
        src_q = f"ego = new Object at (Range(0, 10), 0, 0)\nrequire[{q0!r}] ego.position.x >= -100\nrequire[{q1!r}] ego.position.x >= -200\n"
        sc = scenic.scenarioFromString(src_q, mode2D=False)
        for seed in range(40):
            random.seed(seed)
            numpy.random.seed(seed)
            sc._generateInner(3, 0, None)
            acts = tuple(r.active for r in sc.userRequirements)
            random.seed(seed)
            u0, u1 = random.random(), random.random()
            want = (u0 <= q0, u1 <= q1)
            if acts != want:
                return f"soft requirements require[{q0}] / require[{q1}] with random.seed({seed}): active = {acts}, but one independent draw each ({u0:.4f}, {u1:.4f}) gives {want}"
    # activation draws that hit the probabilities exactly: `u <= p` enforces the requirement
    if 0 <= p0 < 1 and 0 <= p1 < 1:
        sc = scenic.scenarioFromString(src, mode2D=False)
        script = [p0, p1]
        orig = random.random
        random.random = lambda: script.pop(0) if script else orig()
        try:
            sc._generateInner(3, 0, None)
        finally:
            random.random = orig
        acts = tuple(r.active for r in sc.userRequirements)
        if acts != (True, True):
            return f"activation draws equal to the probabilities ({p0}, {p1}) gave active = {acts}; `require[p]` is enforced when the draw is <= p"
    # a sampling-time rejection is an attempt like any other
    import scenic.core.scenarios as scen

    sc = scenic.scenarioFromString(src, mode2D=False)
    real = scen.Samplable.sampleAll
    state = {"n": 0}

    def scripted(quantities):
        state["n"] += 1
        if state["n"] == 1:
            raise RejectionException("scripted sampling rejection")
        return real(quantities)

    scen.Samplable.sampleAll = staticmethod(scripted)
    try:
        for budget in (1, 2):
            state["n"] = 0
            try:
                scene, its = sc._generateInner(budget, 0, None)
                got = ("scene", its)
            except RejectionException:
                got = ("rejected", state["n"])
            want = ("rejected", 1) if budget == 1 else ("scene", 2)
            if got != want:
                return f"with the first sampling attempt rejected, _generateInner({budget}) gave {got}, expected {want}"
    finally:
        scen.Samplable.sampleAll = staticmethod(real)
    return None


# ------------------------------------------------------------------------------------------------
# (3) continuous sampling sites, Uniform, UniformDistribution


def register_sites(reg):
    def setup_two(fa, fb):
        def setup(I, env):
            eng = I.eng
            form = eng.choose(2, "parameters random?")
            a, b = eng.fresh_real(fa), eng.fresh_real(fb)
            self = env.vars["self"]
            if form == 0:
                ka, kb = PObj("RandomParameter", tag=fa), PObj("RandomParameter", tag=fb)
                self.fields.update({fa: ka, fb: kb})
                env.vars["value"] = identity_map(I, [(ka, a), (kb, b)])
            else:
                self.fields.update({fa: a, fb: b})
                env.vars["value"] = identity_map(I)
            env.vars["_a"], env.vars["_b"] = a, b
            eng.input_syms.append((fa, C.Real(), a))
            eng.input_syms.append((fb, C.Real(), b))

        return setup

    def post_site(name, prim):
        def post(I, env, outcome):
            eng = I.eng
            tr = eng.rng_trace
            ok = outcome[0] == "return" and len(tr) == 1 and tr[0][0] == prim
            eng.check(f"{name}#rng.exactly_one_{prim}_draw", ok)
            if ok:
                a, b = tr[0][1][0], tr[0][1][1]
                if not (is_scalar(a) and is_scalar(b)):
                    eng.check(f"{name}#rng.{prim}_arguments_are_the_sampled_parameters_in_order", False, detail=f"{prim} called with unsampled parameter objects {a!r}, {b!r}")
                    return
                eng.check(f"{name}#rng.{prim}_arguments_are_the_sampled_parameters_in_order", sv_and(compare("==", a, env.vars["_a"]), compare("==", b, env.vars["_b"])))
                eng.check(f"{name}#ensures.result_is_the_draw", compare("==", outcome[1], tr[0][2]))

        return post

    reg.add(C.Contract(f"{D}:Range.sampleGiven", params=dict(self=C.Obj(f"{D}:Range"), value=C.Const(None)), setup=setup_two("low", "high"), post=post_site("distributions.Range.sampleGiven", "uniform"), inline=["DefaultIdentityDict.__getitem__"], replay=replay_range_sample, properties=("C01",)))
    reg.add(C.Contract(f"{D}:Normal.sampleGiven", params=dict(self=C.Obj(f"{D}:Normal"), value=C.Const(None)), setup=setup_two("mean", "stddev"), post=post_site("distributions.Normal.sampleGiven", "gauss"), inline=["DefaultIdentityDict.__getitem__"], replay=replay_normal_sample, properties=("C01",)))

    # ---------------------------------------------------------------- Uniform(*opts)
    starred = repo_class(f"{D}:StarredDistribution")

    def setup_uniform(I, env):
        eng = I.eng
        reg.constructors[f"{D}:Options"] = record_ctor
        reg.constructors[f"{D}:UniformDistribution"] = record_ctor
        n = eng.choose(4, "number of options")
        with_star = n > 0 and eng.choose(2, "one option starred?") == 1
        opts = [PObj("Option", tag=f"opt{i}") for i in range(n)]
        if with_star:
            s = PObj(starred, tag="*starred")
            s.fields.update(value=PObj("RandomOperand", tag="starred value"), lineno=1)
            opts[n - 1] = s
        env.vars["opts"] = tuple(opts)
        env.vars.update(_opts=opts, _star=with_star)

    def post_uniform(I, env, outcome):
        eng = I.eng
        name = "distributions.Uniform"
        if outcome[0] != "return":
            return
        res, opts = outcome[1], env.vars["_opts"]
        want = "UniformDistribution" if env.vars["_star"] else "Options"
        ok = isinstance(res, PObj) and getattr(res.cls, "name", None) == want and "_ctor" in res.fields
        eng.check(f"{name}#ensures.Options_when_the_set_of_options_is_static_else_UniformDistribution", ok)
        if ok:
            got = res.fields["_ctor"].get("opts")
            eng.check(f"{name}#ensures.all_options_passed_on_in_order", isinstance(got, tuple) and len(got) == len(opts) and all(a is b for a, b in zip(got, opts)))

    reg.add(C.Contract(f"{D}:Uniform", params=dict(opts=C.Const(None)), setup=setup_uniform, post=post_uniform, replay=replay_uniform, bounded=True, note="0 to 3 options", properties=("C01",)))

    # ---------------------------------------------------------------- UniformDistribution.__init__ / sampleGiven
    def setup_ud_init(I, env):
        eng = I.eng
        from .common import install_distribution_stubs

        install_distribution_stubs(reg)
        reg.constructors[f"{D}:DiscreteRange"] = record_ctor
        opts, lens, plain = [], [], 0
        for i in range(3):
            if eng.choose(2, f"option {i} starred?") == 1:
                s = PObj(starred, tag=f"*starred{i}")
                ln = eng.fresh_int(f"len{i}")
                eng.assume(compare(">=", ln, 0))
                s.fields.update(value=PObj("RandomOperand", tag=f"starred value {i}"), lineno=1, _isLazy=True)
                s.fields["__len__"] = BuiltinFn("__len__", lambda ln=ln: ln)
                opts.append(s)
                lens.append(ln)
            else:
                o = PObj("Option", tag=f"opt{i}")
                opts.append(o)
                plain += 1
        env.vars["opts"] = tuple(opts)
        env.vars.update(_opts=opts, _lens=lens, _plain=plain)

    def post_ud_init(I, env, outcome):
        eng = I.eng
        name = "distributions.UniformDistribution.__init__"
        if outcome[0] != "return":
            return
        f = env.vars["self"].fields
        sel = f.get("selector")
        ok = isinstance(sel, PObj) and getattr(sel.cls, "name", None) == "DiscreteRange" and "_ctor" in sel.fields
        eng.check(f"{name}#ensures.selector_is_a_DiscreteRange", ok)
        if not ok:
            return
        c = sel.fields["_ctor"]
        total = env.vars["_plain"]
        for ln in env.vars["_lens"]:
            total = total + ln
        eng.check(f"{name}#ensures.selector_ranges_over_0_to_total_number_of_options_minus_1", sv_and(compare("==", c["low"], 0), compare("==", c["high"], total - 1)))
        eng.check(f"{name}#ensures.selector_is_unweighted", c.get("weights") is None)
        eng.check(f"{name}#ensures.options_kept_in_order", f.get("options") is env.vars["opts"])
        deps = f.get("_dependencies")
        eng.check(f"{name}#ensures.selector_is_a_dependency", isinstance(deps, tuple) and any(d is sel for d in deps))

    reg.add(C.Contract(f"{D}:UniformDistribution.__init__", params=dict(self=C.Obj(f"{D}:UniformDistribution"), opts=C.Const(None)), setup=setup_ud_init, post=post_ud_init, replay=replay_ud, bounded=True, note="3 options, each plain or starred with a symbolic length (lifted len/+ treated as arithmetic: C05)", properties=("C01",)))

    def setup_ud(I, env):
        eng = I.eng
        k0, v0 = PObj("Option", tag="opt0"), PObj("SampledValue", tag="v(opt0)")
        s = PObj(starred, tag="*starred")
        s.fields.update(value=PObj("RandomOperand", tag="starred value"), lineno=1)
        nstar = eng.choose(3, "sampled length of the starred option")
        elems = tuple(PObj("SampledValue", tag=f"s{i}") for i in range(nstar))
        k2, v2 = PObj("Option", tag="opt2"), PObj("SampledValue", tag="v(opt2)")
        sel = PObj("Selector", tag="selector")
        idx = eng.fresh_int("index")
        total = 2 + nstar
        eng.assume(sv_and(compare(">=", idx, 0), compare("<", idx, total)))  # DiscreteRange contract on the selector (0 .. total-1)
        eng.input_syms.append(("index", C.Int(), idx))
        env.vars["self"].fields.update(options=(k0, s, k2), selector=sel)
        env.vars["value"] = identity_map(I, [(k0, v0), (s, elems), (k2, v2), (sel, idx)])
        env.vars.update(_flat=[v0] + list(elems) + [v2], _idx=idx)

    def post_ud(I, env, outcome):
        eng = I.eng
        name = "distributions.UniformDistribution.sampleGiven"
        if outcome[0] != "return":
            return
        flat, idx = env.vars["_flat"], env.vars["_idx"]
        hit = [k for k in range(len(flat)) if outcome[1] is flat[k]]
        eng.check(f"{name}#ensures.result_is_the_selected_element_of_the_spliced_options", len(hit) == 1 and compare("==", idx, hit[0]))
        eng.check(f"{name}#rng.no_draw", len(eng.rng_trace) == 0)

    reg.add(C.Contract(f"{D}:UniformDistribution.sampleGiven", params=dict(self=C.Obj(f"{D}:UniformDistribution"), value=C.Const(None)), setup=setup_ud, post=post_ud, assert_mode="prove", inline=["DefaultIdentityDict.__getitem__"], replay=replay_ud, bounded=True, note="options (plain, starred of sampled length 0-2, plain)", properties=("C01",)))


def _replay_two_param_site(cls_name, prim, pa, pb, a, b):
    """Real node with constant and with random parameters; the primitive is intercepted."""
    import random

    import scenic.core.distributions as d
    from scenic.core.utils import DefaultIdentityDict

    cls = getattr(d, cls_name)
    for random_params in (False, True):
        m = DefaultIdentityDict()
        if random_params:
            ka, kb = d.Range(0, 1), d.Range(0, 1)
            m[ka], m[kb] = a, b
            node = cls(ka, kb)
        else:
            node = cls(a, b)
        calls = []
        orig = getattr(random, prim)
        setattr(random, prim, lambda x, y: (calls.append((x, y)), orig(x, y))[1])
        try:
            random.seed(3)
            v = node.sampleGiven(m)
            random.seed(3)
            w = orig(a, b)
        finally:
            setattr(random, prim, orig)
        ok = len(calls) == 1 and all(isinstance(x, (int, float)) for x in calls[0]) and calls[0] == (a, b) and v == w
        if not ok:
            kind = "random parameters sampled as" if random_params else "constant parameters"
            return f"{cls_name}.sampleGiven with {kind} {pa}={a}, {pb}={b} drew {prim}{calls!r} and returned {v!r}; expected exactly one {prim}({a}, {b}) = {w}"
    return None


def replay_range_sample(inputs, clause):
    return _replay_two_param_site("Range", "uniform", "low", "high", float(inputs.get("low", 0)), float(inputs.get("high", 1)))


def replay_normal_sample(inputs, clause):
    return _replay_two_param_site("Normal", "gauss", "mean", "stddev", float(inputs.get("mean", 0)), float(inputs.get("stddev", 1)))


# ------------------------------------------------------------------------------------------------
# (3b) clone() of the primitives and veneer.resample: a fresh node over the very same parameter objects

CLONES = {
    "Range": (["low", "high"], lambda f: dict(low=f["low"], high=f["high"])),
    "Normal": (["mean", "stddev"], lambda f: dict(mean=f["mean"], stddev=f["stddev"])),
    "TruncatedNormal": (["mean", "stddev", "low", "high"], lambda f: dict(mean=f["mean"], stddev=f["stddev"], low=f["low"], high=f["high"])),
    "DiscreteRange": (["low", "high", "weights", "emptyMessage"], lambda f: dict(low=f["low"], high=f["high"], weights=f["weights"], emptyMessage=f["emptyMessage"])),
    "UniformDistribution": (["options"], lambda f: dict(opts=f["options"])),
}


def register_clone(reg):
    def make(cn):
        fields, expect = CLONES[cn]
        name = f"distributions.{cn}.clone"

        def setup(I, env):
            reg.constructors[f"{D}:{cn}"] = record_ctor
            self = env.vars["self"]
            for f in fields:
                self.fields[f] = PObj("Parameter", tag=f)

        def post(I, env, outcome):
            eng = I.eng
            self, res = env.vars["self"], outcome[1] if outcome[0] == "return" else None
            ok = isinstance(res, PObj) and res is not self and res.cls is self.cls and "_ctor" in res.fields
            eng.check(f"{name}#ensures.a_fresh_node_of_the_same_class", ok)
            if ok:
                want = expect(self.fields)
                got = res.fields["_ctor"]
                eng.check(f"{name}#ensures.over_the_very_same_parameter_objects", all(got.get(k) is val for k, val in want.items()))

        reg.add(C.Contract(f"{D}:{cn}.clone", params=dict(self=C.Obj(f"{D}:{cn}")), setup=setup, post=post, replay=make_replay_clone(cn), properties=("C01",)))

    for cn in CLONES:
        make(cn)

    # Options.clone: weighted -> the same option->weight table; uniform -> the same options
    def setup_oc(I, env):
        eng = I.eng
        reg.constructors[f"{D}:Options"] = record_ctor
        weighted = eng.choose(2, "weighted?") == 1
        opts = tuple(PObj("Option", tag=f"opt{i}") for i in range(3))
        table = PDict([(o, eng.fresh_real(f"w{i}")) for i, o in enumerate(opts)]) if weighted else None
        env.vars["self"].fields.update(options=opts, optWeights=table)
        env.vars.update(_opts=opts, _table=table)

    def post_oc(I, env, outcome):
        eng = I.eng
        name = "distributions.Options.clone"
        self, res = env.vars["self"], outcome[1] if outcome[0] == "return" else None
        ok = isinstance(res, PObj) and res is not self and res.cls is self.cls and "_ctor" in res.fields
        eng.check(f"{name}#ensures.a_fresh_node_of_the_same_class", ok)
        if ok:
            want = env.vars["_table"] if env.vars["_table"] is not None else env.vars["_opts"]
            eng.check(f"{name}#ensures.over_the_same_options_and_weights", res.fields["_ctor"].get("opts") is want)

    reg.add(C.Contract(f"{D}:Options.clone", params=dict(self=C.Obj(f"{D}:Options")), setup=setup_oc, post=post_oc, replay=make_replay_clone("Options"), properties=("C01",)))

    # veneer.resample
    def setup_rs(I, env):
        eng = I.eng
        kind = eng.choose(3, "argument")
        calls = []
        if kind == 0:
            env.vars["dist"] = PObj("NotADistribution", tag="constant")
        else:
            d = PObj(repo_class(f"{D}:Distribution"), tag="dist")
            fresh = PObj("Clone", tag="clone")

            def clone():
                calls.append(1)
                if kind == 2:
                    I.raise_("NotImplementedError", "clone() not supported by this distribution")
                return fresh

            d.fields["clone"] = BuiltinFn("clone", clone)
            env.vars["dist"] = d
            env.vars["_fresh"] = fresh
        env.vars.update(_kind=kind, _calls=calls)

    def post_rs(I, env, outcome):
        eng = I.eng
        name = "veneer.resample"
        kind = env.vars["_kind"]
        if kind == 0:
            eng.check(f"{name}#ensures.non_random_values_are_returned_unchanged", outcome[0] == "return" and outcome[1] is env.vars["dist"])
        elif kind == 1:
            eng.check(f"{name}#ensures.an_independent_clone_of_the_distribution", outcome[0] == "return" and outcome[1] is env.vars["_fresh"] and len(env.vars["_calls"]) == 1)
        else:
            eng.check(f"{name}#raises.TypeError_for_non_primitive_distributions", outcome[0] == "raise" and exc_name(outcome[1]) == "TypeError")

    reg.add(C.Contract(f"{V}:resample", params=dict(dist=C.Const(None)), setup=setup_rs, post=post_rs, raises=[C.Raises("TypeError", mode="may")], replay=replay_resample, properties=("C01",)))


# ------------------------------------------------------------------------------------------------
# further replay drivers (real objects, scripted draws)


def replay_sample_one(inputs, clause):
    from scenic.core.distributions import Samplable
    from scenic.core.utils import DefaultIdentityDict

    counts = {}

    class Node(Samplable):
        def __init__(self, tag, deps):
            super().__init__(deps)
            self.tag = tag
            self._needsSampling = self._isLazy = True

        def sampleGiven(self, value):
            counts[self.tag] = counts.get(self.tag, 0) + 1
            return ("v", self.tag, tuple(value[d] for d in self._dependencies))

    for form in range(4):
        counts.clear()
        n0 = Node("n0", [])
        n1 = Node("n1", [n0])
        n2 = Node("n2", [n1, n0])
        pre = [[], [], [n0], [n1, n0]][form]
        m = None if form == 0 else DefaultIdentityDict()
        for n in pre:
            m[n] = ("given", n.tag)
        res = n2.sample(m)
        for n in (n0, n1):
            want = 0 if (n in pre or (n is n0 and n1 in pre)) else 1
            if counts.get(n.tag, 0) != want:
                return f"sample() with {[x.tag for x in pre]} already in the map drew {n.tag} {counts.get(n.tag, 0)} times (expected {want})"
        if counts.get("n2", 0) != 1:
            return f"n2 drawn {counts.get('n2', 0)} times"
    return None


def make_replay_init(is_dist):
    def replay(inputs, clause):
        from scenic.core.distributions import Distribution, Samplable
        from scenic.core.lazy_eval import DelayedArgument

        A = DelayedArgument(("p",), lambda c: 1, _internal=True)
        B = DelayedArgument(("q", "p"), lambda c: 2, _internal=True)
        for args in ([A, 3, B, object()], [3, B, A], [object(), 4], [B]):
            if is_dist:

                class Dist(Distribution):
                    def __init__(self, *a):
                        super().__init__(*a)

                node = Dist(*args)
            else:
                node = Samplable(args)
            want = [a for a in args if isinstance(a, DelayedArgument)]
            got = list(node._dependencies)
            if len(got) != len(want) or any(g is not w for g, w in zip(got, want)):
                return f"dependencies of a node built from {len(args)} arguments: {len(got)} recorded (lazy ones: {len(want)}), order preserved: {all(g is w for g, w in zip(got, want))}"
        return None

    return replay


def replay_uniform(inputs, clause):
    from scenic.core.distributions import Options, Range, StarredDistribution, TupleDistribution, Uniform, UniformDistribution

    u = Uniform(1, 2, 3)
    if type(u) is not Options or tuple(u.options) != (1, 2, 3):
        return f"Uniform(1, 2, 3) built {type(u).__name__} over {getattr(u, 'options', None)!r}"
    st = StarredDistribution(TupleDistribution(Range(0, 1), Range(0, 1)), 1)
    u = Uniform(1, st)
    if type(u) is not UniformDistribution or len(u.options) != 2 or u.options[0] != 1 or u.options[1] is not st:
        return f"Uniform(1, *random) built {type(u).__name__} over {getattr(u, 'options', None)!r}"
    return None


def replay_ud(inputs, clause):
    import random

    from scenic.core.distributions import Range, StarredDistribution, TupleDistribution, UniformDistribution
    from scenic.core.utils import DefaultIdentityDict

    td = TupleDistribution(Range(5, 6), Range(7, 8))
    st = StarredDistribution(td, 1)
    u = UniformDistribution((10, st, 30))
    seen = set()
    for seed in range(300):
        random.seed(seed)
        v = u.sample()  # an AssertionError inside sampleGiven is reported by the runner
        seen.add("a" if v == 10 else "d" if v == 30 else "b" if 5 <= v <= 6 else "c" if 7 <= v <= 8 else "?")
    if seen != {"a", "b", "c", "d"}:
        return f"UniformDistribution((10, *(Range(5,6), Range(7,8)), 30)) produced only the options {sorted(seen)} in 300 draws"
    # the selected element of the spliced list
    for idx, want in enumerate([10, "s0", "s1", 30]):
        m = DefaultIdentityDict()
        m[st] = ("s0", "s1")
        m[u.selector] = idx
        got = u.sampleGiven(m)
        if got != want:
            return f"UniformDistribution.sampleGiven with selector = {idx} returned {got!r}, expected {want!r}"
    return None


def make_replay_clone(cn):
    def replay(inputs, clause):
        import scenic.core.distributions as d

        a, b = d.Range(0, 1), d.Range(2, 3)
        if cn == "Range":
            o, params = d.Range(a, b), dict(low=a, high=b)
        elif cn == "Normal":
            o, params = d.Normal(a, b), dict(mean=a, stddev=b)
        elif cn == "TruncatedNormal":
            o, params = d.TruncatedNormal(a, b, -1.5, 2.5), dict(mean=a, stddev=b, low=-1.5, high=2.5)
        elif cn == "DiscreteRange":
            o, params = d.DiscreteRange(0, 2, (1, 2, 3), "msg"), dict(low=0, high=2, weights=(1, 2, 3), emptyMessage="msg")
        elif cn == "UniformDistribution":
            st = d.StarredDistribution(d.TupleDistribution(a, b), 1)
            opts = (1, st)
            o, params = d.UniformDistribution(opts), dict(options=opts)
        else:
            table = {a: 1, b: 3}
            o = d.Options(table)
            c = o.clone()
            if c is o or type(c) is not d.Options or c.optWeights != table or any(x is not y for x, y in zip(c.optWeights, table)):
                return f"Options({{a: 1, b: 3}}).clone() has weights {c.optWeights!r}"
            o2 = d.Options([a, b])
            c2 = o2.clone()
            if c2 is o2 or c2.optWeights is not None or any(x is not y for x, y in zip(c2.options, (a, b))):
                return "Options([a, b]).clone() does not range over the same options"
            return None
        c = o.clone()
        if c is o or type(c) is not type(o):
            return f"{cn}.clone() returned {'the same object' if c is o else type(c).__name__}"
        for k, val in params.items():
            got = getattr(c, k)
            if hasattr(val, "_dependencies") or hasattr(got, "_dependencies"):
                if got is not val:
                    return f"{cn}.clone().{k} is {got!r}, not the very same parameter object {val!r}"
            elif got != val:
                return f"{cn}.clone().{k} = {got!r}, expected the original's {val!r}"
        return None

    return replay


def replay_resample(inputs, clause):
    import scenic.core.distributions as d
    from scenic.syntax.veneer import resample

    if resample(3) != 3:
        return "resample(3) != 3"
    lo = d.Range(0, 1)
    r = d.Range(lo, 5)
    c = resample(r)
    if c is r or type(c) is not d.Range or c.low is not lo or c.high != 5:
        return f"resample(Range(lo, 5)) returned {'the same node' if c is r else repr(c)}: not an independent copy over the same parameters"
    try:
        resample(r + 1)
    except TypeError:
        return None
    return "resample of a non-primitive distribution did not raise TypeError"


# ------------------------------------------------------------------------------------------------
# (4) PendingRequirement.compile.closure: the requirement sees the SAMPLED values of the bindings captured at the
#     statement (global names and closure cells), is evaluated exactly once, and leaves namespace and cells as it found them

R = "scenic.core.requirements"


def register_requirement_closure(reg):
    name = "requirements.PendingRequirement.compile.closure"
    h = {}

    def closure_env(I):
        eng = I.eng
        rt = repo_class(f"{R}:RequirementType")
        is_require = eng.choose(2, "requirement type") == 0
        ty = I.get_attr(rt, "require" if is_require else "terminateWhen")
        # bindings captured at the statement: two global names and two closure cells; `y` is bound to a constant
        bx, bz = PObj("Distribution", tag="binding of x at the statement"), PObj("Distribution", tag="binding of z at the statement")
        by = PObj("Constant", tag="binding of y at the statement (not random)")
        bc0, bc1 = PObj("Distribution", tag="binding of cell 0"), PObj("Constant", tag="binding of cell 1 (not random)")
        ns = PDict([("x", PObj("Rebound", tag="x rebound after the statement")), ("y", PObj("Rebound", tag="y rebound after the statement")), ("unrelated", PObj("Other", tag="unrelated global")), ("z", bz)])
        cells = []
        for i, b in enumerate((bc0, bc1)):
            c = PObj("Cell", tag=f"cell{i}")
            c.fields["cell_contents"] = b
            cells.append((c, b))
        ego = PObj("Object", tag="ego at the statement") if eng.choose(2, "ego?") == 1 else None
        scenario = PObj("Scenario", tag="scenario")
        log = []
        result = PObj("Verdict", tag="result")
        lazy_result = eng.choose(2, "result still lazy?") == 1
        result.fields["_needsLazyEval"] = lazy_result
        raises = (not lazy_result) and eng.choose(2, "condition raises?") == 1

        def evaluate():
            log.append(("evaluate", dict(zip(ns.keys, ns.vals)), [c.fields["cell_contents"] for c, _ in cells]))
            if raises:
                I.raise_("ZeroDivisionError", "raised by the user's condition")
            return result

        atom = PObj("Atomic", tag="atomic proposition")
        fn = PObj("Function", tag="lambda of the requirement")
        fn.fields["__globals__"] = ns
        atom.fields["closure"] = fn
        cond = PObj("Proposition", tag="condition")
        cond.fields["atomics"] = BuiltinFn("atomics", lambda: PList([atom]))
        cond.fields["evaluate"] = BuiltinFn("evaluate", evaluate)

        def execute_in_requirement(I_, sc, boundEgo, values):
            def enter(I2):
                log.append(("enter", sc, boundEgo, values))

            def exit_(I2, exc):
                log.append(("exit", exc))
                return False

            return bm.ContextManagerVal(enter, exit_)

        reg.models[f"{V}:executeInRequirement"] = execute_in_requirement
        h.update(ty=ty, is_require=is_require, ns=ns, before_ns=list(zip(ns.keys, ns.vals)), cells=cells, before_cells=[c.fields["cell_contents"] for c, _ in cells], ego=ego, scenario=scenario, log=log, result=result, lazy_result=lazy_result, raises=raises, bx=bx, by=by, bz=bz)
        gb = PDict([("x", bx), ("y", by), ("z", bz)])
        return dict(condition=cond, globalBindings=gb, cells=tuple(cells), ty=ty, ego=ego, scenario=scenario, line=7)

    def setup(I, env):
        eng = I.eng
        # the sample: every random binding has a sampled value; for a non-`require` statement z may be missing from it
        sx, sz, sc0 = PObj("Sampled", tag="v(x)"), PObj("Sampled", tag="v(z)"), PObj("Sampled", tag="v(cell 0)")
        pairs = [(h["bx"], sx), (h["cells"][0][1], sc0)]
        z_sampled = h["is_require"] or eng.choose(2, "z in the sample?") == 1
        if z_sampled:
            pairs.append((h["bz"], sz))
        sego = None
        if h["ego"] is not None:
            sego = PObj("Sampled", tag="v(ego)")
            pairs.append((h["ego"], sego))
        env.vars["values"] = identity_map(I, pairs)
        env.vars["monitor"] = None
        env.vars.update(_sx=sx, _sz=sz, _sc0=sc0, _sego=sego, _z_sampled=z_sampled)
        eng.input_syms.append(("require", C.Const(None), h["is_require"]))
        eng.input_syms.append(("condition_raises", C.Const(None), h["raises"]))

    def post(I, env, outcome):
        eng = I.eng
        v, log = env.vars, h["log"]
        evs = [e for e in log if e[0] == "evaluate"]
        eng.check(f"{name}#ensures.condition_evaluated_exactly_once", len(evs) == 1)
        if len(evs) == 1:
            ns_then, cells_then = evs[0][1], evs[0][2]
            want_z = v["_sz"] if v["_z_sampled"] else h["bz"]
            eng.check(f"{name}#ensures.captured_random_names_hold_the_sampled_values_of_the_bindings_at_the_statement", ns_then["x"] is v["_sx"] and ns_then["z"] is want_z)
            if h["is_require"]:
                # `require`: every captured name, random or not, reads its value at the time of the statement
                eng.check(f"{name}#ensures.require_rebinds_every_captured_name_to_its_binding_at_the_statement", ns_then["y"] is h["by"])
            eng.check(f"{name}#ensures.names_the_requirement_does_not_use_are_untouched", ns_then["unrelated"] is dict(h["before_ns"])["unrelated"])
            eng.check(f"{name}#ensures.closure_cells_hold_the_sampled_values_of_their_bindings", cells_then[0] is v["_sc0"] and cells_then[1] is h["cells"][1][1])
            i = log.index(evs[0])
            ent = [e for e in log[:i] if e[0] == "enter"]
            eng.check(f"{name}#ensures.evaluated_inside_the_requirement_context_with_the_sampled_ego_and_the_sample", len(ent) == 1 and ent[0][1] is h["scenario"] and ent[0][2] is v["_sego"] and ent[0][3] is v["values"] and any(e[0] == "exit" for e in log[i:]))
        if outcome[0] == "return":
            eng.check(f"{name}#ensures.returns_the_verdict_of_the_condition", outcome[1] is h["result"] and not h["lazy_result"] and not h["raises"])
        else:
            cn = exc_name(outcome[1])
            eng.check(f"{name}#raises.only_the_condition's_own_error_or_InvalidScenarioError_for_a_lazy_result", (cn == "ZeroDivisionError" and h["raises"]) or (cn == "InvalidScenarioError" and h["lazy_result"]))
        # frame: on exit (normal or exceptional) the module namespace and the cells are as they were found
        now = dict(zip(h["ns"].keys, h["ns"].vals))
        eng.check(f"{name}#frame.namespace_restored_on_exit", list(h["ns"].keys) == [k for k, _ in h["before_ns"]] and all(now[k] is b for k, b in h["before_ns"]), detail="after the call: " + ", ".join(f"{k}={now[k]!r}" for k in now))
        eng.check(f"{name}#frame.closure_cells_restored_on_exit", all(c.fields["cell_contents"] is b for (c, _), b in zip(h["cells"], h["before_cells"])))

    reg.add(
        C.Contract(
            f"{R}:PendingRequirement.compile.closure",
            params=dict(values=C.Const(None), monitor=C.Const(None)),
            closure_env=closure_env,
            setup=setup,
            post=post,
            raises=[C.Raises("ZeroDivisionError", mode="may"), C.Raises("InvalidScenarioError", mode="may")],
            inline=DICT_INLINE,
            replay=replay_requirement_closure,
            note="two captured global names (one rebound after the statement, one constant), a third name only in the sample for "
            "non-require statements, two closure cells, optional ego; condition returns / returns a lazy value / raises",
            bounded=True,
            properties=("C01",),
        )
    )


def replay_requirement_closure(inputs, clause):
    """A real compiled scenario: names are rebound after the `require`; the requirement must see the (sampled) values of
    the bindings at the statement, exactly once per sample; afterwards the module namespace must be as before the check."""
    import scenic

    src = (
        "x = Range(1, 2)\n"
        "y = 3\n"
        "calls = []\n"
        "def probe():\n"
        "    calls.append(1)\n"
        "    return True\n"
        "ego = new Object at (x, 0)\n"
        "def f():\n"
        "    k = Range(5, 6)\n"
        "    return lambda: k\n"
        "g = f()\n"
        "require 1 <= x <= 2 and 5 <= g() <= 6 and y == 3 and (distance to (100, 0)) > 50 and probe()\n"
        "x = 'rebound after the require'\n"
        "y = 'rebound after the require'\n"
    )
    sc = scenic.scenarioFromString(src, mode2D=True)
    req = sc.userRequirements[0]
    ns = req.proposition.atomics()[0].closure.__globals__
    before = {k: ns[k] for k in ("x", "y", "ego", "g")}
    cell = ns["g"].__closure__[0]
    cell_before = cell.cell_contents
    n0 = len(ns["calls"])
    scene, its = sc.generate(maxIterations=50)  # an exception inside the repository is reported by the runner
    if its != 1:
        return f"the requirement over x = Range(1, 2), k = Range(5, 6), y = 3 (all rebound or shadowed after the statement) rejected {its - 1} samples: it did not see the values of the bindings at the statement"
    if len(ns["calls"]) - n0 != 1:
        return f"the condition of the requirement was evaluated {len(ns['calls']) - n0} times for one sample"
    after = {k: ns[k] for k in before}
    changed = [k for k in before if after[k] is not before[k]]
    if changed and ("namespace" in clause or clause == "frame"):
        return "after generate() the module namespace still holds the values bound for the check: " + ", ".join(f"{k} = {after[k]!r} (was {before[k]!r})" for k in changed)
    if cell.cell_contents is not cell_before and "cells" in clause:
        return f"after generate() the closure cell of g holds {cell.cell_contents!r} (was {cell_before!r})"
    return None
