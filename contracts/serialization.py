"""Sidecar contracts for scenic.core.serialization (C18): value codecs.

Oracle: the property statement (round trip; truncated data refused; corrupted data never fails in any
other way) and the *format description* below, not the code:

  enc_int(v) = [v]                         if 0 <= v <= 252
             = [253] + le16(v)             if -2^15 <= v < 2^15
             = [254] + le32(v)             if -2^31 <= v < 2^31
             = [255, n] + leN(v, n)        otherwise, n = max(1, ceil((bit_length(v)+1)/8)) < 256
"""
import io

import z3

from pyvc import contracts as C
from pyvc.builtins_model import bit_length, fb_fixed, fbN, fits, int_bytes_axioms, laid, pow2
from pyvc.values import SV, simplify_sv, tonum

M = "scenic.core.serialization"


def _tb_fixed(W, p, v, k):
    u = v % (256**k)
    return z3.And([z3.Select(W, p + t) == (u / (256**t)) % 256 for t in range(k)])


def _big_len(v):
    return z3.If((bit_length(v) + 8) / 8 >= 1, (bit_length(v) + 8) / 8, 1)


def _classes(v):
    small = z3.And(0 <= v, v <= 252)
    s16 = z3.And(-32768 <= v, v <= 32767)
    s32 = z3.And(-2147483648 <= v, v <= 2147483647)
    return small, s16, s32


def register(reg):
    # ---------------------------------------------------------------- spec functions
    @reg.spec
    def written(D, p, v):
        """D[p:] starts with enc_int(v)."""
        p, v = tonum(p), tonum(v)
        small, s16, s32 = _classes(v)
        L = _big_len(v)
        return simplify_sv(
            z3.If(
                small,
                z3.Select(D, p) == v,
                z3.If(
                    s16,
                    z3.And(z3.Select(D, p) == 253, _tb_fixed(D, p + 1, v, 2)),
                    z3.If(
                        s32,
                        z3.And(z3.Select(D, p) == 254, _tb_fixed(D, p + 1, v, 4)),
                        z3.And(z3.Select(D, p) == 255, z3.Select(D, p + 1) == L, laid(D, p + 2, v, L), L < 256),
                    ),
                ),
            )
        )

    @reg.spec
    def enc_len(v):
        v = tonum(v)
        small, s16, s32 = _classes(v)
        return SV(z3.If(small, 1, z3.If(s16, 3, z3.If(s32, 5, 2 + _big_len(v)))))

    @reg.spec
    def encodable(v):
        v = tonum(v)
        small, s16, s32 = _classes(v)
        return simplify_sv(z3.Or(s32, _big_len(v) < 256))

    @reg.spec
    def same_prefix(D1, D0, n):
        k = z3.Int("k!pref")
        return simplify_sv(z3.ForAll([k], z3.Implies(z3.And(k >= 0, k < tonum(n)), z3.Select(D1, k) == z3.Select(D0, k))))

    @reg.spec
    def bytes_at_stream(D, p, b):
        """D[p : p+len(b)] == b"""
        from pyvc.builtins_model import to_sbytes

        b = to_sbytes(b)
        k = z3.Int("k!bas")
        return simplify_sv(
            z3.ForAll(
                [k],
                z3.Implies(z3.And(k >= 0, k < tonum(b.length)), z3.Select(D, tonum(p) + k) == z3.Select(b.arr, tonum(b.off) + k)),
            )
        )

    def setup_axioms(I, env):
        int_bytes_axioms(I.eng)

    # ---------------------------------------------------------------- writeInt / readInt
    reg.add(
        C.Contract(
            f"{M}:writeInt",
            params=dict(value=C.Int(), stream=C.Stream(at_end=True)),
            setup=setup_axioms,
            ensures={
                "layout": "written(stream.data, old(stream.pos), value)",
                "advance": "stream.pos == old(stream.pos) + enc_len(value) and stream.length == stream.pos",
                "prefix_kept": "same_prefix(stream.data, old(stream.data), old(stream.pos))",
            },
            raises=[C.Raises("SerializationError", when="not encodable(value)", mode="iff")],
            modifies=["stream"],
            replay=replay_writeInt,
            properties=("C18",),
        )
    )
    reg.add(
        C.Contract(
            f"{M}:readInt",
            params=dict(stream=C.Stream(), _v=C.Int()),
            setup=setup_axioms,
            ensures={
                # round trip: a complete encoding is decoded to its value and exactly consumed
                "decodes": "implies(written(old(stream.data), old(stream.pos), _v) and old(stream.pos) + enc_len(_v) <= old(stream.length),"
                " result == _v and stream.pos == old(stream.pos) + enc_len(_v))",
                # truncated data are refused: a strict prefix of an encoding never decodes silently
                "refuses_truncation": "not (written(old(stream.data), old(stream.pos), _v) and old(stream.pos) + enc_len(_v) > old(stream.length))",
                "frame": "stream.length == old(stream.length) and stream.pos >= old(stream.pos) and stream.pos <= stream.length",
            },
            raises=[C.Raises("SerializationError", mode="may"), C.Raises("IndexError", when="True", mode="only_if")],
            result=C.Int(),
            modifies=["stream.pos"],
            inline=["_readExactly"],
            replay=replay_readInt,
            properties=("C18",),
        )
    )


# -------------------------------------------------------------------------------------------------
# replay drivers: model -> real objects -> real call -> executable form of the clause


def ref_enc_int(v):
    """Reference encoder written from the format description (executable spec)."""
    if 0 <= v <= 252:
        return bytes([v])
    if -(2**15) <= v < 2**15:
        return bytes([253]) + v.to_bytes(2, "little", signed=True)
    if -(2**31) <= v < 2**31:
        return bytes([254]) + v.to_bytes(4, "little", signed=True)
    n = max(1, -(-(v.bit_length() + 1) // 8))
    if n >= 256:
        return None
    return bytes([255, n]) + v.to_bytes(n, "little", signed=True)


def replay_writeInt(inputs, clause):
    from scenic.core import serialization as S

    v = int(inputs["value"])
    st = io.BytesIO()
    try:
        S.writeInt(v, st)
    except S.SerializationError:
        return None if ref_enc_int(v) is None else f"writeInt({v}) raised but the value is encodable"
    exp = ref_enc_int(v)
    if exp is None:
        return f"writeInt({v}) did not raise for an unencodable value"
    if st.getvalue() != exp:
        return f"writeInt({v}) wrote {st.getvalue()!r}, format says {exp!r}"
    return None


def replay_readInt(inputs, clause):
    from scenic.core import serialization as S

    data = bytes(inputs["stream"]["data"])
    pos = inputs["stream"]["pos"]
    v = int(inputs["_v"])
    rest = data[pos:]
    enc = ref_enc_int(v)
    if enc is None:
        return None
    st = io.BytesIO(rest)
    try:
        r = S.readInt(st)
    except (IndexError, S.SerializationError):
        if rest[: len(enc)] == enc:
            return f"readInt raised on a complete encoding of {v}"
        return None
    except Exception as e:  # any other failure kind
        return f"readInt failed with {type(e).__name__} on {rest!r}"
    if rest[: len(enc)] == enc:
        if r != v or st.tell() != len(enc):
            return f"readInt decoded {r} (consumed {st.tell()}) from the encoding of {v}"
        return None
    if len(rest) < len(enc) and enc[: len(rest)] == rest:
        return f"readInt silently decoded {r} from {rest!r}, a strict prefix of enc_int({v}) = {enc!r}"
    return None
