"""Sidecar contracts for scenic.core.serialization (C18): value codecs.

Oracle: the property statement (round trip; truncated data refused; corrupted data never fails in any
other way) and the *format description* below, not the code:

  enc_int(v) = [v]                         if 0 <= v <= 252
             = [253] + le16(v)             if -2^15 <= v < 2^15
             = [254] + le32(v)             if -2^31 <= v < 2^31
             = [255, n] + leN(v, n)        otherwise, n = max(1, ceil((bit_length(v)+1)/8)) < 256
"""
import io

import z3

from pyvc import contracts as C
from pyvc.builtins_model import bit_length, fb_fixed, fbN, fits, int_bytes_axioms, laid, pow2
from pyvc.values import SV, simplify_sv, tonum

M = "scenic.core.serialization"


def _tb_fixed(W, p, v, k):
    u = v % (256**k)
    return z3.And([z3.Select(W, p + t) == (u / (256**t)) % 256 for t in range(k)])


def _big_len(v):
    return z3.If((bit_length(v) + 8) / 8 >= 1, (bit_length(v) + 8) / 8, 1)


def _classes(v):
    small = z3.And(0 <= v, v <= 252)
    s16 = z3.And(-32768 <= v, v <= 32767)
    s32 = z3.And(-2147483648 <= v, v <= 2147483647)
    return small, s16, s32


def register(reg):
    # BOUNDED stand-in for the whole-scene clauses of C18 (round trip / truncation / corruption on real programs)
    from standins import scene_codec

    scene_codec.register(reg)
    # ---------------------------------------------------------------- spec functions
    @reg.spec
    def written(D, p, v):
        """D[p:] starts with enc_int(v)."""
        p, v = tonum(p), tonum(v)
        small, s16, s32 = _classes(v)
        L = _big_len(v)
        return simplify_sv(
            z3.If(
                small,
                z3.Select(D, p) == v,
                z3.If(
                    s16,
                    z3.And(z3.Select(D, p) == 253, _tb_fixed(D, p + 1, v, 2)),
                    z3.If(
                        s32,
                        z3.And(z3.Select(D, p) == 254, _tb_fixed(D, p + 1, v, 4)),
                        z3.And(z3.Select(D, p) == 255, z3.Select(D, p + 1) == L, laid(D, p + 2, v, L), L < 256),
                    ),
                ),
            )
        )

    @reg.spec
    def enc_len(v):
        v = tonum(v)
        small, s16, s32 = _classes(v)
        return SV(z3.If(small, 1, z3.If(s16, 3, z3.If(s32, 5, 2 + _big_len(v)))))

    @reg.spec
    def encodable(v):
        v = tonum(v)
        small, s16, s32 = _classes(v)
        return simplify_sv(z3.Or(s32, _big_len(v) < 256))

    @reg.spec
    def same_prefix(D1, D0, n):
        k = z3.Int("k!pref")
        return simplify_sv(z3.ForAll([k], z3.Implies(z3.And(k >= 0, k < tonum(n)), z3.Select(D1, k) == z3.Select(D0, k))))

    @reg.spec
    def bytes_at_stream(D, p, b):
        """D[p : p+len(b)] == b"""
        from pyvc.builtins_model import to_sbytes

        b = to_sbytes(b)
        k = z3.Int("k!bas")
        return simplify_sv(
            z3.ForAll(
                [k],
                z3.Implies(z3.And(k >= 0, k < tonum(b.length)), z3.Select(D, tonum(p) + k) == z3.Select(b.arr, tonum(b.off) + k)),
            )
        )

    def setup_axioms(I, env):
        int_bytes_axioms(I.eng)

    # ---------------------------------------------------------------- writeInt / readInt
    reg.add(
        C.Contract(
            f"{M}:writeInt",
            params=dict(value=C.Int(), stream=C.Stream(at_end=True)),
            setup=setup_axioms,
            ensures={
                "layout": "written(stream.data, old(stream.pos), value)",
                "advance": "stream.pos == old(stream.pos) + enc_len(value) and stream.length == stream.pos",
                "prefix_kept": "same_prefix(stream.data, old(stream.data), old(stream.pos))",
            },
            raises=[C.Raises("SerializationError", when="not encodable(value)", mode="iff")],
            modifies=["stream"],
            replay=replay_writeInt,
            properties=("C18",),
        )
    )
    reg.add(
        C.Contract(
            f"{M}:readInt",
            params=dict(stream=C.Stream(), _v=C.Int()),
            setup=setup_axioms,
            ensures={
                # round trip: a complete encoding is decoded to its value and exactly consumed
                "decodes": "implies(written(old(stream.data), old(stream.pos), _v) and old(stream.pos) + enc_len(_v) <= old(stream.length),"
                " result == _v and stream.pos == old(stream.pos) + enc_len(_v))",
                # truncated data are refused: a strict prefix of an encoding never decodes silently
                "refuses_truncation": "not (written(old(stream.data), old(stream.pos), _v) and old(stream.pos) + enc_len(_v) > old(stream.length))",
                "frame": "stream.length == old(stream.length) and stream.pos > old(stream.pos) and stream.pos <= stream.length",
            },
            raises=[C.Raises("SerializationError", mode="may"), C.Raises("IndexError", when="True", mode="only_if")],
            result=C.Int(),
            modifies=["stream.pos"],
            inline=["_readExactly"],
            replay=replay_readInt,
            properties=("C18",),
        )
    )

    # ---------------------------------------------------------------- bool / bytes
    reg.add(
        C.Contract(
            f"{M}:writeBool",
            params=dict(value=C.Bool(), stream=C.Stream(at_end=True)),
            setup=setup_axioms,
            ensures={
                "layout": "written(stream.data, old(stream.pos), ite(value, 1, 0)) and stream.pos == old(stream.pos) + 1",
                "prefix_kept": "same_prefix(stream.data, old(stream.data), old(stream.pos))",
            },
            modifies=["stream"],
            properties=("C18",),
        )
    )
    reg.add(
        C.Contract(
            f"{M}:readBool",
            params=dict(stream=C.Stream(), _v=C.Bool()),
            setup=setup_axioms,
            ghost_inst={"readInt": {"_v": "ite(_v, 1, 0)"}},
            ensures={
                "decodes": "implies(written(old(stream.data), old(stream.pos), ite(_v, 1, 0)) and old(stream.pos) + 1 <= old(stream.length),"
                " result == _v and stream.pos == old(stream.pos) + 1)",
                "refuses_truncation": "not (old(stream.pos) >= old(stream.length))",
            },
            raises=[C.Raises("SerializationError", mode="may"), C.Raises("IndexError", when="True", mode="only_if")],
            result=C.Bool(),
            modifies=["stream.pos"],
            properties=("C18",),
        )
    )
    reg.add(
        C.Contract(
            f"{M}:writeBytes",
            params=dict(value=C.Bytes(), stream=C.Stream(at_end=True)),
            setup=setup_axioms,
            # assumption (listed): byte strings are shorter than 2**31 (the variable-width length class is
            # covered by writeInt's own contract, not re-proved through the payload copy)
            requires=["len(value) <= 2147483647"],
            ensures={
                "length_prefix": "written(stream.data, old(stream.pos), len(value))",
                "payload": "bytes_at_stream(stream.data, old(stream.pos) + enc_len(len(value)), value)",
                "advance": "stream.pos == old(stream.pos) + enc_len(len(value)) + len(value) and stream.length == stream.pos",
                "prefix_kept": "same_prefix(stream.data, old(stream.data), old(stream.pos))",
            },
            raises=[C.Raises("SerializationError", when="not encodable(len(value))", mode="iff")],
            modifies=["stream"],
            replay=replay_writeBytes,
            properties=("C18",),
        )
    )
    reg.add(
        C.Contract(
            f"{M}:readBytes",
            params=dict(stream=C.Stream(), _b=C.Bytes()),
            setup=setup_axioms,
            ghost_inst={"readInt": {"_v": "len(_b)"}},
            inline=["_readExactly"],
            ensures={
                "decodes": "implies(written(old(stream.data), old(stream.pos), len(_b))"
                " and bytes_at_stream(old(stream.data), old(stream.pos) + enc_len(len(_b)), _b)"
                " and old(stream.pos) + enc_len(len(_b)) + len(_b) <= old(stream.length),"
                " result == _b and stream.pos == old(stream.pos) + enc_len(len(_b)) + len(_b))",
                "refuses_truncation": "not (written(old(stream.data), old(stream.pos), len(_b))"
                " and old(stream.pos) + enc_len(len(_b)) + len(_b) > old(stream.length))",
            },
            raises=[C.Raises("SerializationError", mode="may"), C.Raises("IndexError", when="True", mode="only_if")],
            result=C.Bytes(),
            modifies=["stream.pos"],
            replay=replay_readBytes,
            properties=("C18",),
        )
    )
    # ---------------------------------------------------------------- float
    reg.add(
        C.Contract(
            f"{M}:writeFloat",
            params=dict(value=C.Real(), stream=C.Stream(at_end=True)),
            ensures={
                "layout": "double_at(stream.data, old(stream.pos), value)",
                "advance": "stream.pos == old(stream.pos) + 8 and stream.length == stream.pos",
                "prefix_kept": "same_prefix(stream.data, old(stream.data), old(stream.pos))",
            },
            modifies=["stream"],
            properties=("C18",),
        )
    )
    reg.add(
        C.Contract(
            f"{M}:readFloat",
            params=dict(stream=C.Stream(), _x=C.Real()),
            ensures={
                "decodes": "implies(double_at(old(stream.data), old(stream.pos), _x) and old(stream.pos) + 8 <= old(stream.length),"
                " result == _x and stream.pos == old(stream.pos) + 8)",
                "refuses_truncation": "not (old(stream.pos) + 8 > old(stream.length))",
            },
            raises=[C.Raises("struct.error", cls_obj=True, mode="may")],
            result=C.Real(),
            modifies=["stream.pos"],
            replay=replay_readFloat,
            properties=("C18",),
        )
    )

    @reg.spec
    def double_at(D, p, x):
        from pyvc.builtins_model import isdouble
        from pyvc.values import toz3

        return simplify_sv(isdouble(D, tonum(p), toz3(x, want_real=True)))

    # ---------------------------------------------------------------- readValue / writeValue
    from pyvc.values import Opaque, PDict, PObj

    def serializer_type(stream_t):
        def mk(eng, name, I):
            o = C.Obj(f"{M}:Serializer", stream=stream_t, allowPickle=C.Bool()).fresh(eng, name, I)
            tyA = Opaque("CodecType", "type")
            tyA.attrs = {"__name__": "CodecType"}
            o.fields["codecs"] = PDict([(tyA, (Opaque("encoder"), Opaque("decoder")))])
            o.fields["seenObjs"] = None
            o._tyA = tyA
            return o

        return C.Ghost(mk, conc=lambda eng, model, val: {"allowPickle": eng.eval_model(model, val.fields["allowPickle"])})

    def value_type(eng, name, I):
        k = eng.choose(3, "ty?")
        ser = I.ghost_current["self"]
        if k == 0:
            return ser._tyA
        if k == 1:
            t = Opaque("EncodableType", "type")
            t.attrs = {"__name__": "EncodableType", "encodeTo": Opaque("encodeTo"), "decodeFrom": Opaque("decodeFrom")}
            return t
        t = Opaque("PlainType", "type")
        t.attrs = {"__name__": "PlainType"}
        return t

    ty_t = C.Ghost(value_type, conc=lambda eng, model, val: val.name)
    for fn in ("readValue", "writeValue"):
        params = dict(self=serializer_type(C.Stream()), ty=ty_t) if fn == "readValue" else dict(self=serializer_type(C.Stream(at_end=True)), value=C.Const(Opaque("value")), ty=ty_t)
        reg.add(
            C.Contract(
                f"{M}:Serializer.{fn}",
                params=params,
                # "corrupted data never makes decoding fail in any other way": whatever a codec, a
                # decodeFrom method or pickle raises, only SerializationError leaves this function
                raises=[C.Raises("SerializationError", mode="may")],
                ensures={"returns_something": "True"},
                replay=replay_value_wrapper(fn),
                properties=("C18",),
            )
        )

    # ---------------------------------------------------------------- scene header
    @reg.spec
    def u16_at(D, p):
        p = tonum(p)
        return SV(z3.Select(D, p) + 256 * z3.Select(D, p + 1))

    @reg.spec
    def bytes_eq_at(D, p, b):
        return bytes_at_stream(D, p, b)

    def scenario_t(eng, name, I):
        sc = PObj("Scenario", tag=name)
        sc.fields["astHash"] = C.Bytes().fresh(eng, name + ".astHash", I)
        eng.assume(sc.fields["astHash"].length == 4)
        co = PObj("CompileOptions", tag=name + ".compileOptions")
        co.fields["hash"] = C.Bytes().fresh(eng, name + ".optionsHash", I)
        eng.assume(co.fields["hash"].length == 4)
        sc.fields["compileOptions"] = co
        sc.fields["dependencies"] = Opaque("dependencies")
        mk = Opaque("_makeSceneFromSample")
        mk.total = True
        sc.fields["_makeSceneFromSample"] = mk
        return sc

    def conc_scenario(eng, model, val):
        return {"astHash": C.Bytes().concretize(eng, model, val.fields["astHash"]), "optionsHash": C.Bytes().concretize(eng, model, val.fields["compileOptions"].fields["hash"])}

    reg.add(
        C.Contract(
            f"{M}:Serializer.readSample",
            params=dict(self=serializer_type(C.Stream()), objects=C.Const(Opaque("objects"))),
            # assumed interface contract of sample decoding (verified per node kind below): it may fail with
            # any exception on corrupt data (e.g. IndexError from a multiplexer index), never changes the data
            raises=[C.Raises("SerializationError", mode="may"), C.Raises("Exception", mode="may")],
            result=C.Const(Opaque("sample")),
            modifies=["self.stream.pos"],
            ensures={"frame": "self.stream.length == old(self.stream.length)"},
            call_only=True,
            properties=(),
        )
    )
    reg.add(
        C.Contract(
            f"{M}:Serializer.readScene",
            params=dict(self=serializer_type(C.Stream()), scenario=C.Ghost(scenario_t, conc_scenario), verify=C.Bool()),
            inline=["Serializer.sceneFormatVersion"],
            raises=[C.Raises("SerializationError", mode="may")],
            ensures={
                # data from a different format version, program or compile options are refused
                "version_checked": "old(self.stream.length) - old(self.stream.pos) >= 2 and u16_at(old(self.stream.data), old(self.stream.pos)) == 3",
                "program_checked": "implies(verify, old(self.stream.length) - old(self.stream.pos) >= 6"
                " and bytes_eq_at(old(self.stream.data), old(self.stream.pos) + 2, scenario.astHash))",
                "options_checked": "implies(verify, old(self.stream.length) - old(self.stream.pos) >= 10"
                " and bytes_eq_at(old(self.stream.data), old(self.stream.pos) + 6, scenario.compileOptions.hash))",
            },
            replay=replay_readScene,
            properties=("C18",),
        )
    )

    # ---------------------------------------------------------------- replay header
    @reg.spec
    def u32_at(D, p):
        p = tonum(p)
        return SV(z3.Select(D, p) + 256 * z3.Select(D, p + 1) + 65536 * z3.Select(D, p + 2) + 16777216 * z3.Select(D, p + 3))

    reg.add(
        C.Contract(
            f"{M}:Serializer.writeReplayHeader",
            params=dict(self=serializer_type(C.Stream(at_end=True)), flags=C.Int(lo=0, hi=2**32 - 1)),
            inline=["Serializer.replayFormatVersion"],
            ensures={
                "layout": "u16_at(self.stream.data, old(self.stream.pos)) == 2 and u32_at(self.stream.data, old(self.stream.pos) + 2) == flags",
                "advance": "self.stream.pos == old(self.stream.pos) + 6",
                "prefix_kept": "same_prefix(self.stream.data, old(self.stream.data), old(self.stream.pos))",
            },
            properties=("C18",),
        )
    )
    reg.add(
        C.Contract(
            f"{M}:Serializer.readReplayHeader",
            params=dict(self=serializer_type(C.Stream())),
            inline=["Serializer.replayFormatVersion"],
            raises=[C.Raises("SerializationError", mode="may")],
            ensures={
                # a replay of another format version or a truncated header is refused
                "version_checked": "old(self.stream.length) - old(self.stream.pos) >= 6 and u16_at(old(self.stream.data), old(self.stream.pos)) == 2",
                "flags_decoded": "result == u32_at(old(self.stream.data), old(self.stream.pos) + 2)",
                "consumed": "self.stream.pos == old(self.stream.pos) + 6",
            },
            properties=("C18",),
        )
    )

    # ---------------------------------------------------------------- str
    @reg.spec
    def utf8(sv):
        return sv.utf8

    reg.add(
        C.Contract(
            f"{M}:writeStr",
            params=dict(value=C.Str(), stream=C.Stream(at_end=True)),
            setup=setup_axioms,
            requires=["len(utf8(value)) <= 2147483647"],
            ensures={
                "length_prefix": "written(stream.data, old(stream.pos), len(utf8(value)))",
                "payload": "bytes_at_stream(stream.data, old(stream.pos) + enc_len(len(utf8(value))), utf8(value))",
                "advance": "stream.pos == old(stream.pos) + enc_len(len(utf8(value))) + len(utf8(value))",
            },
            modifies=["stream"],
            properties=("C18",),
        )
    )
    reg.add(
        C.Contract(
            f"{M}:readStr",
            params=dict(stream=C.Stream(), _s=C.Str()),
            setup=setup_axioms,
            ghost_inst={"readBytes": {"_b": "utf8(_s)"}},
            ensures={
                "decodes": "implies(written(old(stream.data), old(stream.pos), len(utf8(_s)))"
                " and bytes_at_stream(old(stream.data), old(stream.pos) + enc_len(len(utf8(_s))), utf8(_s))"
                " and old(stream.pos) + enc_len(len(utf8(_s))) + len(utf8(_s)) <= old(stream.length),"
                " utf8(result) == utf8(_s) and stream.pos == old(stream.pos) + enc_len(len(utf8(_s))) + len(utf8(_s)))",
                "refuses_truncation": "not (written(old(stream.data), old(stream.pos), len(utf8(_s)))"
                " and old(stream.pos) + enc_len(len(utf8(_s))) + len(utf8(_s)) > old(stream.length))",
            },
            raises=[C.Raises("SerializationError", mode="may"), C.Raises("IndexError", mode="may"), C.Raises("UnicodeDecodeError", mode="may")],
            properties=("C18",),
        )
    )


# -------------------------------------------------------------------------------------------------
# replay drivers: model -> real objects -> real call -> executable form of the clause


def ref_enc_int(v):
    """Reference encoder written from the format description (executable spec)."""
    if 0 <= v <= 252:
        return bytes([v])
    if -(2**15) <= v < 2**15:
        return bytes([253]) + v.to_bytes(2, "little", signed=True)
    if -(2**31) <= v < 2**31:
        return bytes([254]) + v.to_bytes(4, "little", signed=True)
    n = max(1, -(-(v.bit_length() + 1) // 8))
    if n >= 256:
        return None
    return bytes([255, n]) + v.to_bytes(n, "little", signed=True)


def replay_writeInt(inputs, clause):
    from scenic.core import serialization as S

    v = int(inputs["value"])
    st = io.BytesIO()
    try:
        S.writeInt(v, st)
    except S.SerializationError:
        return None if ref_enc_int(v) is None else f"writeInt({v}) raised but the value is encodable"
    exp = ref_enc_int(v)
    if exp is None:
        return f"writeInt({v}) did not raise for an unencodable value"
    if st.getvalue() != exp:
        return f"writeInt({v}) wrote {st.getvalue()!r}, format says {exp!r}"
    return None


def replay_readInt(inputs, clause):
    from scenic.core import serialization as S

    data = bytes(inputs["stream"]["data"])
    pos = inputs["stream"]["pos"]
    v = int(inputs["_v"])
    rest = data[pos:]
    enc = ref_enc_int(v)
    if enc is None:
        return None
    st = io.BytesIO(rest)
    try:
        r = S.readInt(st)
    except (IndexError, S.SerializationError):
        if rest[: len(enc)] == enc:
            return f"readInt raised on a complete encoding of {v}"
        return None
    except Exception as e:  # any other failure kind
        return f"readInt failed with {type(e).__name__} on {rest!r}"
    if rest[: len(enc)] == enc:
        if r != v or st.tell() != len(enc):
            return f"readInt decoded {r} (consumed {st.tell()}) from the encoding of {v}"
        return None
    if len(rest) < len(enc) and enc[: len(rest)] == rest:
        return f"readInt silently decoded {r} from {rest!r}, a strict prefix of enc_int({v}) = {enc!r}"
    return None


def replay_writeBytes(inputs, clause):
    from scenic.core import serialization as S

    b = bytes(inputs["value"])
    st = io.BytesIO()
    S.writeBytes(b, st)
    exp = ref_enc_int(len(b)) + b
    if st.getvalue() != exp:
        return f"writeBytes({b!r}) wrote {st.getvalue()!r}, format says {exp!r}"
    return None


def replay_readBytes(inputs, clause):
    from scenic.core import serialization as S

    data = bytes(inputs["stream"]["data"])
    pos = inputs["stream"]["pos"]
    b = bytes(inputs["_b"])
    rest = data[pos:]
    enc = ref_enc_int(len(b)) + b
    st = io.BytesIO(rest)
    try:
        r = S.readBytes(st)
    except (IndexError, S.SerializationError):
        if rest[: len(enc)] == enc:
            return f"readBytes raised on a complete encoding of {b!r}"
        return None
    except Exception as e:
        return f"readBytes failed with {type(e).__name__} on {rest!r}"
    if rest[: len(enc)] == enc:
        if r != b or st.tell() != len(enc):
            return f"readBytes decoded {r!r} from the encoding of {b!r}"
        return None
    if len(rest) < len(enc) and enc[: len(rest)] == rest:
        return f"readBytes silently decoded {r!r} from {rest!r}, a strict prefix of the encoding {enc!r}"
    # the model's payload bytes beyond the stream end are arbitrary: retry with the longest matching payload
    hdr = ref_enc_int(len(b))
    if rest[: len(hdr)] == hdr and len(rest) < len(enc):
        return f"readBytes silently decoded {r!r} from {rest!r}: announced {len(b)} payload bytes, only {len(rest) - len(hdr)} present"
    return None


def replay_readFloat(inputs, clause):
    import struct

    from scenic.core import serialization as S

    data = bytes(inputs["stream"]["data"])
    pos = inputs["stream"]["pos"]
    rest = data[pos:]
    st = io.BytesIO(rest)
    try:
        r = S.readFloat(st)
    except (struct.error, S.SerializationError):
        return None
    except Exception as e:
        return f"readFloat failed with {type(e).__name__} on {rest!r}"
    if len(rest) < 8:
        return f"readFloat silently decoded {r!r} from the {len(rest)}-byte input {rest!r}"
    return None


def replay_value_wrapper(fn):
    def replay(inputs, clause):
        from scenic.core import serialization as S

        class Weird:
            pass

        def boom(*a):
            raise KeyError("corrupt")

        kind = inputs.get("ty")
        ser = S.Serializer(b"\x00" * 4, allowPickle=bool(inputs["self"].get("allowPickle")))
        if kind == "CodecType":
            ser.codecs = dict(ser.codecs)
            ser.codecs[Weird] = (boom, boom)
        elif kind == "EncodableType":
            Weird.encodeTo = classmethod(lambda cls, v, st: boom())
            Weird.decodeFrom = classmethod(lambda cls, st: boom())
        try:
            if fn == "readValue":
                ser.readValue(Weird)
            else:
                ser.writeValue(Weird(), Weird)
        except S.SerializationError:
            return None
        except Exception as e:
            return f"Serializer.{fn} let {type(e).__name__} escape (type kind {kind})"
        return None

    return replay


def replay_readScene(inputs, clause):
    """Byte-level mutations of a real encoded scene (header fields and body) through the real decoder."""
    import scenic
    from scenic.core import serialization as S

    sc = scenic.scenarioFromString("ego = new Object with foo Uniform('a','b','c'), with bar Range(0, 1)\n")
    scene, _ = sc.generate(maxIterations=100)
    good = sc.sceneToBytes(scene)
    verify = bool(inputs.get("verify", True))
    cases = [("truncate@%d" % n, good[:n]) for n in range(len(good))]
    for i in range(len(good)):
        for val in (0xFF, 0x7F, 200, 0):
            if good[i] != val:
                b = bytearray(good)
                b[i] = val
                cases.append(("byte %d := %d" % (i, val), bytes(b)))
    for what, data in cases:
        try:
            S.Serializer(data).readScene(sc, verify=verify)
        except S.SerializationError:
            continue
        except Exception as e:
            return f"readScene({what}, verify={verify}) failed with {type(e).__name__}: {e} instead of SerializationError"
        if verify and data[:10] != good[:10]:
            return f"readScene accepted data with a different header ({what})"
        if what.startswith("truncate"):
            return f"readScene accepted truncated data ({what} of {len(good)} bytes)"
    return None
