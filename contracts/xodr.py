"""Sidecar contracts for the link-building code of the OpenDRIVE importer (C20).

Oracle: the property statement ("links between elements are reciprocal: predecessor/successor, lane-section-group-road
ownership, adjacent lanes, opposite groups") and the documentation of the element classes in
scenic.domains.driving.roads (`Road.sections` "ordered from start to end", `Lane.sections` "in order from start to end",
`RoadSection.lanes` "in order, with lane 0 being the rightmost", `LaneSection.openDriveID` "number of lanes to left of
center, with 1 being the first lane left of the centerline and -1 being the first lane to the right",
`Network.elements` "all network elements, indexed by unique ID").

The clauses are written ONCE (`road_clauses`, `network_clauses`) over an accessor, and are evaluated on the model objects the
verifier obtains by interpreting the real carrier and -- in the replay drivers -- on the real objects the real parser builds
from a small generated .xodr text.

Trusted (reg.trust): the attrs-generated constructors (pyvc/models_xodr.py) and abstract geometry (polygons / regions are
tokens; construction-time geometric assertions of the element classes are answered positively -- containment is carried by the
bounded stand-in)."""
import itertools
import os

from pyvc import contracts as C
from pyvc import extract
from pyvc import models_xodr as MX
from pyvc.interp import BuiltinFn, ClassVal
from pyvc.values import Opaque, PDict, PExc, PList, PObj, PyvcError

XODR = "scenic.formats.opendrive.xodr_parser"
ROADS = "scenic.domains.driving.roads"

# ------------------------------------------------------------------------------------------------ catalogue of road layouts
# a layout = list of lane sections; a lane section = {OpenDRIVE lane id: (predecessor id, successor id)} (all lanes drivable)
_A, _B, _C3, _D, _E = (-1,), (-1, 1), (-2, -1, 1), (-2, -1), (-2, -1, 1, 2)
_SETS = [_A, _B, _C3, _D, _E]


def _ident(X, Y):
    return {i: i for i in X if i in Y}


# (lanes before, lanes after, successor ids of the lanes before, predecessor ids of the lanes after)
def _one_to_one(X, Y, m):
    return (X, Y, dict(m), {v: k for k, v in m.items()})


TRANSITIONS = (
    [_one_to_one(X, X, _ident(X, X)) for X in _SETS]
    + [
        _one_to_one(_C3, _B, {-1: -1, 1: 1}),  # outer right lane ends
        _one_to_one(_C3, _B, {-2: -1, 1: 1}),  # inner right lane ends, the outer one moves in
        _one_to_one(_B, _C3, {-1: -1, 1: 1}),  # a new outer right lane
        _one_to_one(_B, _C3, {-1: -2, 1: 1}),
        _one_to_one(_D, _A, {-1: -1}),
        _one_to_one(_A, _D, {-1: -2}),
        _one_to_one(_E, _B, {-1: -1, 1: 1}),
        _one_to_one(_B, _E, {-1: -1, 1: 2}),  # the left lane moves out
        _one_to_one(_E, _C3, {-2: -2, -1: -1, 1: 1}),
        _one_to_one(_C3, _E, {-2: -2, -1: -1, 1: 1}),
        _one_to_one(_A, _B, {-1: -1}),  # a backward lane begins
        _one_to_one(_B, _A, {-1: -1}),
    ]
    + [
        (_D, _A, {-2: -1, -1: -1}, {-1: -1}),  # two lanes merge (the link of lane -2 is not one-to-one)
        (_B, _E, {-1: -1, 1: 1}, {-1: -1, 1: 1, 2: 1}),  # backward lanes 1 and 2 merge into 1 (seen along the road: a split)
        (_A, _D, {-1: -2}, {-2: -1, -1: -1}),  # lane -1 splits: it continues as -2 (its successor link), a new lane -1 opens beside it; both name -1 as predecessor
    ]
)


def layouts():
    out = [("1", [X], []) for X in _SETS]
    for k, t in enumerate(TRANSITIONS):
        out.append((f"2.{k}", [t[0], t[1]], [t]))
    for k1, t1 in enumerate(TRANSITIONS):
        for k2, t2 in enumerate(TRANSITIONS):
            if t1[1] == t2[0] and not (t1[0] == t1[1] and t2[0] == t2[1]):
                out.append((f"3.{k1}.{k2}", [t1[0], t1[1], t2[1]], [t1, t2]))
    return out


def layout_sections(layout, outer):
    """[{id: (pred, succ)}] ; `outer`: the first / last section link to lanes of the same id on neighbouring roads"""
    _, sets, trans = layout
    secs = []
    for i, X in enumerate(sets):
        d = {}
        for id_ in X:
            pred = trans[i - 1][3].get(id_) if i > 0 else (id_ if outer else None)
            succ = trans[i][2].get(id_) if i < len(sets) - 1 else (id_ if outer else None)
            d[id_] = (pred, succ)
        secs.append(d)
    return secs


LAYOUTS = layouts()

# ------------------------------------------------------------------------------------------------ .xodr text for the replays
SEC_LEN = 30.0


def xodr_text(roads, junctions=()):
    """roads: [dict(id, junction, x, y, hdg, sections=[{id: (pred, succ)}], pred=(kind, id, contact) | None, succ=...)]"""
    out = ['<?xml version="1.0" standalone="yes"?>', "<OpenDRIVE>", '<header revMajor="1" revMinor="4" name="" version="1.00"/>']
    for r in roads:
        n = len(r["sections"])
        length = r.get("length", SEC_LEN * n)
        out.append(f'<road name="r{r["id"]}" length="{length}" id="{r["id"]}" junction="{r.get("junction", -1)}">')
        out.append("<link>")
        for tag in ("pred", "succ"):
            l = r.get(tag)
            if l:
                cp = f' contactPoint="{l[2]}"' if l[0] == "road" else ""
                out.append(f'<{"predecessor" if tag == "pred" else "successor"} elementType="{l[0]}" elementId="{l[1]}"{cp}/>')
        out.append("</link>")
        out.append(f'<planView><geometry s="0" x="{r.get("x", 0.0)}" y="{r.get("y", 0.0)}" hdg="{r.get("hdg", 0.0)}" length="{length}"><line/></geometry></planView>')
        out.append("<lanes>")
        for i, sec in enumerate(r["sections"]):
            out.append(f'<laneSection s="{r["starts"][i] if "starts" in r else length * i / n}">')
            for side, ids in (("left", sorted((k for k in sec if k > 0), reverse=True)), ("right", sorted((k for k in sec if k < 0), reverse=True))):
                if side == "left":
                    pass
                if ids:
                    out.append(f"<{side}>")
                    for id_ in ids:
                        pred, succ = sec[id_][:2]
                        wa, wb = sec[id_][2] if len(sec[id_]) > 2 else (3.5, 0)  # width a + b * (s - start of the section)
                        out.append(f'<lane id="{id_}" type="driving" level="false"><link>')
                        if pred is not None:
                            out.append(f'<predecessor id="{pred}"/>')
                        if succ is not None:
                            out.append(f'<successor id="{succ}"/>')
                        out.append(f'</link><width sOffset="0" a="{wa}" b="{wb}" c="0" d="0"/></lane>')
                    out.append(f"</{side}>")
                if side == "left":
                    out.append('<center><lane id="0" type="none" level="false"/></center>')
            out.append("</laneSection>")
        out.append("</lanes></road>")
    for j in junctions:
        out.append(f'<junction id="{j["id"]}" name="j{j["id"]}">')
        for k, c in enumerate(j["connections"]):
            out.append(f'<connection id="{k}" incomingRoad="{c["incoming"]}" connectingRoad="{c["connecting"]}" contactPoint="{c["contact"]}">')
            for a, b in c.get("links", {}).items():
                out.append(f'<laneLink from="{a}" to="{b}"/>')
            out.append("</connection>")
        out.append("</junction>")
    out.append("</OpenDRIVE>")
    return "\n".join(out)


def chain_of_roads(secs, outer):
    """The road under test (id 2) along the x axis; with `outer` links: road 1 before it and road 3 after it (same lanes as
    the adjoining section, linked lane by lane on both sides)."""
    n = len(secs)
    mid = dict(id=2, x=100.0, y=0.0, sections=secs)
    if not outer:
        return [mid]
    first = {i: (None, i) for i in secs[0]}
    last = {i: (i, None) for i in secs[-1]}
    mid.update(pred=("road", 1, "end"), succ=("road", 3, "start"))
    return [
        dict(id=1, x=100.0 - SEC_LEN, y=0.0, sections=[first], succ=("road", 2, "start")),
        mid,
        dict(id=3, x=100.0 + SEC_LEN * n, y=0.0, sections=[last], pred=("road", 2, "end")),
    ]


SHORT_SEC = 0.4


def shape_splits(roads):
    """Geometry under which the real importer accepts a splitting lane: where two lanes of a lane section name the same
    predecessor, the lane section before it is SHORT_SEC long and the lane that is not the predecessor's successor opens with
    width 0 (tapering to 3.5 over its section)."""
    for r in roads:
        secs = r["sections"]
        lengths = [SEC_LEN] * len(secs)
        for i in range(1, len(secs)):
            preds = [v[0] for v in secs[i].values() if v[0] is not None]
            if len(preds) != len(set(preds)):
                lengths[i - 1] = SHORT_SEC
                for id_, v in list(secs[i].items()):
                    p = v[0]
                    if p is not None and preds.count(p) > 1 and secs[i - 1].get(p, (None, None))[1] != id_:
                        secs[i][id_] = (v[0], v[1], (0.0, 3.5 / SEC_LEN))
        if any(l != SEC_LEN for l in lengths):
            r["starts"] = [sum(lengths[:i]) for i in range(len(secs))]
            r["length"] = sum(lengths)


def parse_real(text, **options):
    """The REAL importer on the text: (RoadMap, Network)."""
    import tempfile
    import warnings

    from standins.frontend_mutants import fast_imports

    fast_imports()
    import scenic.domains.driving.roads as R

    with tempfile.TemporaryDirectory() as d:
        p = os.path.join(d, "m.xodr")
        with open(p, "w") as f:
            f.write(text)
        with warnings.catch_warnings():
            warnings.simplefilter("ignore")
            return R.Network.fromFile(p, useCache=False, writeCache=False, **options)


# ------------------------------------------------------------------------------------------------ the clauses
class Acc:
    """accessor over real objects"""

    def get(self, o, name):
        return getattr(o, name)

    def kind(self, o):
        return type(o).__name__ if hasattr(o, "uid") and hasattr(o, "polygons") else None

    def seq(self, v):
        return list(v) if v is not None else []

    def mapping(self, v):
        return dict(v)

    def lane_polygon_covers(self, lane, sections, where):
        for s in sections:
            extra = s.polygon.difference(lane.polygon.buffer(0.1)).area
            if extra > 1e-3 * max(s.polygon.area, 1e-9):
                return False
        return True

    def describe_polygon(self, lane):
        return f"a polygon with bounds {tuple(round(c, 2) for c in lane.polygon.bounds)}"


class ModelAcc(Acc):
    """accessor over the verifier's model objects"""

    def get(self, o, name):
        if not isinstance(o, PObj) or name not in o.fields:
            raise AttributeError(f"{o!r} has no attribute {name}")
        return o.fields[name]

    def kind(self, o):
        return o.cls.name if isinstance(o, PObj) and isinstance(o.cls, ClassVal) else None

    def seq(self, v):
        if isinstance(v, PList):
            return list(v.items)
        return list(v) if v is not None else []

    def mapping(self, v):
        if isinstance(v, PDict):
            return dict(zip(v.keys, v.vals))
        return dict(v)

    def lane_polygon_covers(self, lane, sections, where):
        members = lane.fields["polygon"].fields.get("members")
        return members is not None and sorted(members) == sorted((where[id(s)], s.fields["openDriveID"]) for s in sections)

    def describe_polygon(self, lane):
        return f"the union of the lane-section polygons (road section, lane id) {lane.fields['polygon'].fields.get('members')}"


def _has(seq, x):
    return any(x is y for y in seq)


def _uid(A, x):
    try:
        return A.get(x, "uid")
    except Exception:
        return repr(x)


def expected_neighbours(id_, ids):
    """From the OpenDRIVE numbering (ids grow from right to left across the road, 0 = centre line): the ids of the lanes to
    the left and right of lane `id_` as seen in ITS direction of travel (negative ids travel along the road)."""
    up = id_ + 1 if id_ + 1 != 0 else 1
    down = id_ - 1 if id_ - 1 != 0 else -1
    left, right = (up, down) if id_ < 0 else (down, up)
    return (left if left in ids else None), (right if right in ids else None)


def road_clauses(A, road, elements, drive_on_right=None):
    """[(clause, violation text)] of the per-road clauses of C20; `elements` = what toScenicRoad returned as all elements of the
    road (or None)."""
    bad = []

    def need(clause, cond, text):
        if not cond:
            bad.append((clause, text() if callable(text) else text))

    g, seq = A.get, A.seq
    sections = seq(g(road, "sections"))
    lanes = seq(g(road, "lanes"))
    groups = [x for x in (g(road, "forwardLanes"), g(road, "backwardLanes")) if x is not None]
    allls = []
    # ---- road sections: chain and ownership
    for i, s in enumerate(sections):
        need("back_pointers.road_section_names_its_road", g(s, "road") is road, lambda: f"section {_uid(A, s)} of road {_uid(A, road)} has road {_uid(A, g(s, 'road'))}")
        if i + 1 < len(sections):
            t = sections[i + 1]
            need("sections.successor_is_the_next_section", g(s, "_successor") is t, lambda: f"{_uid(A, s)}.successor is {_uid(A, g(s, '_successor'))}, the next section is {_uid(A, t)}")
            need("sections.predecessor_of_the_next_section_links_back", g(t, "_predecessor") is s, lambda: f"{_uid(A, t)}.predecessor is {_uid(A, g(t, '_predecessor'))}, expected {_uid(A, s)}")
        byid = A.mapping(g(s, "lanesByOpenDriveID"))
        sl = seq(g(s, "lanes"))
        need("sections.lanes_are_the_lanes_by_id_rightmost_first", [id(x) for x in sl] == [id(byid[k]) for k in sorted(byid)], lambda: f"{_uid(A, s)}.lanes = {[_uid(A, x) for x in sl]} for ids {sorted(byid)}")
        need("sections.forward_and_backward_lanes_split_by_direction", [id(x) for x in seq(g(s, "forwardLanes"))] == [id(byid[k]) for k in sorted(byid) if k < 0] and [id(x) for x in seq(g(s, "backwardLanes"))] == [id(byid[k]) for k in sorted(byid) if k > 0], lambda: f"{_uid(A, s)}: forward/backward lanes do not follow the sign of the ids {sorted(byid)}")
        for k, ls in byid.items():
            allls.append((i, k, ls, byid))
            need("back_pointers.lane_section_id_and_direction", g(ls, "openDriveID") == k and g(ls, "isForward") == (k < 0), lambda: f"{_uid(A, ls)} stored under id {k} has openDriveID {g(ls, 'openDriveID')}, isForward {g(ls, 'isForward')}")
    # ---- lane sections: ownership chain
    for i, k, ls, byid in allls:
        lane = g(ls, "lane")
        need("back_pointers.lane_section_names_lane_group_road", lane is not None and _has(lanes, lane) and _has(seq(g(lane, "sections")), ls) and g(ls, "group") is g(lane, "group") and g(ls, "road") is road, lambda: f"lane section {_uid(A, ls)}: lane {_uid(A, lane)}, group {_uid(A, g(ls, 'group'))}, road {_uid(A, g(ls, 'road'))}")
        owners = [l for l in lanes if _has(seq(g(l, "sections")), ls)]
        need("lanes.every_lane_section_is_in_exactly_one_lane", len(owners) == 1, lambda: f"lane section {_uid(A, ls)} is listed by {len(owners)} lanes")
    # ---- lanes: sections in travel order, ownership
    where = {id(ls): i for i, k, ls, byid in allls}
    for lane in lanes:
        ss = seq(g(lane, "sections"))
        need("lanes.have_sections", len(ss) > 0, lambda: f"lane {_uid(A, lane)} has no sections")
        need("back_pointers.lane_names_group_and_road", g(lane, "road") is road and _has(groups, g(lane, "group")) and _has(seq(g(g(lane, "group"), "lanes")), lane), lambda: f"lane {_uid(A, lane)}: group {_uid(A, g(lane, 'group'))}, road {_uid(A, g(lane, 'road'))}")
        for a, b in zip(ss, ss[1:]):
            need("lanes.sections_in_order.successor_is_the_next_section", g(a, "_successor") is b, lambda: f"lane {_uid(A, lane)}: {_uid(A, a)}.successor is {_uid(A, g(a, '_successor'))}, next in the list is {_uid(A, b)}")
            merging = [x for _, _, x, _ in allls if g(x, "_successor") is b]  # several lanes merge into b: its one predecessor link names one of them
            need("lanes.sections_in_order.predecessor_links_back", g(b, "_predecessor") is a or (len(merging) > 1 and _has(merging, g(b, "_predecessor"))), lambda: f"lane {_uid(A, lane)}: {_uid(A, b)}.predecessor is {_uid(A, g(b, '_predecessor'))}, previous in the list is {_uid(A, a)}")
            if id(a) in where and id(b) in where:
                step = where[id(b)] - where[id(a)]
                need("lanes.sections_in_order.consecutive_road_sections_in_travel_direction", step == (1 if g(a, "isForward") else -1), lambda: f"lane {_uid(A, lane)}: sections {_uid(A, a)}, {_uid(A, b)} lie in road sections {where[id(a)]}, {where[id(b)]}")
        need("containment.lane_polygon_is_the_polygon_of_its_sections", A.lane_polygon_covers(lane, ss, where), lambda: f"lane {_uid(A, lane)} consists of the sections {[_uid(A, x) for x in ss]}, its polygon is {A.describe_polygon(lane)}")
        for s in ss:
            need("lanes.sections_share_the_direction", g(s, "isForward") == g(ss[0], "isForward"), lambda: f"lane {_uid(A, lane)} mixes directions")
    # ---- lane groups
    for grp in groups:
        need("back_pointers.group_names_its_road", g(grp, "road") is road, lambda: f"group {_uid(A, grp)} has road {_uid(A, g(grp, 'road'))}")
        fw = grp is g(road, "forwardLanes")
        for lane in seq(g(grp, "lanes")):
            need("back_pointers.group_lanes_are_lanes_of_the_road_in_its_direction", _has(lanes, lane) and g(lane, "group") is grp and all(g(s, "isForward") == fw for s in seq(g(lane, "sections"))), lambda: f"group {_uid(A, grp)} lists {_uid(A, lane)}")
        opp = g(grp, "_opposite")
        other = [x for x in groups if x is not grp]
        need("opposite_groups.reciprocal", (opp is other[0] and g(opp, "_opposite") is grp) if other else opp is None, lambda: f"group {_uid(A, grp)}: opposite {_uid(A, opp)}")
    need("back_pointers.lane_groups_of_the_road", [id(x) for x in seq(g(road, "laneGroups"))] == [id(x) for x in groups], lambda: f"road {_uid(A, road)}.laneGroups")
    # ---- links between lane sections inside the road
    lsall = [ls for _, _, ls, _ in allls]
    for ls in lsall:
        nxt = g(ls, "_successor")
        if A.kind(nxt) == "LaneSection" and _has(lsall, nxt):
            rivals = [x for x in lsall if g(x, "_successor") is nxt]
            need("links.lane_section_successor_has_this_predecessor", g(nxt, "_predecessor") is ls or len(rivals) > 1, lambda: f"{_uid(A, ls)}.successor = {_uid(A, nxt)}, whose predecessor is {_uid(A, g(nxt, '_predecessor'))}")
            need("links.lane_section_successor_is_in_the_next_road_section_in_travel_direction", where[id(nxt)] - where[id(ls)] == (1 if g(ls, "isForward") else -1) and g(nxt, "isForward") == g(ls, "isForward"), lambda: f"{_uid(A, ls)}.successor = {_uid(A, nxt)}")
        prv = g(ls, "_predecessor")
        if A.kind(prv) == "LaneSection" and _has(lsall, prv):
            rivals = [x for x in lsall if g(x, "_predecessor") is prv]
            need("links.lane_section_predecessor_has_this_successor", g(prv, "_successor") is ls or len(rivals) > 1, lambda: f"{_uid(A, ls)}.predecessor = {_uid(A, prv)}, whose successor is {_uid(A, g(prv, '_successor'))}")
    # ---- adjacency of lane sections
    for i, k, ls, byid in allls:
        wl, wr = expected_neighbours(k, byid)
        left, right = g(ls, "_laneToLeft"), g(ls, "_laneToRight")
        need("adjacency.lane_to_left_follows_the_lane_numbering", left is (byid[wl] if wl is not None else None), lambda: f"{_uid(A, ls)} (id {k} of {sorted(byid)}): lane to left is {_uid(A, left)}, expected id {wl}")
        need("adjacency.lane_to_right_follows_the_lane_numbering", right is (byid[wr] if wr is not None else None), lambda: f"{_uid(A, ls)} (id {k} of {sorted(byid)}): lane to right is {_uid(A, right)}, expected id {wr}")
        for side, other in (("_laneToLeft", "_laneToRight"), ("_laneToRight", "_laneToLeft")):
            nb = g(ls, side)
            if nb is not None:
                need("adjacency.neighbour_is_in_the_same_road_section", _has(list(byid.values()), nb), lambda: f"{_uid(A, ls)}.{side} = {_uid(A, nb)} is not in the same road section")
                back = g(nb, other if g(nb, "isForward") == g(ls, "isForward") else side)
                need("adjacency.lane_sections_reciprocal", back is ls, lambda: f"{_uid(A, ls)}.{side} = {_uid(A, nb)}, whose reverse link is {_uid(A, back)}")
        adj = seq(g(ls, "adjacentLanes"))
        need("adjacency.adjacent_lane_sections_are_left_and_right", [id(x) for x in adj] == [id(x) for x in (left, right) if x is not None], lambda: f"{_uid(A, ls)}.adjacentLanes = {[_uid(A, x) for x in adj]}")
        for x in adj:
            need("adjacency.adjacent_lane_sections_symmetric", _has(seq(g(x, "adjacentLanes")), ls), lambda: f"{_uid(A, ls)} lists {_uid(A, x)} as adjacent but not conversely")
        if drive_on_right is not None:
            fast, slow = (left, right) if drive_on_right else (right, left)
            same = lambda x: x if (x is not None and g(x, "isForward") == g(ls, "isForward")) else None
            need("adjacency.faster_and_slower_lane_same_direction_by_driving_side", g(ls, "_fasterLane") is same(fast) and g(ls, "_slowerLane") is same(slow), lambda: f"{_uid(A, ls)}: faster {_uid(A, g(ls, '_fasterLane'))}, slower {_uid(A, g(ls, '_slowerLane'))} (drive on right: {drive_on_right})")
    # ---- adjacency of lanes: symmetric and per lane section
    for lane in lanes:
        adj = seq(g(lane, "adjacentLanes"))
        want = []
        for s in seq(g(lane, "sections")):
            for x in seq(g(s, "adjacentLanes")):
                if not _has(want, g(x, "lane")):
                    want.append(g(x, "lane"))
        need("adjacency.lanes_adjacent_iff_some_of_their_sections_are", all(_has(adj, x) for x in want) and all(_has(want, x) for x in adj), lambda: f"lane {_uid(A, lane)}.adjacentLanes = {[_uid(A, x) for x in adj]}, its sections are adjacent to sections of {[_uid(A, x) for x in want]}")
        for x in adj:
            need("adjacency.lanes_symmetric", _has(seq(g(x, "adjacentLanes")), lane), lambda: f"lane {_uid(A, lane)} lists {_uid(A, x)} as adjacent but not conversely")
    # ---- element list
    if elements is not None:
        els = seq(elements)
        mine = sections + lsall + lanes + groups + [road]
        for x in mine:
            n = sum(1 for y in els if y is x)
            need("elements.every_element_of_the_road_is_returned_once", n == 1, lambda: f"{_uid(A, x)} occurs {n} times in the element list")
        uids = [g(x, "uid") for x in els]
        need("elements.uids_are_unique_and_set", all(u is not None for u in uids) and len(set(uids)) == len(uids), lambda: f"uids {uids}")
    return bad


def excused_exceptions(secs):
    """Layouts for which the importer builds no network at all (outside C20's statement, which speaks about the networks
    that ARE built): decided from the layout alone."""
    out = set()
    ids = {k for d in secs for k in d}
    if (any(k < 0 for k in ids) and not any(k < 0 for k in secs[0])) or (any(k > 0 for k in ids) and not any(k > 0 for k in secs[-1])):
        out.add("IndexError")  # lanes of one direction are absent from the first lane section in their direction of travel
    for d in secs:
        succs = [v[1] for v in d.values() if v[1] is not None]
        preds = [v[0] for v in d.values() if v[0] is not None]
        if (d is not secs[-1] and len(succs) != len(set(succs))) or (d is not secs[0] and len(preds) != len(set(preds))):
            out.add("AssertionError")  # merging / splitting lanes (links that are not one-to-one)
    return out


CLAUSES_ROAD = None  # filled lazily: the clause names (for stable obligation names)


def clause_names(fn_src_names):
    return fn_src_names


LINK_KINDS = ("lane_section", "lane", "lane_group")


def _clause_list(func):
    import ast as _ast
    import inspect

    names = []
    for n in _ast.walk(_ast.parse(inspect.getsource(func))):
        if isinstance(n, _ast.Call) and isinstance(n.func, _ast.Name) and n.func.id == "need" and n.args:
            if isinstance(n.args[0], _ast.Constant):
                found = [n.args[0].value]
            elif isinstance(n.args[0], _ast.JoinedStr):  # clause names parametrised by the kind of element
                found = ["".join(v.value if isinstance(v, _ast.Constant) else kind for v in n.args[0].values) for kind in LINK_KINDS]
            else:
                found = []
            for f in found:
                if f not in names:
                    names.append(f)
    return names


# ------------------------------------------------------------------------------------------------ replay drivers
def _parse_inputs(inputs):
    import ast as _ast

    lay = inputs.get("layout")
    if isinstance(lay, str):
        try:
            lay = _ast.literal_eval(lay)
        except (ValueError, SyntaxError):
            return None
    return lay


def replay_road(inputs, clause):
    """The REAL parser on a generated .xodr with the road layout of the counter-model; the per-road clauses on the real objects."""
    secs = _parse_inputs(inputs)
    if not secs:
        return None
    outer = bool(inputs.get("outer_links"))
    dor = inputs.get("drive_on_right")
    roads = chain_of_roads(secs, outer)
    shape_splits(roads)
    text = xodr_text(roads)
    try:
        net = parse_real(text)
    except Exception:
        return None  # no network is built: a robustness problem, outside C20's statement (see the note of the contract)
    A = Acc()
    road = next(r for r in net.allRoads if r.id == 2)
    bad = road_clauses(A, road, None, drive_on_right=True)
    short = clause.split("#")[-1]
    mid = next(r for r in roads if r["id"] == 2)
    for c, text_ in bad:
        if c == short:
            return f"layout {mid['sections']} (lane sections start at {mid.get('starts', 'equal distances')}, outer links: {outer}): {text_}"
    return None


# ------------------------------------------------------------------------------------------------
def register(reg):
    from contracts.common import repo_class

    reg.trust("attrs", "attr.s(auto_attribs=True, kw_only=True) constructors: one keyword per annotated attribute (leading underscore stripped), class-body defaults, then the real __attrs_post_init__")
    reg.trust("road geometry", "polygons / PolylineRegion / PolygonalRegion / buffer_union / cleanChain are tokens; containsRegion and polygon.overlaps answer as the construction-time assertions expect (containment is in the bounded stand-in)")
    MX.install_geometry_tokens(reg)
    reg.trust("enum", "enum.auto() gives one distinct constant per member")
    MX.install_enum(reg)
    MX.install_fstrings(reg)  # uids are f-strings over concrete road / section / lane numbers
    for cn in ("LaneSection", "RoadSection", "Lane", "LaneGroup", "Road", "Sidewalk", "Shoulder", "Intersection", "Maneuver", "Network", "Signal", "PedestrianCrossing"):
        reg.constructors[f"{ROADS}:{cn}"] = MX.attrs_ctor

    road_names = _clause_list(road_clauses)

    # ================================================================================ Road.toScenicRoad
    def setup_road(I, env):
        eng = I.eng
        lay = LAYOUTS[eng.choose(len(LAYOUTS), "road layout")]
        outer = eng.choose(2, "links to neighbouring roads?") == 1
        dor = eng.choose(2, "drive on right?") == 1
        secs = layout_sections(lay, outer)
        road = make_xodr_road(repo_class, 2, secs, dor)
        env.vars.update(self=road, tolerance=0.05, _secs=secs, _dor=dor, _outer=outer)
        eng.input_syms.append(("layout", C.Const(None), secs))
        eng.input_syms.append(("outer_links", C.Const(None), outer))
        eng.input_syms.append(("drive_on_right", C.Const(None), dor))

    def post_road(I, env, outcome):
        eng = I.eng
        n = "xodr_parser.Road.toScenicRoad"
        if outcome[0] != "return":
            exc = outcome[1]
            name = getattr(exc.cls, "name", getattr(exc.cls, "__name__", str(exc.cls)))
            eng.check(f"{n}#no_exception", name in excused_exceptions(env.vars["_secs"]), detail=f"{name}{exc.args!r}")
            return
        road, elements = outcome[1]
        try:
            bad = road_clauses(ModelAcc(), road, elements, drive_on_right=env.vars["_dor"])
        except AttributeError as e:
            eng.check(f"{n}#elements_fully_initialised", False, detail=str(e))
            return
        first = {}
        for c, text in bad:
            first.setdefault(c, text)
        for c in road_names:
            eng.check(f"{n}#{c}", c not in first, detail=first.get(c))

    reg.add(
        C.Contract(
            f"{XODR}:Road.toScenicRoad",
            params=dict(self=C.Const(None), tolerance=C.Const(None)),
            setup=setup_road,
            post=post_road,
            inline_all=True,
            raises=[C.Raises("Exception", mode="may")],
            replay=replay_road,
            bounded=True,
            note=f"bounded: {len(LAYOUTS)} road layouts (1 to 3 lane sections over the lane sets -1 | -1,1 | -2,-1,1 | -2,-1 | -2,-1,1,2; lanes continuing, ending, beginning, shifting their id, merging) x links to neighbouring "
            "roads or none x driving side; all lanes drivable (no sidewalk / shoulder lanes); lane links inside the road are declared on both sides (a one-sided map link cannot be reciprocal: KNOWN finding CulDeSac.xodr); "
            "geometry abstract. Layouts whose lanes of one direction are absent from the first lane section in travel direction / with merging or splitting lanes may raise IndexError / AssertionError (no network is built: "
            "outside C20's statement; candidate repairs in notes/candidate_fixes); every other layout keeps no_exception. The carrier follows links through dictionaries keyed by lane id and while-loops over the link chain, which the engine only executes for concrete ids.",
            properties=("C20",),
        ),
        key=f"{XODR}:Road.toScenicRoad[links]",
    )
    register_network(reg)


# ================================================================================================ networks
def network_clauses(A, net, declared_links=None, one_to_one=False):
    """[(clause, violation text)] of the network-level clauses of C20 (registration, coverage, links between roads).
    `one_to_one`: the map is known to contain no merging / splitting lanes, so every link must be reciprocated (otherwise a link
    is excused when several elements claim the same neighbour)."""
    bad = []

    def need(clause, cond, text):
        if not cond:
            bad.append((clause, text() if callable(text) else text))

    g, seq = A.get, A.seq
    elements = A.mapping(g(net, "elements"))
    vals = list(elements.values())
    for uid, e in elements.items():
        need("registry.every_element_is_stored_under_its_uid", g(e, "uid") == uid, lambda: f"element stored under {uid!r} has uid {g(e, 'uid')!r}")
        need("registry.every_element_names_the_network", A.is_network_ref(g(e, "network"), net), lambda: f"element {uid}: network attribute is {g(e, 'network')!r}")
    roads, conn = seq(g(net, "roads")), seq(g(net, "connectingRoads"))
    need("registry.all_roads_are_roads_then_connecting_roads", [id(x) for x in seq(g(net, "allRoads"))] == [id(x) for x in roads + conn], lambda: f"allRoads = {[_uid(A, x) for x in seq(g(net, 'allRoads'))]}")
    want = [s for r in roads for s in seq(g(r, "sections"))]
    need("registry.road_sections_are_the_sections_of_the_roads_in_order", [id(x) for x in seq(g(net, "roadSections"))] == [id(x) for x in want], lambda: f"roadSections = {[_uid(A, x) for x in seq(g(net, 'roadSections'))]}, expected {[_uid(A, x) for x in want]}")
    want = [s for l in seq(g(net, "lanes")) for s in seq(g(l, "sections"))]
    need("registry.lane_sections_are_the_sections_of_the_lanes_in_order", [id(x) for x in seq(g(net, "laneSections"))] == [id(x) for x in want], lambda: f"laneSections = {[_uid(A, x) for x in seq(g(net, 'laneSections'))]}, expected {[_uid(A, x) for x in want]}")
    for name in ("roads", "connectingRoads", "laneGroups", "lanes", "intersections", "crossings", "sidewalks", "shoulders", "roadSections", "laneSections"):
        for x in seq(g(net, name)):
            need("registry.elements_cover_all_the_lists", _has(vals, x), lambda: f"{name} contains {_uid(A, x)}, which is not among the registered elements")
    allroads = roads + conn
    # every road's own elements are registered, and its lanes / groups are listed by the network
    for r in allroads:
        for l in seq(g(r, "lanes")):
            need("registry.lanes_of_every_road_are_listed", _has(seq(g(net, "lanes")), l), lambda: f"lane {_uid(A, l)} of road {_uid(A, r)} is not in network.lanes")
        for grp in seq(g(r, "laneGroups")):
            need("registry.lane_groups_of_every_road_are_listed", _has(seq(g(net, "laneGroups")), grp), lambda: f"group {_uid(A, grp)} of road {_uid(A, r)} is not in network.laneGroups")
        for s in seq(g(r, "sections")):
            need("registry.elements_cover_all_the_lists", _has(vals, s), lambda: f"section {_uid(A, s)} is not registered")
    # ---- links between lane sections / lanes / groups of different roads: one-to-one links are reciprocal
    lsall = [s for l in seq(g(net, "lanes")) for s in seq(g(l, "sections"))]
    for kind, items in (("lane_section", lsall), ("lane", seq(g(net, "lanes"))), ("lane_group", seq(g(net, "laneGroups")))):
        for x in items:
            nxt = g(x, "_successor")
            need(f"links.{kind}_successor_is_an_element_of_its_kind_or_None", nxt is None or _has(items, nxt), lambda: f"{_uid(A, x)}.successor = {nxt!r}")
            prv = g(x, "_predecessor")
            need(f"links.{kind}_predecessor_is_an_element_of_its_kind_or_None", prv is None or _has(items, prv), lambda: f"{_uid(A, x)}.predecessor = {prv!r}")
            if nxt is not None and _has(items, nxt):
                rivals = [y for y in items if g(y, "_successor") is nxt]
                need(f"links.{kind}_successor_has_this_predecessor", g(nxt, "_predecessor") is x or (len(rivals) > 1 and not one_to_one), lambda: f"{_uid(A, x)}.successor = {_uid(A, nxt)}, whose predecessor is {_uid(A, g(nxt, '_predecessor'))}")
            if prv is not None and _has(items, prv):
                rivals = [y for y in items if g(y, "_predecessor") is prv]
                need(f"links.{kind}_predecessor_has_this_successor", g(prv, "_successor") is x or (len(rivals) > 1 and not one_to_one), lambda: f"{_uid(A, x)}.predecessor = {_uid(A, prv)}, whose successor is {_uid(A, g(prv, '_successor'))}")
    # ---- roads: OpenDRIVE joins roads at either end, so the neighbour links back at one of ITS ends
    for r in allroads:
        for end in ("_successor", "_predecessor"):
            nb = g(r, end)
            if nb is not None and _has(allroads, nb):
                need("links.road_neighbour_links_back_at_one_of_its_ends", g(nb, "_successor") is r or g(nb, "_predecessor") is r, lambda: f"{_uid(A, r)}.{end[1:]} = {_uid(A, nb)}, which links to {_uid(A, g(nb, '_predecessor'))} / {_uid(A, g(nb, '_successor'))}")
    if declared_links is not None:
        byid = {g(r, "id"): r for r in allroads}
        for (a, end, b) in declared_links:
            need("links.declared_road_link_is_present_at_the_declared_end", g(byid[a], "_predecessor" if end == "start" else "_successor") is byid[b], lambda: f"road {a} declares road {b} at its {end}; the network has {_uid(A, g(byid[a], '_predecessor' if end == 'start' else '_successor'))}")
    return bad


def _is_network_ref_real(ref, net):
    try:
        return ref is not None and ref.elements is net.elements
    except ReferenceError:
        return False


Acc.is_network_ref = staticmethod(_is_network_ref_real)
ModelAcc.is_network_ref = staticmethod(lambda ref, net: isinstance(ref, PObj) and ref.fields.get("_proxy_of") is net)

# two-road worlds: road 1 joined to road 2, every combination of contact points; lanes -1 and 1 on both
CONTACTS = [("end", "start"), ("end", "end"), ("start", "start"), ("start", "end")]
WORLD_LANES = [(-1, 1), (-2, -1, 1), (-1,)]


def two_road_world(contact, lanes, two_sections):
    """road 1 (contact end c1) joins road 2 (contact end c2): lane links by the rule of the format -- lanes keep their id
    when the roads run in the same direction through the joint and change sign otherwise"""
    c1, c2 = contact
    same = c1 != c2
    other = (lambda i: i) if same else (lambda i: -i)
    lanes2 = tuple(sorted(other(i) for i in lanes))

    def secs(ids, n, joint_end, partner):
        out = []
        for k in range(n):
            d = {}
            for i in ids:
                pred = i if k > 0 else (partner(i) if joint_end == "start" else None)
                succ = i if k < n - 1 else (partner(i) if joint_end == "end" else None)
                d[i] = (pred, succ)
            out.append(d)
        return out

    n1 = 2 if two_sections else 1
    r1 = dict(id=1, sections=secs(lanes, n1, c1, other), x=0.0, y=0.0, hdg=0.0)
    r2 = dict(id=2, sections=secs(lanes2, 1, c2, other), y=0.0)
    L1 = SEC_LEN * n1
    r1["pred" if c1 == "start" else "succ"] = ("road", 2, c2)
    r2["pred" if c2 == "start" else "succ"] = ("road", 1, c1)
    # geometry for the replay: road 1 along the x axis; road 2 placed so that the contact ends touch
    jx = 0.0 if c1 == "start" else L1
    toward_plus = c1 == "end"  # road 2 lies on the +x side of the joint
    if (c2 == "start") == toward_plus:
        r2.update(x=jx if toward_plus else jx, hdg=0.0 if toward_plus else 3.141592653589793)
    else:
        r2.update(x=jx + SEC_LEN if toward_plus else jx - SEC_LEN, hdg=3.141592653589793 if toward_plus else 0.0)
    declared = [(1, c1, 2), (2, c2, 1)]
    return [r1, r2], declared


def replay_network(inputs, clause):
    import ast as _ast

    w = inputs.get("world")
    if isinstance(w, str):
        try:
            w = _ast.literal_eval(w)
        except (ValueError, SyntaxError):
            return None
    if not w:
        return None
    roads, declared = two_road_world(tuple(w[0]), tuple(w[1]), bool(w[2]))
    try:
        net = parse_real(xodr_text(roads))
    except Exception as e:
        if clause.endswith("no_exception"):
            return f"world {w}: the real parser raises {type(e).__name__}: {str(e)[:120]}"
        return None
    A = Acc()
    bad = network_clauses(A, net, declared, one_to_one=True)
    for r in net.allRoads:
        bad += road_clauses(A, r, None, True)
    short = clause.split("#")[-1]
    if short.startswith("every_road."):
        short = short[len("every_road."):]
    for c, text in bad:
        if c == short:
            return f"two roads joined {w[0][0]} of road 1 to {w[0][1]} of road 2, lanes {w[1]}: {text}"
    return None


def replay_post_init(inputs, clause):
    """Real Network(...) on the elements of a real parsed two-road network, with the registry of the counter-model."""
    roads, declared = two_road_world(("end", "start"), (-1, 1), True)
    net = parse_real(xodr_text(roads))
    import scenic.domains.driving.roads as R

    wrong = inputs.get("wrong_key")
    elements = dict(net.elements)
    if wrong:
        k = next(iter(elements))
        elements = {("not-" + k if kk == k else kk): v for kk, v in elements.items()}
    try:
        new = R.Network(elements=elements, roads=net.roads, connectingRoads=net.connectingRoads, laneGroups=net.laneGroups, lanes=net.lanes, intersections=net.intersections, crossings=net.crossings, sidewalks=net.sidewalks, shoulders=net.shoulders, tolerance=net.tolerance)
    except AssertionError:
        return None if wrong else "Network(...) raises AssertionError for a registry whose keys are the uids"
    except Exception as e:
        return f"Network(...) raises {type(e).__name__}: {str(e)[:100]}"
    if wrong:
        return "Network(...) accepted an element stored under a key that is not its uid"
    short = clause.split("#")[-1]
    for c, text in network_clauses(Acc(), new):
        if c == short:
            return text
    if short.startswith("lookup_index"):
        if tuple(new._uidForIndex) != tuple(new.elements) or [id(g) for g in new._rtree.geometries] != [id(e.polygons) for e in new.elements.values()]:
            return "R-tree index order differs from the order of the element registry"
    return None


def make_xodr_road(repo_class, rid, secs, dor=True, junction=None):
    """model objects of an xodr_parser.Road after calculate_geometry (abstract geometry)"""
    Lane_, Sec_, Road_ = repo_class(f"{XODR}:Lane"), repo_class(f"{XODR}:LaneSection"), repo_class(f"{XODR}:Road")
    lane_secs, sec_points, sec_polys, sec_lane_polys = [], [], [], []
    # calc_geometry_for_type (not reached by the engine) returns "polygons for each lane ... respecting lane successor/predecessor":
    # one polygon per chain of lane sections joined by the predecessor links (a chain is continued by one lane section only)
    # (lanes are visited left lanes first by ascending id, then right lanes -1, -2, ...); the polygon is attached to the LAST lane
    # section of its chain only (`parent_lane_poly` of the others stays None)
    chain, prev = {}, {}
    for i, d in enumerate(secs):
        cur = {}
        for id_ in sorted(k for k in d if k > 0) + sorted((k for k in d if k < 0), reverse=True):
            pred = d[id_][0]
            if i > 0 and pred is not None and pred in prev:
                tok = prev.pop(pred)
                chain[tok.fields["members"][-1]] = None
            else:
                tok = MX.polygon_token(f"lane polygon of road {rid}")
                tok.fields["members"] = []
            tok.fields["members"].append((i, id_))
            cur[id_] = chain[(i, id_)] = tok
        prev = cur
    for i, d in enumerate(secs):
        x0, x1 = SEC_LEN * i, SEC_LEN * (i + 1)
        lanes = {}
        for id_, (pred, succ) in d.items():
            l = PObj(Lane_, tag=f"road{rid}.sec{i}.lane{id_}")
            y0, y1 = (3.5 * id_, 3.5 * (id_ - 1 if id_ > 0 else id_ + 1))
            l.fields.update(
                id_=id_, type_="driving", pred=pred, succ=succ, width=PList([]), poly=MX.polygon_token(f"poly sec{i} lane{id_}"), parent_lane_poly=chain[(i, id_)],
                left_bounds=PList([(x0, max(y0, y1)), (x1, max(y0, y1))]), right_bounds=PList([(x0, min(y0, y1)), (x1, min(y0, y1))]), centerline=PList([(x0, (y0 + y1) / 2), (x1, (y0 + y1) / 2)]),
            )
            lanes[id_] = l
        s = PObj(Sec_, tag=f"road{rid}.sec{i}")
        left = {k: v for k, v in lanes.items() if k > 0}
        right = {k: v for k, v in lanes.items() if k < 0}
        s.fields.update(
            s0=x0, left_lanes=PDict(list(left.items())), right_lanes=PDict(list(right.items())), left_lane_ids=PList(sorted(left)), right_lane_ids=PList(sorted(right, reverse=True)),
            lanes=PDict(list(left.items()) + list(right.items())), drivable_lanes=PDict(list(lanes.items())), sidewalk_lanes=PDict(), shoulder_lanes=PDict(),
            left_edge=PList([(x0, 7.0), (x1, 7.0)]), right_edge=PList([(x0, -7.0), (x1, -7.0)]),
        )
        lane_secs.append(s)
        sec_points.append(PList([(x0, 0.0, x0), (x1, 0.0, x1)]))
        sec_polys.append(MX.polygon_token(f"section poly {i}"))
        sec_lane_polys.append(PDict([(k, v.fields["poly"]) for k, v in lanes.items()]))
    road = PObj(Road_, tag=f"road {rid}")
    road.fields.update(
        name=f"r{rid}", id_=rid, length=SEC_LEN * len(secs), junction=junction, predecessor=None, successor=None, signals=PList([]), lane_secs=PList(lane_secs), sec_points=PList(sec_points), sec_polys=PList(sec_polys),
        sec_lane_polys=PList(sec_lane_polys), lane_polys=PList([]), drive_on_right=dor, drivable_region=MX.polygon_token("drivable"), ref_line_points=PList([(0.0, 0.0, 0.0), (SEC_LEN * len(secs), 0.0, SEC_LEN * len(secs))]),
        remappedStartLanes=None,
    )
    return road


def register_network(reg):
    from contracts.common import repo_class
    from pyvc.builtins_model import NativeModule

    net_names = _clause_list(network_clauses)
    road_names = _clause_list(road_clauses)

    def lib_env(I):
        def proxy(o):
            p = PObj("weakproxy", tag="proxy of the network")
            p.fields["_proxy_of"] = o
            return p

        trees = []

        def strtree(geoms):
            t = PObj("STRtree")
            t.fields["geometries"] = list(I.iterate(geoms))
            trees.append(t)
            return t

        return {"weakref": NativeModule("weakref", {"proxy": BuiltinFn("proxy", proxy)}), "shapely": NativeModule("shapely", {"STRtree": BuiltinFn("STRtree", strtree)})}

    def exc_text(exc):
        return f"{getattr(exc.cls, 'name', getattr(exc.cls, '__name__', exc.cls))}{exc.args!r}"

    # ================================================================================ RoadMap.toScenicNetwork (roads joined by links)
    def setup_net(I, env):
        eng = I.eng
        contact = CONTACTS[eng.choose(len(CONTACTS), "contact points of the joint")]
        lanes = WORLD_LANES[eng.choose(len(WORLD_LANES), "lanes")]
        two = eng.choose(2, "road 1 has two lane sections?") == 1
        roads, declared = two_road_world(contact, lanes, two)
        Map_, Link_ = repo_class(f"{XODR}:RoadMap"), repo_class(f"{XODR}:RoadLink")
        m = PObj(Map_, tag="road map")
        xroads = [(r["id"], make_xodr_road(repo_class, r["id"], r["sections"])) for r in roads]
        links = []
        for a, end, b in declared:
            l = PObj(Link_)
            cb = next(e for (x, e, y) in declared if x == b)
            l.fields.update(id_a=a, id_b=b, contact_a=end, contact_b=cb)
            links.append(l)
        m.fields.update(roads=PDict(xroads), road_links=PList(links), junctions=PDict(), tolerance=0.05, intersection_region=PObj("PolygonalRegion"), elidedRoads=PDict())
        I.registry.contracts[f"{XODR}:RoadMap.toScenicNetwork[road-links]"].env.update(lib_env(I))
        env.vars.update(self=m, _declared=declared)
        eng.input_syms.append(("world", C.Const(None), [list(contact), list(lanes), two]))

    def post_net(I, env, outcome):
        eng = I.eng
        n = "xodr_parser.RoadMap.toScenicNetwork"
        if outcome[0] != "return":
            eng.check(f"{n}#no_exception", False, detail=exc_text(outcome[1]))
            return
        net = outcome[1]
        A = ModelAcc()
        try:
            bad = network_clauses(A, net, env.vars["_declared"], one_to_one=True)
            rbad = []
            for r in A.seq(A.get(net, "allRoads")):
                rbad += road_clauses(A, r, None, True)
        except AttributeError as e:
            eng.check(f"{n}#elements_fully_initialised", False, detail=str(e))
            return
        first = {}
        for c, text in bad + rbad:
            first.setdefault(c, text)
        for c in net_names:
            eng.check(f"{n}#{c}", c not in first, detail=first.get(c))
        for c in road_names:
            if c.startswith("elements."):
                continue
            eng.check(f"{n}#every_road.{c}", c not in first, detail=first.get(c))

    reg.add(
        C.Contract(
            f"{XODR}:RoadMap.toScenicNetwork",
            params=dict(self=C.Const(None)),
            setup=setup_net,
            post=post_net,
            inline_all=True,
            raises=[C.Raises("Exception", mode="may")],
            replay=replay_network,
            bounded=True,
            note="bounded: two roads joined by a road link declared on both sides, all four combinations of contact points (start/end), lane sets -1,1 | -2,-1,1 | -1, road 1 with one or two lane sections; no junctions "
            "(the junction / maneuver part of toScenicNetwork is not reached); toScenicRoad and Network.__attrs_post_init__ are interpreted in place (real code); geometry abstract",
            properties=("C20",),
        ),
        key=f"{XODR}:RoadMap.toScenicNetwork[road-links]",
    )

    # ================================================================================ Network.__attrs_post_init__
    def elem(kind, uid, **fields):
        e = PObj(repo_class(f"{ROADS}:{kind}"), tag=uid)
        e.fields.update(uid=uid, network=None, polygons=MX.polygon_token(f"polygons of {uid}"), **fields)
        return e

    def setup_init(I, env):
        eng = I.eng
        nroads = 1 + eng.choose(2, "number of ordinary roads")
        nconn = eng.choose(2, "number of connecting roads")
        nsec = 1 + eng.choose(2, "sections per road / lane")
        wrong = eng.choose(2, "an element stored under a key that is not its uid?") == 1
        elements, roads, conn, lanes, groups = [], [], [], [], []
        for k in range(nroads + nconn):
            rs = [elem("RoadSection", f"road{k}_sec{i}") for i in range(nsec)]
            ls = [elem("LaneSection", f"road{k}_sec{i}_lane-1", _successor=None, _predecessor=None) for i in range(nsec)]
            lane = elem("Lane", f"road{k}_lane0", sections=tuple(ls), _successor=None, _predecessor=None)
            grp = elem("LaneGroup", f"road{k}_forward", lanes=(lane,), curb=PObj("PolylineRegion"), _successor=None, _predecessor=None)
            road = elem("Road", f"road{k}", id=k, sections=tuple(rs), lanes=(lane,), forwardLanes=grp, backwardLanes=None, laneGroups=(grp,), _successor=None, _predecessor=None)
            (roads if k < nroads else conn).append(road)
            lanes.append(lane)
            groups.append(grp)
            elements += ls + rs + [lane, grp, road]
        keys = [e.fields["uid"] for e in elements]
        if wrong:
            keys[len(keys) // 2] = "somewhere else"
        net = PObj(repo_class(f"{ROADS}:Network"), tag="network")
        none = dict.fromkeys(("allRoads", "roadSections", "laneSections", "drivableRegion", "walkableRegion", "roadRegion", "laneRegion", "intersectionRegion", "crossingRegion", "sidewalkRegion", "curbRegion", "shoulderRegion", "roadDirection"))
        net.fields.update(none)
        net.fields.update(elements=PDict(list(zip(keys, elements))), roads=tuple(roads), connectingRoads=tuple(conn), laneGroups=tuple(groups), lanes=tuple(lanes), intersections=(), crossings=(), sidewalks=(), shoulders=(), driveOnLeft=False, tolerance=0.05)
        lib = lib_env(I)
        I.registry.contracts[f"{ROADS}:Network.__attrs_post_init__[bookkeeping]"].env.update(lib)
        env.vars.update(self=net, _wrong=wrong, _elements=elements)
        eng.input_syms.append(("wrong_key", C.Const(None), wrong))
        eng.input_syms.append(("shape", C.Const(None), [nroads, nconn, nsec]))

    def post_init(I, env, outcome):
        eng = I.eng
        n = "roads.Network.__attrs_post_init__"
        wrong = env.vars["_wrong"]
        if outcome[0] != "return":
            name = getattr(outcome[1].cls, "name", getattr(outcome[1].cls, "__name__", str(outcome[1].cls)))
            eng.check(f"{n}#registry.raises_AssertionError_only_for_an_element_stored_under_another_key", wrong and name == "AssertionError", detail=exc_text(outcome[1]))
            return
        eng.check(f"{n}#registry.element_stored_under_another_key_is_refused", not wrong)
        net = env.vars["self"]
        A = ModelAcc()
        first = {}
        for c, text in network_clauses(A, net):
            first.setdefault(c, text)
        for c in net_names:
            if c.startswith("registry."):
                eng.check(f"{n}#{c}", c not in first, detail=first.get(c))
        keys = list(net.fields["elements"].keys)
        tree = net.fields.get("_rtree")
        geoms = tree.fields["geometries"] if isinstance(tree, PObj) else None
        eng.check(f"{n}#lookup_index.uid_for_index_follows_the_registry_order", list(A.seq(net.fields.get("_uidForIndex"))) == keys)
        eng.check(f"{n}#lookup_index.rtree_geometries_follow_the_registry_order", geoms is not None and [id(x) for x in geoms] == [id(e.fields["polygons"]) for e in net.fields["elements"].vals])

    reg.add(
        C.Contract(
            f"{ROADS}:Network.__attrs_post_init__",
            params=dict(self=C.Const(None)),
            setup=setup_init,
            post=post_init,
            inline_all=True,
            raises=[C.Raises("Exception", mode="may")],
            replay=replay_post_init,
            bounded=True,
            note="bounded: 1-2 ordinary roads, 0-1 connecting roads, 1-2 sections per road and lane, one lane and group per road; with / without one element stored under a key different from its uid; regions abstract "
            "(the comprehensions over roads x sections are nested generators, executed for concrete lengths)",
            properties=("C20",),
        ),
        key=f"{ROADS}:Network.__attrs_post_init__[bookkeeping]",
    )
