"""Which contract modules decide which property, and the claimed level."""

PROPERTIES = {
    "C18": dict(
        modules=["serialization", "simulators"],
        level="proof",
        claim="codec round trip, refusal of truncated data and exception discipline proved for all inputs as postconditions over contracts on the real functions",
        note="floats as reals; struct/blake2b/int.to_bytes library contracts trusted; see evidence.trusted_base",
        assumptions=["struct '<d' pack/unpack is a bijection on floats", "blake2b collision-freeness"],
        not_reached=[],
    ),
    "C02": dict(
        modules=["sample_checking", "requirements", "scenarios"],
        level="proof",
        claim="the checker accepts a sample only if every active mandatory requirement holds, for every order/subset the history-dependent sorting can choose (sort modelled as an arbitrary permutation); default requirement set and requirement predicates as postconditions",
        note="geometric predicates abstract (C04/C17); falsifiedBy assumed pure in the sample",
        assumptions=["falsifiedBy is a pure function of the sample"],
        not_reached=["geometry kernels behind the requirement predicates (C04/C17)"],
    ),
}

NOT_APPLICABLE = {}

BASELINE_CMD = "cd /repo && /venv/bin/python -m pytest -ra -q -p no:cacheprovider --timeout=900 --continue-on-collection-errors"
