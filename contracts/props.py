"""Which contract modules decide which property, and the claimed level."""

PROPERTIES = {
    "C18": dict(
        modules=["serialization", "simulators", "sample_codec", "vector_codec"],
        level="proof",
        claim="codec round trip, refusal of truncated data and exception discipline proved for all inputs as postconditions over contracts on the real functions",
        note="floats as reals; struct/blake2b/int.to_bytes library contracts trusted; see evidence.trusted_base",
        assumptions=["struct '<d' pack/unpack is a bijection on floats", "blake2b collision-freeness"],
        not_reached=["composition of the codecs with the re-computation of derived values on whole programs (specifier resolution, mutation): only the bounded stand-in scene_codec reaches it"],
        bounded=[
            "stand-in scene_codec (never counted as proved): real sceneToBytes / sceneFromBytes on 3 programs (random 3-D orientations, nested discrete choices, mutation) x 2 seeds: round trip equal, "
            "every truncation point refused, single-byte corruptions (6 byte values per position in the quick tier, all 255 in the thorough tier) under a 5 s watchdog fail only with SerializationError",
        ],
    ),
    "C02": dict(
        modules=["sample_checking", "requirements", "scenarios", "planar"],
        # the built-in requirements are decided by the containment / intersection procedures of C04
        borrow=dict(modules=["solids"], match=["containsObject", "Object.intersects", "MeshVolumeRegion.intersects", "_circumradius"]),
        level="proof",
        claim="the checker accepts a sample only if every active mandatory requirement holds, for every order/subset the history-dependent sorting can choose (sort modelled as an arbitrary permutation); default requirement set and requirement predicates as postconditions",
        note="geometric predicates abstract (C04/C17); falsifiedBy assumed pure in the sample",
        assumptions=["falsifiedBy is a pure function of the sample"],
        not_reached=["geometry kernels behind the requirement predicates (C04/C17)"],
    ),
    "C19": dict(
        modules=["distributions", "invocables", "vector_codec", "compiler_do"],
        level="proof",
        claim="enabled-set computation, weighted pick as an RNG-trace contract (probability proportional to weight among the enabled items under A3), shuffle exactly-once loop",
        note="A3: laws of random.choices/randint; number of listed items bounded by 3 in the pick contract (symbolic weights and enabledness)",
        assumptions=["A3: laws of the library RNG primitives"],
        not_reached=[],
    ),
    "C08": dict(
        modules=["relations", "pruning"],
        # pruning erodes containers by (minimum radius - maximum offset) taken from support intervals: their
        # soundness contracts (written for C05) are part of what C08 depends on
        borrow=dict(modules=["lifting"], match=["supportInterval", "unionOfSupports", "supmin", "supmax", "support of", "monotonicDistributionFunction"]),
        level="proof",
        claim="bound extraction from requirement syntax is sound for every comparison operator and operand shape; relations for pruning are inferred only from hard requirements on the initial scene; relative-heading feasibility over-approximates and the pruned region is a subset of the base region at the same height with the same preferred orientation; erosion/termination arithmetic; the buffered view region used by visibility pruning contains every point within the buffer distance (box path; voxel path per axis) and the buffer distance covers radius + full 3-D offset; for a position that is a function of the sampled point (`on <oriented region>`: p + offset(p), orientation field[p]) containment pruning, visibility pruning and their sequence leave position, offset and orientation functions of ONE random draw, taken in the pruned region (ghost model of Samplable.sample); matchPolygonalField raises nothing for any shape of the field lookup's arguments and matches exactly when the lookup's single argument IS the position object",
        note="shapely buffer/intersection assumed exact set operations; equality of distributions with/without pruning not reached (only: no feasible position lost, none added)",
        assumptions=["matchConstant/matchValue modelled (eval in the namespace)"],
        not_reached=[
            "distribution equality over shapely results",
            "point-function contracts (pruneContainment/pruneVisibility/prune[point-functions]): checkConditionedCycle abstract (no cycle), one object, polygonal regions; values computed from the sampled point other than the offset and the orientation (e.g. a user expression sharing the point) are covered only through the same-draw argument",
            "matchPolygonalField[random-arguments]: the decorator plumbing behind isMethodCall/isFunctionCall (underlyingFunction) is abstract; normalizeAngle / typechecked wrappers of the heading not enumerated",
            "voxel path of _bufferOverapproximate: set containment is checked as its projection on one axis (cube structuring element), with trimesh voxelization trusted to contain the mesh after one dilation",
        ],
    ),
}

NOT_APPLICABLE = {}

BASELINE_CMD = "cd /repo && /venv/bin/python -m pytest -ra -q -p no:cacheprovider --timeout=900 --continue-on-collection-errors"


# property fragments written alongside their contract modules: contracts/props_<anything>.py with a PROPERTIES dict
import glob as _glob
import importlib as _importlib
import os as _os

for _f in sorted(_glob.glob(_os.path.join(_os.path.dirname(__file__), "props_*.py"))):
    _m = _importlib.import_module("contracts." + _os.path.basename(_f)[:-3])
    for _k, _v in _m.PROPERTIES.items():
        if _k in PROPERTIES:
            PROPERTIES[_k]["modules"] = list(dict.fromkeys(PROPERTIES[_k]["modules"] + _v.get("modules", [])))
            for _fld in ("assumptions", "not_reached", "bounded"):
                PROPERTIES[_k][_fld] = list(PROPERTIES[_k].get(_fld, [])) + list(_v.get(_fld, []))
        else:
            PROPERTIES[_k] = _v
    NOT_APPLICABLE.update(getattr(_m, "NOT_APPLICABLE", {}))
