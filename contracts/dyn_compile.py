"""Compiler side of the dynamic statements (C12 / C13): shape of the Python produced by the visitors of
`scenic.syntax.compiler:ScenicToPythonTransformer` for `wait`, `terminate`, `terminate simulation`, `do`, `do ... for`,
`do ... until` (C12), `abort` and the guard checkers (C13).

Oracle (docs/reference/dynamic_scenarios.rst, statements.rst; property statements of C12 / C13):
 * `wait` suspends the behavior for exactly one time step with the empty action set; `terminate` / `terminate simulation`
   hand the corresponding termination request (made for the agent / with the line of the statement) to the scheduler;
 * `do X, ... [for N unit | until C]` delegates to the run-time scheduler `_invokeSubBehavior` with the agent, ALL listed
   items in source order and the modifier written by the user (kind, value, unit unchanged; the `until` condition as a
   closure so that it is re-evaluated at every step);
 * every such statement is followed by ONE check of the invariants of the enclosing behavior/scenario with its own
   arguments ("invariants are checked every time it resumes after an action or a finished sub-behaviour");
 * `abort` is only legal inside an interrupt handler and ends the try-interrupt statement (ABORT conclusion);
 * the guard checkers: one check per written precondition / invariant, in source order, each raising the violation of
   its own kind with the behavior and the line of the guard iff the condition is false, and also when the condition
   rejects (`RejectionException`) -- "a violation, or a rejection raised inside a guard".

The statement nodes are produced by the REAL parser; `self.visit` on sub-expressions is the identity (expression
compilation is C09/C10).  Replays run the whole front end and the DummySimulator."""
import ast

from pyvc import contracts as C
from pyvc.interp import BuiltinFn, SymRaise
from pyvc.values import PExc, PList, PObj

from .common import repo_class

M = "scenic.syntax.compiler"
BARG = "_Scenic_current_behavior"


def L(x):
    return list(x.items) if isinstance(x, PList) else list(x)


def parse_stmt(src):
    from scenic.syntax.parser import parse_string

    return parse_string(src + "\n", "exec").body[0]


def is_name(x, ident):
    return isinstance(x, ast.Name) and x.id == ident


def is_attr(x, base, attr):
    return isinstance(x, ast.Attribute) and is_name(x.value, base) and x.attr == attr


def invariant_check_ok(stmt):
    """`_Scenic_current_behavior.checkInvariants(self, *_Scenic_current_behavior._args, **_Scenic_current_behavior._kwargs)`"""
    if not (isinstance(stmt, ast.Expr) and isinstance(stmt.value, ast.Call)):
        return False
    c = stmt.value
    args, kws = L(c.args), L(c.keywords)
    return (
        is_attr(c.func, BARG, "checkInvariants")
        and len(args) == 2
        and is_name(args[0], "self")
        and isinstance(args[1], ast.Starred)
        and is_attr(args[1].value, BARG, "_args")
        and len(kws) == 1
        and kws[0].arg is None
        and is_attr(kws[0].value, BARG, "_kwargs")
    )


def transformer(I, **flags):
    self = PObj(repo_class(f"{M}:ScenicToPythonTransformer"), tag="transformer")
    self.fields.update(filename="<test>", inBehavior=False, inMonitor=False, inCompose=False, inTryInterrupt=False, inInterruptBlock=False, inLoop=False, inGuard=False)
    self.fields.update(flags)
    visited = []

    def visit(x):
        if isinstance(x, (list, PList)):
            return PList(L(x))
        visited.append(x)
        return x

    self.fields["visit"] = BuiltinFn("visit", visit)
    self.visited = visited
    return self


def register(reg):
    register_simple_statements(reg)
    register_do(reg)
    register_abort(reg)
    register_guard_checkers(reg)


# ====================================================================================================
# wait / terminate / terminate simulation

SIMPLE = {
    "Wait": ("wait", "visit_Wait"),
    "Terminate": ("terminate", "visit_Terminate"),
    "TerminateSimulation": ("terminate simulation", "visit_TerminateSimulation"),
}


def register_simple_statements(reg):
    def make(kind):
        src, meth = SIMPLE[kind]
        name = f"compiler.ScenicToPythonTransformer.{meth}"

        def setup(I, env):
            line = [1, 7][I.eng.choose(2, "line of the statement")]
            node = parse_stmt("\n" * (line - 1) + src)
            env.vars.update(self=transformer(I, inBehavior=True), node=node, _line=line)

        def post(I, env, outcome):
            eng = I.eng
            if outcome[0] != "return":
                return
            stmts = L(outcome[1])
            ok = len(stmts) == 2 and isinstance(stmts[0], ast.Expr) and isinstance(stmts[0].value, ast.Yield)
            eng.check(f"{name}#ensures.one_suspension_for_exactly_one_time_step_then_the_invariant_check", ok)
            if not ok:
                return
            v = stmts[0].value.value
            eng.check(f"{name}#ensures.followed_by_one_check_of_the_invariants_with_the_arguments_of_the_enclosing_behavior", invariant_check_ok(stmts[1]))
            if kind == "Wait":
                eng.check(f"{name}#ensures.yields_the_empty_action_set", isinstance(v, ast.Constant) and v.value == ())
            elif kind == "Terminate":
                a = L(v.args) if isinstance(v, ast.Call) else []
                eng.check(f"{name}#ensures.yields_the_termination_request_of_the_agent_with_the_line_of_the_statement", isinstance(v, ast.Call) and is_name(v.func, "_makeTerminationAction") and len(a) == 2 and is_name(a[0], "self") and isinstance(a[1], ast.Constant) and a[1].value == env.vars["_line"] and not L(v.keywords))
            else:
                a = L(v.args) if isinstance(v, ast.Call) else []
                eng.check(f"{name}#ensures.yields_the_simulation_termination_request_with_the_line_of_the_statement", isinstance(v, ast.Call) and is_name(v.func, "_makeSimulationTerminationAction") and len(a) == 1 and isinstance(a[0], ast.Constant) and a[0].value == env.vars["_line"] and not L(v.keywords))
            eng.check(f"{name}#ensures.statements_located_at_the_source_statement", all(getattr(s, "lineno", None) == env.vars["_line"] for s in stmts))

        reg.add(
            C.Contract(
                f"{M}:ScenicToPythonTransformer.{meth}",
                params=dict(self=C.Const(None), node=C.Const(None)),
                setup=setup,
                post=post,
                inline=["ScenicToPythonTransformer.generateInvocation"],
                replay=replay_simple_statements,
                bounded=True,
                note="bounded: the statement on line 1 or 7 (node from the real parser); context check of the @context decorator is exercised by the replay driver only",
                properties=("C12",),
            )
        )

    for kind in SIMPLE:
        make(kind)


# ====================================================================================================
# do / do-for / do-until

DO_CASES = [
    # (source, visitor, listed items, modifier)
    ("do b0()", "visit_Do", ["b0()"], None),
    ("do b0(), b1(x)", "visit_Do", ["b0()", "b1(x)"], None),
    ("do b0(), b1(x), b2", "visit_Do", ["b0()", "b1(x)", "b2"], None),
    ("do b0() for 3 steps", "visit_DoFor", ["b0()"], ("for", "3", "steps")),
    ("do b0() for 2.5 seconds", "visit_DoFor", ["b0()"], ("for", "2.5", "seconds")),
    ("do b0(), b1(x) for n + 1 steps", "visit_DoFor", ["b0()", "b1(x)"], ("for", "n + 1", "steps")),
    ("do b0() until x > 3", "visit_DoUntil", ["b0()"], ("until", "x > 3")),
    ("do b0(), b1(x) until done", "visit_DoUntil", ["b0()", "b1(x)"], ("until", "done")),
]


def decode_do(stmts):
    """-> (items as source text, modifier, keywords) of the produced statements, or a text saying what is wrong"""
    if not (len(stmts) == 2 and isinstance(stmts[0], ast.Expr) and isinstance(stmts[0].value, ast.YieldFrom) and isinstance(stmts[0].value.value, ast.Call)):
        return "not `yield from <call>` followed by one statement"
    call = stmts[0].value.value
    if not is_attr(call.func, BARG, "_invokeSubBehavior"):
        return "the call is not _Scenic_current_behavior._invokeSubBehavior(...)"
    args = L(call.args)
    if len(args) not in (2, 3) or not is_name(args[0], "self") or not isinstance(args[1], ast.Tuple):
        return f"arguments {[ast.dump(a) for a in args]}"
    its = [ast.unparse(e) for e in L(args[1].elts)]
    mod = None
    if len(args) == 3:
        m = args[2]
        if not (isinstance(m, ast.Call) and is_name(m.func, "Modifier") and not L(m.keywords)):
            return "third argument is not Modifier(...)"
        ma = L(m.args)
        if not ma or not isinstance(ma[0], ast.Constant):
            return "Modifier without kind"
        if ma[0].value == "for" and len(ma) == 3 and isinstance(ma[2], ast.Constant):
            mod = ("for", ast.unparse(ma[1]), ma[2].value)
        elif ma[0].value == "until" and len(ma) == 2 and isinstance(ma[1], ast.Lambda) and not L(ma[1].args.args) and not ma[1].args.vararg and not ma[1].args.kwarg:
            mod = ("until", ast.unparse(ma[1].body))
        else:
            return f"Modifier({', '.join(ast.unparse(a) if isinstance(a, ast.AST) else repr(a) for a in ma)})"
    return its, mod, [(k.arg, getattr(k.value, "value", None)) for k in L(call.keywords)]


def register_do(reg):
    by_visitor = {}
    for case in DO_CASES:
        by_visitor.setdefault(case[1], []).append(case)

    def make(meth, cases):
        name = f"compiler.ScenicToPythonTransformer.{meth}"

        def setup(I, env):
            eng = I.eng
            k = eng.choose(len(cases), "statement")
            where = ["compose block", "behavior", "monitor"][eng.choose(3, "statement inside a")]
            eng.input_syms.append(("case", C.Const(None), repr((cases[k][0], where))))
            node = parse_stmt(cases[k][0])
            self = transformer(I, inCompose=where == "compose block", inBehavior=where == "behavior", inMonitor=where == "monitor")

            def make_error(msg, n):
                return PExc(repo_class("scenic.core.errors:ScenicParseError"), (msg,))

            self.fields["makeSyntaxError"] = BuiltinFn("makeSyntaxError", make_error)
            env.vars.update(self=self, node=node, _case=cases[k], _where=where)

        def post(I, env, outcome):
            eng = I.eng
            src, _, want_items, want_mod = env.vars["_case"]
            where = env.vars["_where"]
            several_in_behavior = where != "compose block" and len(want_items) > 1
            # "`do` can only take one action inside a behavior/monitor": parallel composition is for scenarios
            eng.check(f"{name}#raises.syntax_error_iff_several_items_inside_a_behavior_or_monitor", (outcome[0] == "raise") == several_in_behavior, detail=f"`{src}` inside a {where}")
            if outcome[0] != "return":
                return
            stmts = L(outcome[1])
            d = decode_do(stmts)
            eng.check(f"{name}#ensures.delegates_once_to_the_run_time_scheduler_with_the_agent", not isinstance(d, str), detail=str(d))
            if isinstance(d, str):
                return
            its, mod, kws = d
            eng.check(f"{name}#ensures.all_listed_items_passed_in_source_order", its == want_items, detail=f"`{src}`: items {its}")
            eng.check(f"{name}#ensures.modifier_kind_value_and_unit_as_written", mod == want_mod, detail=f"`{src}`: modifier {mod}")
            eng.check(f"{name}#ensures.no_scheduling_keyword_for_a_plain_do", kws == [])
            eng.check(f"{name}#ensures.followed_by_one_check_of_the_invariants_with_the_arguments_of_the_enclosing_behavior", invariant_check_ok(stmts[1]))

        reg.add(
            C.Contract(
                f"{M}:ScenicToPythonTransformer.{meth}",
                params=dict(self=C.Const(None), node=C.Const(None)),
                setup=setup,
                post=post,
                inline=["ScenicToPythonTransformer.makeDoLike", "ScenicToPythonTransformer.generateInvocation"],
                raises=[C.Raises("ScenicParseError", mode="may")],
                replay=replay_do_statements,
                bounded=True,
                note=f"bounded: {len(cases)} statements from the real parser (1-3 items; steps / seconds / expression durations; until conditions) inside a compose block, a behavior, a monitor",
                properties=("C12",),
            )
        )

    for meth, cases in by_visitor.items():
        make(meth, cases)


# ====================================================================================================
# abort


def register_abort(reg):
    name = "compiler.ScenicToPythonTransformer.visit_Abort"

    def setup(I, env):
        inside = I.eng.choose(2, "inside an interrupt handler?") == 1
        self = transformer(I, inBehavior=True, inTryInterrupt=inside, inInterruptBlock=inside)
        self.fields["makeSyntaxError"] = BuiltinFn("makeSyntaxError", lambda msg, n: PExc(repo_class("scenic.core.errors:ScenicParseError"), (msg,)))
        env.vars.update(self=self, node=parse_stmt("\n\nabort"), _inside=inside)

    def post(I, env, outcome):
        eng = I.eng
        inside = env.vars["_inside"]
        eng.check(f"{name}#raises.syntax_error_iff_outside_an_interrupt_handler", (outcome[0] == "raise") == (not inside))
        if outcome[0] != "return":
            return
        r = outcome[1]
        ok = isinstance(r, ast.Return) and is_attr(r.value, "BlockConclusion", "ABORT")
        eng.check(f"{name}#ensures.the_handler_ends_with_the_ABORT_conclusion_which_terminates_the_try_interrupt_statement", ok)
        eng.check(f"{name}#ensures.located_at_the_source_statement", getattr(r, "lineno", None) == 3)

    reg.add(
        C.Contract(
            f"{M}:ScenicToPythonTransformer.visit_Abort",
            params=dict(self=C.Const(None), node=C.Const(None)),
            setup=setup,
            post=post,
            raises=[C.Raises("ScenicParseError", mode="may")],
            replay=replay_abort,
            properties=("C13",),
        )
    )


# ====================================================================================================
# makeGuardCheckers

GUARD_HEADERS = [
    [],
    [("precondition", "p0")],
    [("invariant", "i0")],
    [("precondition", "p0"), ("invariant", "i0"), ("precondition", "p1 > 2")],
    [("invariant", "i0"), ("invariant", "i1"), ("precondition", "p0")],
]


def decode_checker(fn, violation):
    """-> list of (condition source, line) checked by the generated function, or a text saying what is wrong"""
    body = L(fn.body)
    if len(body) == 1 and isinstance(body[0], ast.Pass):
        return []
    out = []
    for st in body:
        if not isinstance(st, ast.Try) or L(st.orelse) or L(st.finalbody):
            return f"statement {type(st).__name__} is not a try block"
        tb, hs = L(st.body), L(st.handlers)
        if len(tb) != 1 or not isinstance(tb[0], ast.If) or L(tb[0].orelse):
            return "try body is not one `if`"
        test = tb[0].test
        if not (isinstance(test, ast.UnaryOp) and isinstance(test.op, ast.Not)):
            return "the test is not `not <condition>`"

        def raised(r):
            if not (isinstance(r, ast.Raise) and isinstance(r.exc, ast.Call) and isinstance(r.exc.func, ast.Name)):
                return None
            a = L(r.exc.args)
            if len(a) != 2 or not is_name(a[0], BARG) or not isinstance(a[1], ast.Constant):
                return None
            return r.exc.func.id, a[1].value

        ib = L(tb[0].body)
        if len(ib) != 1 or raised(ib[0]) is None:
            return "the `if` does not raise a violation for the behavior with a line number"
        kind, line = raised(ib[0])
        if kind != violation:
            return f"a false condition raises {kind}, not {violation}"
        if len(hs) != 1 or not is_name(hs[0].type, "RejectionException"):
            return "a rejection raised inside the guard is not caught"
        hb = L(hs[0].body)
        if len(hb) != 1 or raised(hb[0]) != (violation, line):
            return f"a rejection inside the guard does not raise {violation} for line {line}"
        out.append((ast.unparse(test.operand), line))
    return out


def register_guard_checkers(reg):
    name = "compiler.ScenicToPythonTransformer.makeGuardCheckers"

    def header_nodes(header):
        src = "behavior B(a):\n" + "".join(f"    {kind}: {cond}\n" for kind, cond in header) + "    wait\n"
        return parse_stmt(src).header

    def setup(I, env):
        eng = I.eng
        k = eng.choose(len(GUARD_HEADERS), "guards written in the header")
        eng.input_syms.append(("case", C.Const(None), repr(GUARD_HEADERS[k])))
        nodes = header_nodes(GUARD_HEADERS[k])
        pres = [n for n in nodes if type(n).__name__ == "Precondition"]
        invs = [n for n in nodes if type(n).__name__ == "Invariant"]
        args = ast.arguments(posonlyargs=[ast.arg(arg=BARG), ast.arg(arg="self")], args=[ast.arg(arg="a")], vararg=None, kwonlyargs=[], kw_defaults=[], kwarg=None, defaults=[])
        env.vars.update(self=transformer(I, inBehavior=True), args=args, preconditions=PList(pres), invariants=PList(invs), _header=GUARD_HEADERS[k])

    def post(I, env, outcome):
        eng = I.eng
        if outcome[0] != "return":
            return
        header = env.vars["_header"]
        defs = [s for s in L(outcome[1]) if isinstance(s, ast.FunctionDef)]
        by_name = {d.name: d for d in defs}
        eng.check(f"{name}#ensures.one_precondition_checker_and_one_invariant_checker", len(defs) == 2 and set(by_name) == {"checkPreconditions", "checkInvariants"})
        if set(by_name) != {"checkPreconditions", "checkInvariants"}:
            return
        for fn, kind, viol in (("checkPreconditions", "precondition", "PreconditionViolation"), ("checkInvariants", "invariant", "InvariantViolation")):
            want = [(cond, 2 + j) for j, (kd, cond) in enumerate(header) if kd == kind]  # header lines start on line 2 of the behavior
            got = decode_checker(by_name[fn], viol)
            eng.check(f"{name}#ensures.{fn}_checks_every_written_{kind}_once_in_source_order_raising_{viol}_with_its_line_iff_false_or_rejected", got == want, detail=f"got {got}, written {want}")
            eng.check(f"{name}#ensures.{fn}_takes_the_arguments_of_the_behavior", by_name[fn].args is env.vars["args"])

    reg.add(
        C.Contract(
            f"{M}:ScenicToPythonTransformer.makeGuardCheckers",
            params=dict(self=C.Const(None), args=C.Const(None), preconditions=C.Const(None), invariants=C.Const(None)),
            setup=setup,
            post=post,
            replay=replay_guard_checkers,
            bounded=True,
            note=f"bounded: {len(GUARD_HEADERS)} behavior headers from the real parser with 0-3 guards (preconditions and invariants interleaved)",
            properties=("C13",),
        )
    )


# ----------------------------------------------------------------------------------------------------
# replay drivers (REAL code)


def _compile(src):
    from scenic.syntax.compiler import compileScenicAST
    from scenic.syntax.parser import parse_string

    tree, _ = compileScenicAST(parse_string(src, "exec"))
    return tree


def _actions(src, steps, **kw):
    import scenic
    from scenic.core.simulators import DummySimulator

    sc = scenic.scenarioFromString(src, mode2D=True)
    scene, _ = sc.generate(maxIterations=5)
    sim = DummySimulator().simulate(scene, maxSteps=steps, maxIterations=1, **kw)
    if sim is None:
        return None, None
    ego = scene.objects[0]
    return sim, [a[ego][0] if a[ego] else None for a in sim.result.actions]


def replay_simple_statements(inputs, clause):
    """wait / terminate / terminate simulation: compiled shape in the real front end and effect on the real simulator."""
    from scenic.core.errors import ScenicSyntaxError

    for stmt, callee in (("wait", None), ("terminate", "_makeTerminationAction"), ("terminate simulation", "_makeSimulationTerminationAction")):
        for line in (2, 5):
            src = "behavior B():\n" + "    x = 1\n" * (line - 2) + f"    {stmt}\n"
            tree = _compile(src)
            gen = [n for n in ast.walk(tree) if isinstance(n, ast.FunctionDef) and n.name == "makeGenerator"][0]
            tail = gen.body[-2:]
            if not (len(tail) == 2 and isinstance(tail[0], ast.Expr) and isinstance(tail[0].value, ast.Yield) and invariant_check_ok(tail[1])):
                return f"`{stmt}` in a behavior compiles to `{ast.unparse(ast.Module(body=gen.body[-2:], type_ignores=[]))}`; documented: one suspension, then the invariant check"
            v = tail[0].value.value
            if callee is None:
                if not (isinstance(v, ast.Constant) and v.value == ()):
                    return f"`wait` yields {ast.unparse(v)}, not the empty action set"
            else:
                lines = [a.value for a in v.args if isinstance(a, ast.Constant)] if isinstance(v, ast.Call) else []
                if not (isinstance(v, ast.Call) and is_name(v.func, callee) and lines == [line]):
                    return f"`{stmt}` on line {line} yields {ast.unparse(v)}; documented: {callee}(... line {line})"
        try:
            _compile(f"{stmt}\n")
            return f"`{stmt}` at the top level of a program is accepted by the compiler"
        except ScenicSyntaxError:
            pass
    # run time: `wait` costs exactly one step with no action; `terminate` ends at that step
    sim, acts = _actions("behavior B():\n    take 1\n    wait\n    wait\n    take 2\n    terminate\n    take 3\nego = new Object with behavior B\n", 10)
    if sim is None or acts != [1, None, None, 2] or sim.currentTime != 4:
        return f"take 1; wait; wait; take 2; terminate: actions {acts}, ended at step {getattr(sim, 'currentTime', None)}; documented: [1, None, None, 2], step 4"
    sim, acts = _actions("behavior B():\n    take 1\n    terminate simulation\n    take 3\nego = new Object with behavior B\n", 10)
    if sim is None or acts != [1] or sim.currentTime != 1:
        return f"take 1; terminate simulation: actions {acts}, ended at step {getattr(sim, 'currentTime', None)}"
    # invariant checked after every wait
    sim, acts = _actions("def T():\n    import scenic.syntax.veneer as v\n    return v.currentSimulation.currentTime\nbehavior B():\n    invariant: T() < 2\n    while True:\n        wait\nego = new Object with behavior B\n", 6)
    if sim is not None:
        return "behavior with `invariant: T() < 2` that only waits: the simulation was not rejected when the invariant became false at step 2"
    return None


def replay_do_statements(inputs, clause):
    """do / do-for / do-until: compiled shape in the real front end; parallel sub-scenarios all run; modifiers honoured."""
    from scenic.core.errors import ScenicSyntaxError

    for src, meth, want_items, want_mod in DO_CASES:
        for where in ("compose", "behavior", "monitor"):
            if where == "compose":
                prog = f"scenario S():\n    compose:\n        {src}\n"
                fname = "_compose"
            else:
                prog = f"{where} B():\n    {src}\n"
                fname = "makeGenerator"
            try:
                tree = _compile(prog)
            except ScenicSyntaxError as e:
                if where != "compose" and len(want_items) > 1:
                    continue
                return f"`{src}` inside a {where}: {type(e).__name__}: {e}"
            if where != "compose" and len(want_items) > 1:
                return f"`{src}` with several items inside a {where} is accepted by the compiler"
            fn = [n for n in ast.walk(tree) if isinstance(n, ast.FunctionDef) and n.name == fname][0]
            d = decode_do(fn.body[-2:])
            if isinstance(d, str):
                return f"`{src}` inside a {where} compiles to something else than one call of the run-time scheduler: {d}"
            its, mod, kws = d
            if its != want_items or mod != want_mod or kws:
                return f"`{src}` inside a {where}: items {its}, modifier {mod}, keywords {kws}; written: items {want_items}, modifier {want_mod}"
            if not invariant_check_ok(fn.body[-1]):
                return f"`{src}` inside a {where} is not followed by the invariant check"
    # run time: every listed sub-scenario runs; `for` / `until` as written
    import builtins

    import scenic
    from scenic.core.simulators import DummySimulator

    prog = (
        "import builtins\nlog = builtins._pyvc_log\n"
        "def T():\n    import scenic.syntax.veneer as v\n    return v.currentSimulation.currentTime\n"
        "scenario Sub(name):\n    compose:\n        while True:\n            log.append((name, T()))\n            wait\n"
        "scenario Main():\n    setup:\n        ego = new Object\n    compose:\n"
        "        do Sub('a'), Sub('b'), Sub('c') for 2 steps\n        log.append(('after-for', T()))\n"
        "        do Sub('d'), Sub('e') until T() >= 5\n        log.append(('after-until', T()))\n"
    )
    log = []
    builtins._pyvc_log = log
    try:
        sc = scenic.scenarioFromString(prog, scenario="Main", mode2D=True)
        scene, _ = sc.generate(maxIterations=5)
        del log[:]
        DummySimulator().simulate(scene, maxSteps=12, maxIterations=1)
    finally:
        del builtins._pyvc_log
    want = [("a", 0), ("b", 0), ("c", 0), ("a", 1), ("b", 1), ("c", 1), ("after-for", 2), ("d", 2), ("e", 2), ("d", 3), ("e", 3), ("d", 4), ("e", 4), ("after-until", 5)]
    if log != want:
        return f"`do Sub('a'), Sub('b'), Sub('c') for 2 steps` then `do Sub('d'), Sub('e') until T() >= 5`: trace {log}; documented: {want}"
    return None


def replay_abort(inputs, clause):
    from scenic.core.errors import ScenicSyntaxError

    for prog in ("behavior B():\n    abort\n", "behavior B():\n    while True:\n        abort\n", "abort\n"):
        try:
            _compile(prog)
            return f"`abort` outside an interrupt handler is accepted by the compiler:\n{prog}"
        except ScenicSyntaxError:
            pass
    # inside a loop, next to a handler that uses `break`: `abort` ends the try-interrupt statement only (the loop goes on)
    src = (
        "def T():\n    import scenic.syntax.veneer as v\n    return v.currentSimulation.currentTime\n"
        "behavior B():\n    for i in range(2):\n        try:\n            while True:\n                take 1\n"
        "        interrupt when T() == 100:\n            break\n"
        "        interrupt when T() in (2, 6):\n            take 5\n            abort\n            take 6\n"
        "        take 9\n    take 10\n"
        "ego = new Object with behavior B\n"
    )
    sim, acts = _actions(src, 10)
    want = [1, 1, 5, 9, 1, 1, 5, 9, 10]
    if acts is None or acts[: len(want)] != want:
        return f"for i in range(2): try: take 1 forever; interrupt when T() == 100: break; interrupt when T() in (2, 6): take 5; abort; take 6 -- then take 9; after the loop take 10: actions {acts}; documented: {want} (abort terminates the try-interrupt statement, nothing else)"
    return None


def replay_guard_checkers(inputs, clause):
    """Real behaviors with several guards: which violation is reported, with which line, and when."""
    from scenic.core.dynamics.guards import InvariantViolation, PreconditionViolation

    head = "def T():\n    import scenic.syntax.veneer as v\n    return v.currentSimulation.currentTime if v.currentSimulation is not None else 0\n"
    # line numbers: head = 3 lines; `behavior B():` is line 4; guards on lines 5, 6, 7, 8
    cases = [
        ("True", "True", "True", "True", None),
        ("False", "True", "True", "True", ("PreconditionViolation", 5)),
        ("True", "True", "False", "True", ("PreconditionViolation", 7)),
        ("True", "False", "True", "True", ("InvariantViolation", 6)),
        ("True", "True", "True", "False", ("InvariantViolation", 8)),
        ("False", "False", "False", "False", ("PreconditionViolation", 5)),  # preconditions first, in source order
        ("True", "T() < 2", "True", "True", ("InvariantViolation", 6)),  # becomes false at step 2
        ("T() < 1", "True", "True", "True", None),  # preconditions are only checked at the start
    ]
    for p0, i0, p1, i1, want in cases:
        src = head + f"behavior B():\n    precondition: {p0}\n    invariant: {i0}\n    precondition: {p1}\n    invariant: {i1}\n    while True:\n        take 1\nego = new Object with behavior B\n"
        try:
            sim, acts = _actions(src, 4, raiseGuardViolations=True)
            got = None
        except (PreconditionViolation, InvariantViolation) as e:
            got = (type(e).__name__, e.lineno)
        except Exception as e:
            return f"guards ({p0}; {i0}; {p1}; {i1}): {type(e).__name__}: {e}"
        if got != want:
            return f"behavior with `precondition: {p0}` (line 5), `invariant: {i0}` (line 6), `precondition: {p1}` (line 7), `invariant: {i1}` (line 8): reported {got}, documented {want}"
    # a rejection raised inside a guard counts as a violation of that guard (guards.py: "when a precondition encounters a
    # RejectionException, so that rejections count as precondition violations")
    for kind, cls, line in (("precondition", PreconditionViolation, 5), ("invariant", InvariantViolation, 5)):
        src = head + f"behavior B():\n    {kind}: f()\n    while True:\n        take 1\ndef f():\n    from scenic.core.distributions import RejectionException\n    raise RejectionException('rejected inside the guard')\nego = new Object with behavior B\n"
        try:
            sim, _ = _actions(src, 3, raiseGuardViolations=True)
            return f"a RejectionException raised inside the {kind} of a behavior (raiseGuardViolations=True): simulation {'rejected silently' if sim is None else 'accepted'}; documented: counts as a violation of that guard"
        except cls as e:
            if e.lineno != line:
                return f"rejection inside the {kind} on line {line} reported for line {e.lineno}"
        except Exception as e:
            return f"a RejectionException raised inside the {kind} of a behavior: {type(e).__name__}: {e} (documented: a rejection raised inside a guard is a violation of that guard)"
        sim, _ = _actions(src, 3)
        if sim is not None:
            return f"a RejectionException raised inside the {kind} of a behavior: the simulation was accepted (must be rejected)"
    return None
