"""Sidecar contracts for the built-in requirement classes (scenic.core.requirements) and the default
requirement set (Scenario.generateDefaultRequirements) -- C02 / C17 / C01.

Oracle: the property statement of C02: "no two objects overlap in volume unless one allows collisions,
every object lies entirely inside its container (its regionContainedIn, otherwise the workspace), and every
object that must be (in)visible from an observer is so".  Geometry is abstract here: overlap / inside /
cansee are uninterpreted predicates on object identities (their correctness is C04 / C17)."""
import z3

from pyvc import contracts as C
from pyvc.interp import BuiltinFn, ClassVal
from pyvc.values import Opaque, PDict, PObj, SV, compare, sv_and, sv_ite, sv_not, sv_or, tobool, tonum

from .common import repo_class

R = "scenic.core.requirements"
S = "scenic.core.scenarios"

I_ = z3.IntSort()
overlap = z3.Function("overlap", I_, I_, z3.BoolSort())
inside = z3.Function("inside", I_, I_, z3.BoolSort())
cansee = z3.Function("cansee", I_, I_, I_, z3.BoolSort())  # (viewer, target, occluder bit mask)


class World:
    """n scene objects (unsampled keys) and their sampled counterparts with symbolic flags."""

    def __init__(self, I, eng, n, name="w"):
        self.keys, self.sampled = [], []
        for k in range(n):
            key = PObj("ObjectKey", tag=f"key{k}")
            key.ident = ("key", k)
            so = PObj("SampledObject", tag=f"obj{k}")
            so.ident = ("obj", k)
            so.k = k
            so.fields["allowCollisions"] = eng.fresh_bool(f"{name}.obj{k}.allowCollisions")
            so.fields["occluding"] = eng.fresh_bool(f"{name}.obj{k}.occluding")
            so.fields["intersects"] = BuiltinFn("intersects", lambda other, so=so: SV(overlap(so.k, other.k)))
            so.fields["containsObject"] = BuiltinFn("containsObject", lambda other, so=so: SV(inside(other.k, so.k)))

            def canSee(target, occludingObjects=(), so=so):
                mask = 0
                for o in I.iterate(occludingObjects):
                    mask += 2**o.k
                I.eng.events.append(("canSee", so.k, target.k, mask))
                return SV(cansee(so.k, target.k, mask))

            so.fields["canSee"] = BuiltinFn("canSee", canSee)
            self.keys.append(key)
            self.sampled.append(so)
        self.sample = PDict(list(zip(self.keys, self.sampled)))


def register(reg):
    def world_setup(n):
        def setup(I, env):
            w = World(I, I.eng, n)
            env.vars["_world"] = w
            env.vars["sample"] = w.sample
            return w

        return setup

    # ------------------------------------------------------------- IntersectionRequirement
    def setup_inter(I, env):
        w = world_setup(2)(I, env)
        env.vars["self"].fields.update(objA=w.keys[0], objB=w.keys[1])

    def post_inter(I, env, outcome):
        if outcome[0] != "return":
            return
        w = env.vars["_world"]
        a, b = w.sampled
        want = sv_and(sv_not(a.fields["allowCollisions"]), sv_not(b.fields["allowCollisions"]), SV(overlap(0, 1)))
        got = I.truth(outcome[1])
        I.eng.check("requirements.IntersectionRequirement.falsifiedByInner#ensures.falsified_iff_overlap_and_no_collisions_allowed", tobool(got) == tobool(want))

    reg.add(
        C.Contract(
            f"{R}:IntersectionRequirement.falsifiedByInner",
            params=dict(self=C.Obj(f"{R}:IntersectionRequirement", optional=C.Const(False), active=C.Const(True)), sample=C.Const(None)),
            setup=setup_inter,
            post=post_inter,
            properties=("C02",),
        )
    )

    # ------------------------------------------------------------- ContainmentRequirement
    def setup_cont(I, env):
        w = world_setup(2)(I, env)
        env.vars["self"].fields.update(obj=w.keys[0], container=w.keys[1])

    def post_cont(I, env, outcome):
        if outcome[0] != "return":
            return
        got = I.truth(outcome[1])
        I.eng.check("requirements.ContainmentRequirement.falsifiedByInner#ensures.falsified_iff_not_inside_container", tobool(got) == z3.Not(inside(0, 1)))

    reg.add(
        C.Contract(
            f"{R}:ContainmentRequirement.falsifiedByInner",
            params=dict(self=C.Obj(f"{R}:ContainmentRequirement", optional=C.Const(False), active=C.Const(True)), sample=C.Const(None)),
            setup=setup_cont,
            post=post_cont,
            properties=("C02",),
        )
    )

    # ------------------------------------------------------------- (Non)VisibilityRequirement
    def setup_vis(I, env):
        w = world_setup(4)(I, env)
        # source = obj0, target = obj1, potential occluders = obj2, obj3
        env.vars["self"].fields.update(source=w.keys[0], target=w.keys[1], potential_occluders=(w.keys[2], w.keys[3]))

    def expected_mask(w, ks):
        m = 0
        for k in ks:
            m = m + sv_ite(I_truth(w.sampled[k].fields["occluding"]), 2**k, 0)
        return m

    def I_truth(v):
        return tobool(v)

    def post_vis(negate, cname):
        def post(I, env, outcome):
            if outcome[0] != "return":
                return
            w = env.vars["_world"]
            got = tobool(I.truth(outcome[1]))
            # occluders are exactly the potential occluders whose *sampled* `occluding` is true
            disj = []
            for m2 in (0, 1):
                for m3 in (0, 1):
                    cond = z3.And(tobool(w.sampled[2].fields["occluding"]) == bool(m2), tobool(w.sampled[3].fields["occluding"]) == bool(m3))
                    vis = cansee(0, 1, m2 * 4 + m3 * 8)
                    disj.append(z3.And(cond, got == (vis if negate else z3.Not(vis))))
            I.eng.check(f"requirements.{cname}.falsifiedByInner#ensures.verdict_is_canSee_with_sampled_occluders", z3.Or(*disj))

        return post

    for cname, negate in (("VisibilityRequirement", False), ("NonVisibilityRequirement", True)):
        reg.add(
            C.Contract(
                f"{R}:{cname}.falsifiedByInner",
                params=dict(self=C.Obj(f"{R}:{cname}", optional=C.Const(False), active=C.Const(True)), sample=C.Const(None)),
                setup=setup_vis,
                post=post_vis(negate, cname),
                inline=["VisibilityRequirement.falsifiedByInner"],
                properties=("C02", "C17"),
            )
        )

    # ------------------------------------------------------------- VisibilityRequirement.__init__
    def setup_vinit(I, env):
        eng = I.eng
        objs = []
        for k in range(4):
            o = PObj("ObjectKey", tag=f"key{k}")
            o.ident = ("key", k)
            objs.append(o)
        env.vars["_objs"] = objs
        # the observer may or may not be one of the scene's objects (an OrientedPoint observer is not)
        src_choice = eng.choose(3, "source?")
        env.vars["source"] = objs[0] if src_choice == 0 else objs[2] if src_choice == 1 else PObj("ObserverKey", tag="observer")
        env.vars["target"] = objs[1]
        form = eng.choose(3, "objects-form?")
        from pyvc.builtins_model import OneShot
        from pyvc.values import PList

        env.vars["objects"] = tuple(objs) if form == 0 else PList(objs) if form == 1 else OneShot(objs)

    def post_vinit(I, env, outcome):
        if outcome[0] != "return":
            return
        self = env.vars["self"]
        objs = env.vars["_objs"]
        want = [o for o in objs if o is not env.vars["source"] and o is not env.vars["target"]]
        got = self.fields.get("potential_occluders")
        ok = isinstance(got, tuple) and len(got) == len(want) and all(a is b for a, b in zip(got, want))
        I.eng.check("requirements.VisibilityRequirement.__init__#ensures.potential_occluders_are_all_other_objects", ok)
        I.eng.check("requirements.VisibilityRequirement.__init__#ensures.mandatory_and_active", self.fields.get("optional") is False and self.fields.get("active") is True)

    reg.add(
        C.Contract(
            f"{R}:VisibilityRequirement.__init__",
            params=dict(self=C.Obj(f"{R}:VisibilityRequirement"), source=C.Const(None), target=C.Const(None), objects=C.Const(None)),
            setup=setup_vinit,
            post=post_vinit,
            inline=["SamplingRequirement.__init__"],
            properties=("C02", "C17"),
        )
    )

    # ------------------------------------------------------------- SamplingRequirement.falsifiedBy
    reg.add(
        C.Contract(
            f"{R}:SamplingRequirement.falsifiedBy",
            params=dict(self=C.Obj(f"{R}:IntersectionRequirement", optional=C.Bool(), active=C.Const(True)), sample=C.Const(None)),
            setup=setup_inter,
            inline=["IntersectionRequirement.falsifiedByInner"],
            ensures={"delegates": "True"},
            post=lambda I, env, outcome: post_inter(I, env, outcome),
            properties=("C02",),
        ),
    )
