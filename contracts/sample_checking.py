"""Sidecar contracts for scenic.core.sample_checking (C02): whatever order, subset or shortcut the
checker chooses -- for every history of previously checked samples -- a sample is accepted only if every
active mandatory requirement holds.

The cost key (`getRequirementCost`, a function of the timing/acceptance buffers, i.e. of the history) does
not appear in the contracts at all: `list.sort` is modelled as an arbitrary permutation, so the obligations
hold for every order any history can induce."""
import z3

from pyvc import contracts as C
from pyvc.values import SSeq, SV, Opaque, tonum

M = "scenic.core.sample_checking"

falsified = z3.Function("falsified", z3.IntSort(), z3.BoolSort())  # req.falsifiedBy(sample): pure in the sample


def _falsifiedBy(I, obj, sample):
    I.eng.events.append(("falsifiedBy", obj.ident[1]))
    return SV(falsified(tonum(obj.ident[1])))


REQS = C.ObjSeq("Requirement", dict(active="bool", optional="bool", violationMsg=lambda o: Opaque("violationMsg")), methods={"falsifiedBy": _falsifiedBy})


def register(reg):
    @reg.spec
    def falsified_of(r):
        return SV(falsified(tonum(r.ident[1])))

    wac = C.Obj(f"{M}:WeightedAcceptanceChecker", requirements=REQS, bufferSize=C.Int(lo=1), buffers=C.Const(Opaque("buffers")), bufferSums=C.Const(Opaque("bufferSums")))

    def subsequence(I, env):
        """result of sortedRequirements at call sites: some sequence of elements of self.requirements"""
        base = env.lookup("self").fields["requirements"]
        eng = I.eng
        tag = eng.fresh_name("sorted")
        s = z3.Function(tag, z3.IntSort(), z3.IntSort())
        m = eng.fresh_int(tag + ".len")
        eng.assume(m >= 0)
        j = z3.Int("j!sub")
        eng.assume(z3.ForAll([j], z3.Implies(z3.And(j >= 0, j < tonum(m)), z3.And(s(j) >= 0, s(j) < tonum(base.length)))))
        return SSeq(m, lambda k: base.elem(SV(s(tonum(k)))), "list", tag)

    reg.add(
        C.Contract(
            f"{M}:WeightedAcceptanceChecker.sortedRequirements",
            params=dict(self=wac),
            ensures={
                "only_active": "all(r.active for r in result)",
                "every_active_mandatory_kept": "all(implies(r.active and not r.optional, r in result) for r in self.requirements)",
            },
            result=subsequence,
            loops={
                1: dict(
                    invariants={
                        "popped_only_optional": "len(reqs) <= len(entry(reqs)) and all(entry(reqs)[j].optional for j in range(len(reqs), len(entry(reqs))))",
                        # carries the postcondition through the loop, so that no single obligation has to reason about
                        # filter + sort + pops at once (the combined query took z3 ~18 s, too close to the budget)
                        "mandatory_kept": "all(implies(r.active and not r.optional, r in reqs) for r in self.requirements)",
                    },
                    decreases="len(reqs)",
                    modifies={"reqs": None},
                )
            },
            replay=replay_sorted,
            properties=("C02",),
        )
    )
    reg.add(
        C.Contract(
            f"{M}:WeightedAcceptanceChecker.updateMetrics",
            params=dict(self=wac, req=C.Const(None), new_metrics=C.Const(None)),
            call_only=True,  # statistics only: touches buffers/bufferSums, which no other contract reads
        )
    )
    reg.add(
        C.Contract(
            f"{M}:WeightedAcceptanceChecker.checkRequirementsInner",
            params=dict(self=wac, sample=C.Const(Opaque("sample"))),
            ensures={
                "accepted_means_all_hold": "implies(result is None, all(implies(r.active and not r.optional, not falsified_of(r)) for r in self.requirements))",
            },
            loops={1: dict(invariants={"prefix_holds": "all(not falsified_of(_seq[j]) for j in range(_i))"}, modifies={"req": None, "start": None, "rejected": None, "metrics": None})},
            replay=replay_check,
            properties=("C02",),
        )
    )


# -------------------------------------------------------------------------------------------------
# replay: real WeightedAcceptanceChecker on fake requirement objects built from the model's flags,
# over several timing/acceptance histories (the "all histories" quantifier is sampled here only to
# *confirm* a counterexample the solver already produced)


class _Req:
    def __init__(self, i, active, optional, fals):
        self.i, self.active, self.optional, self.fals = i, active, optional, fals
        self.violationMsg = f"req{i}"
        self.calls = 0

    def falsifiedBy(self, sample):
        self.calls += 1
        return self.fals

    def __repr__(self):
        return f"R{self.i}({'A' if self.active else 'a'}{'O' if self.optional else 'M'}{'F' if self.fals else 'T'})"


def _histories(checker, reqs, rnd):
    """Yield after installing different statistics (orders) into the real checker."""
    yield "fresh"
    for k in range(12):
        for r in reqs:
            acc = rnd.randint(0, checker.bufferSize)
            checker.bufferSums[r] = (acc, rnd.random() * 3)
        yield f"history{k}"
    # the same checker serves every sample of a scenario, and soft requirements are switched on and off per sample:
    # histories in which the activation flags change between calls
    original = [r.active for r in reqs]
    for k in range(12):
        for r in reqs:
            r.active = rnd.random() < 0.5
        yield f"history{12 + k} (activation flags redrawn between calls: {[r.active for r in reqs]})"
    for r, a in zip(reqs, original):
        r.active = a


def _cases(inputs):
    import itertools
    import random

    rnd = random.Random(0)
    model_flags = inputs["self"]["requirements"][:7]
    # the solver's candidate first; if the refutation pass dropped quantified hypotheses the candidate may
    # be spurious, so all flag assignments of up to 3 requirements are tried as well
    candidates = [model_flags]
    for n in (1, 2, 3):
        for bits in itertools.product([False, True], repeat=2 * n):
            candidates.append([dict(active=bits[2 * i], optional=bits[2 * i + 1]) for i in range(n)])
    for flags in candidates:
        n = len(flags)
        combos = itertools.product([False, True], repeat=n) if n <= 6 else [tuple(rnd.random() < 0.5 for _ in range(n)) for _ in range(64)]
        for fals in combos:
            yield flags, fals, rnd


def replay_sorted(inputs, clause):
    from scenic.core.sample_checking import WeightedAcceptanceChecker

    mb = int(inputs["self"].get("bufferSize", 10))
    sizes = [mb if 1 <= mb < 50 else 10]
    sizes += [b for b in (10, 100) if b not in sizes]  # the model's buffer size first, then the usual ones
    for (flags, fals, rnd), bsize in ((c, b) for b in sizes for c in _cases(inputs)):
        reqs = [_Req(i, bool(f["active"]), bool(f["optional"]), fl) for i, (f, fl) in enumerate(zip(flags, fals))]
        ch = WeightedAcceptanceChecker(bufferSize=bsize)
        ch.setRequirements(reqs)
        for h in _histories(ch, reqs, rnd):
            h = f"bufferSize {bsize}, {h}"
            out = ch.sortedRequirements()
            for r in reqs:
                if r.active and not r.optional and r not in out:
                    return f"sortedRequirements() dropped active mandatory requirement {r} (requirements {reqs}, {h}): result {out}"
            for r in out:
                if not r.active:
                    return f"sortedRequirements() returned inactive requirement {r} (requirements {reqs}, {h})"
    return None


def replay_check(inputs, clause):
    from scenic.core.sample_checking import WeightedAcceptanceChecker

    for flags, fals, rnd in _cases(inputs):
        reqs = [_Req(i, bool(f["active"]), bool(f["optional"]), fl) for i, (f, fl) in enumerate(zip(flags, fals))]
        ch = WeightedAcceptanceChecker(bufferSize=10)
        ch.setRequirements(reqs)
        for h in _histories(ch, reqs, rnd):
            res = ch.checkRequirementsInner(object())
            bad = [r for r in reqs if r.active and not r.optional and r.fals]
            if res is None and bad:
                return f"checkRequirementsInner accepted a sample although {bad} are falsified (requirements {reqs}, {h})"
    return None
