"""Sidecar contracts for the lifting layer of scenic.core.distributions / lazy_eval / geometry (C05).

Oracles (all from the property statement, none from the code):
  * interval soundness: a reported bound (not None) is a bound of EVERY value `op(x, y)` the expression can take when
    the operands range over their own reported intervals; computing the interval never raises;
  * simplification shortcuts are identities of Python arithmetic on the value type;
  * sampling is a homomorphism: the Python operation applied to the sampled operands, in order, keyword names kept;
  * evaluateInner rebuilds the same operation over the context values of the *corresponding* operands.
Floats are reals (A1)."""
import ast

import z3

from pyvc import contracts as C
from pyvc import extract
from pyvc.interp import BuiltinFn, FuncVal, SymRaise
from pyvc.values import Infinity, PDict, PExc, PList, PObj, SV, compare, sv_and, sv_ite, sv_not, sv_or, tobool, toz3

from .common import repo_class
from .distributions import identity_map

D = "scenic.core.distributions"
L = "scenic.core.lazy_eval"
G = "scenic.core.geometry"

OPT_REAL = C.Opt(C.Real())


# ------------------------------------------------------------------------------------------------
# helpers


def _implies(h, c):
    return z3.Implies(tobool(h), tobool(c))


def _absv(x):
    return sv_ite(compare(">=", x, 0), x, 0 - x)


def _floor(q):
    return SV(z3.ToReal(z3.ToInt(toz3(q, want_real=True))), True)


def python_op(op, x, y=None):
    """(defined?, value) of the Python operation `x.<op>(y)` on real numbers (A1)."""
    if op in ("__add__", "__radd__"):
        return True, x + y
    if op == "__sub__":
        return True, x - y
    if op == "__rsub__":
        return True, y - x
    if op in ("__mul__", "__rmul__"):
        return True, x * y
    if op == "__truediv__":
        return compare("!=", y, 0), x / y
    if op == "__rtruediv__":
        return compare("!=", x, 0), y / x
    if op == "__floordiv__":
        return compare("!=", y, 0), _floor(x / y)
    if op == "__rfloordiv__":
        return compare("!=", x, 0), _floor(y / x)
    if op == "__mod__":
        return compare("!=", y, 0), x - y * _floor(x / y)
    if op == "__rmod__":
        return compare("!=", x, 0), y - x * _floor(y / x)
    if op == "__neg__":
        return True, 0 - x
    if op == "__pos__":
        return True, x
    if op == "__abs__":
        return True, _absv(x)
    return None, None  # no arithmetic meaning modelled (pow, getitem, call, round, len, divmod)


def make_interval(eng, name):
    """An operand's reported interval: each bound is None (unknown) or a real; forks over the 4 shapes."""
    form = eng.choose(4, f"{name} interval shape")
    lo = eng.fresh_real(f"{name}.lo") if form in (0, 1) else None
    hi = eng.fresh_real(f"{name}.hi") if form in (0, 2) else None
    if lo is not None and hi is not None:
        eng.assume(compare("<=", lo, hi))  # requires: an operand's interval is well formed (lo <= hi)
    eng.input_syms.append((f"{name}.lo", OPT_REAL, lo))
    eng.input_syms.append((f"{name}.hi", OPT_REAL, hi))
    return lo, hi


def point_in(eng, name, lo, hi):
    """A fresh value of an operand together with the hypothesis that it lies in the operand's interval."""
    x = eng.fresh_real(name)
    hyp = []
    if lo is not None:
        hyp.append(compare("<=", lo, x))
    if hi is not None:
        hyp.append(compare("<=", x, hi))
    eng.input_syms.append((name, C.Real(), x))
    return x, (sv_and(*hyp) if hyp else True)


def operand_stub(tag, lo, hi):
    """A random operand known only through supportInterval()."""
    o = PObj("RandomOperand", tag=tag)
    o.fields["supportInterval"] = BuiltinFn("supportInterval", lambda: (lo, hi))
    o.fields.update(_isLazy=True, _needsSampling=True, _needsLazyEval=False, _dependencies=(), _requiredProperties=())
    return o


def check_sound(eng, name, result, defined, value, hyp):
    """result = (l, r): every defined value under the hypothesis lies inside the non-None bounds."""
    ok = isinstance(result, tuple) and len(result) == 2
    eng.check(f"{name}#ensures.returns_a_pair", ok)
    if not ok:
        return
    lo, hi = result
    h = sv_and(hyp, defined)
    if lo is not None:
        eng.check(f"{name}#ensures.lower_bound_sound", _implies(h, compare("<=", lo, value)))
    if hi is not None:
        eng.check(f"{name}#ensures.upper_bound_sound", _implies(h, compare("<=", value, hi)))
    if lo is None and hi is None:
        eng.check(f"{name}#ensures.no_bound_claimed_is_sound", True)


def exc_name(exc):
    return getattr(exc.cls, "__name__", getattr(exc.cls, "name", str(exc.cls)))


BINARY_WITH_RULE = ["__add__", "__radd__", "__sub__", "__rsub__", "__mul__", "__rmul__", "__truediv__", "__rtruediv__"]
UNARY_WITH_RULE = ["__neg__", "__abs__"]
OTHER_OPS = ["__floordiv__", "__rfloordiv__", "__mod__", "__rmod__", "__pos__", "__pow__", "__rpow__", "__getitem__", "__call__", "__round__", "__len__", "__divmod__"]


def register(reg):
    import numbers as _numbers

    from pyvc.builtins_model import NativeModule

    # `numbers.Number` as the real ABC, so that issubclass(float, numbers.Number) has its Python meaning
    xm = getattr(reg, "extra_modules", None) or {}
    xm["numbers"] = NativeModule("numbers", {"Number": _numbers.Number, "Real": _numbers.Real})
    reg.extra_modules = xm

    def none_binop(I, sym, a, b):
        # Python: arithmetic on None is a TypeError
        if a is None or b is None:
            I.raise_("TypeError", f"unsupported operand type(s) for {sym}: NoneType")
        from pyvc.values import PyvcError

        raise PyvcError(f"binary operator {sym} on {a!r}, {b!r} not modelled (line {I.lineno})")

    reg.binop_fallback = none_binop
    register_support_interval(reg)
    register_handlers(reg)
    register_operator_node(reg)
    register_operator_init(reg)
    register_monotonic(reg)


# ------------------------------------------------------------------------------------------------
# (1) OperatorDistribution.supportInterval


def register_support_interval(reg):
    OD = f"{D}:OperatorDistribution"

    def make(op):
        unary = op in UNARY_WITH_RULE or op in ("__pos__", "__round__", "__len__")
        name = f"distributions.OperatorDistribution.supportInterval[{op}]"

        def setup(I, env):
            eng = I.eng
            l1, r1 = make_interval(eng, "object")
            obj = operand_stub("object", l1, r1)
            self = env.vars["self"]
            env.vars["_iv1"] = (l1, r1)
            if unary:
                operands = ()
                env.vars["_iv2"] = None
            else:
                l2, r2 = make_interval(eng, "operand")
                operands = (operand_stub("operand", l2, r2),)
                env.vars["_iv2"] = (l2, r2)
            self.fields.update(operator=op, object=obj, operands=operands, kwoperands=PDict())
            eng.input_syms.append(("operator", C.Const(None), op))

        def post(I, env, outcome):
            eng = I.eng
            if outcome[0] != "return":
                return  # reported by the generic no-unexpected-exception obligation (totality)
            l1, r1 = env.vars["_iv1"]
            x, hx = point_in(eng, "x", l1, r1)
            if env.vars["_iv2"] is not None:
                l2, r2 = env.vars["_iv2"]
                y, hy = point_in(eng, "y", l2, r2)
            else:
                y, hy = None, True
            defined, value = python_op(op, x, y)
            if defined is None:
                res = outcome[1]
                eng.check(f"{name}#ensures.no_bound_claimed_for_an_operator_without_interval_semantics", isinstance(res, tuple) and len(res) == 2 and res[0] is None and res[1] is None)
                return
            check_sound(eng, name, outcome[1], defined, value, sv_and(hx, hy))

        reg.add(
            C.Contract(
                f"{OD}.supportInterval",
                params=dict(self=C.Obj(OD)),
                setup=setup,
                post=post,
                inline=["supportInterval"],
                replay=replay_operator_support,
                properties=("C05",),
            ),
            key=f"{OD}.supportInterval[{op}]",
        )

    for op in BINARY_WITH_RULE + UNARY_WITH_RULE + OTHER_OPS:
        make(op)


def _stub_dist(lo, hi):
    from scenic.core.distributions import Distribution

    class Operand(Distribution):
        def __init__(self):
            super().__init__(valueType=float)

        def supportInterval(self):
            return lo, hi

    return Operand()


def _real_op(op, x, y):
    import operator as O

    table = {
        "__add__": lambda: x + y, "__radd__": lambda: y + x, "__sub__": lambda: x - y, "__rsub__": lambda: y - x,
        "__mul__": lambda: x * y, "__rmul__": lambda: y * x, "__truediv__": lambda: x / y, "__rtruediv__": lambda: y / x,
        "__floordiv__": lambda: x // y, "__rfloordiv__": lambda: y // x, "__mod__": lambda: x % y, "__rmod__": lambda: y % x,
        "__neg__": lambda: -x, "__pos__": lambda: +x, "__abs__": lambda: abs(x),
    }
    return table[op]() if op in table else None


def replay_operator_support(inputs, clause):
    """Real OperatorDistribution over operands whose supportInterval() is the model's; the value at the model's point."""
    from scenic.core.distributions import OperatorDistribution

    op = inputs["operator"]
    obj = _stub_dist(inputs.get("object.lo"), inputs.get("object.hi"))
    operands = ()
    if "operand.lo" in inputs:
        operands = (_stub_dist(inputs.get("operand.lo"), inputs.get("operand.hi")),)
    node = OperatorDistribution(op, obj, operands, {}, valueType=float)
    lo, hi = node.supportInterval()  # an exception here is reported by the runner (totality)
    x, y = inputs.get("x"), inputs.get("y")
    if x is None:
        return None
    try:
        v = _real_op(op, float(x), None if y is None else float(y))
    except ZeroDivisionError:
        return None
    if v is None:
        if lo is not None or hi is not None:
            return f"supportInterval of {op} claims ({lo}, {hi}) although no interval rule is specified for it"
        return None
    eps = 1e-9 * (1 + abs(v))
    if (lo is not None and v < lo - eps) or (hi is not None and v > hi + eps):
        return f"supportInterval() = ({lo}, {hi}) for {op} with operand intervals object=({inputs.get('object.lo')}, {inputs.get('object.hi')}) operand=({inputs.get('operand.lo')}, {inputs.get('operand.hi')}), but x={x}, y={y} gives the value {v}"
    return None


# ------------------------------------------------------------------------------------------------
# (2) makeOperatorHandler: every shortcut is an identity of Python arithmetic; otherwise the node is `self op arg`

_powfn = z3.Function("python_pow", z3.RealSort(), z3.RealSort(), z3.RealSort())


def python_op_ext(op, x, y):
    """python_op extended with the two facts about ** that the shortcuts may rely on (x**1 == x, x**0 == 1)."""
    if op in ("__pow__", "__rpow__"):
        base, ex = (x, y) if op == "__pow__" else (y, x)
        zb, ze = toz3(base, want_real=True), toz3(ex, want_real=True)
        return True, SV(z3.If(ze == 1, zb, z3.If(ze == 0, z3.RealVal(1), _powfn(zb, ze))), True)
    return python_op(op, x, y)


ALL_HANDLER_OPS = ["__neg__", "__pos__", "__abs__", "__round__", "__getitem__", "__len__"] + [
    "__add__", "__radd__", "__sub__", "__rsub__", "__mul__", "__rmul__", "__truediv__", "__rtruediv__", "__floordiv__",
    "__rfloordiv__", "__mod__", "__rmod__", "__divmod__", "__rdivmod__", "__pow__", "__rpow__",
]


def node_ctor(I, cls, args, kwargs):
    """OperatorDistribution(operator, obj, operands, kwoperands, valueType=None) as a record of its arguments."""
    names = ["operator", "object", "operands", "kwoperands", "valueType"]
    b = dict(zip(names, args))
    b.update(kwargs)
    o = PObj(cls)
    kw = b.get("kwoperands")
    kwd = PDict(list(zip(kw.keys, kw.vals))) if isinstance(kw, PDict) else PDict(list((kw or {}).items()))
    ops = tuple(I.iterate(b.get("operands", ())))
    o.fields.update(operator=b.get("operator"), object=b.get("object"), operands=ops, kwoperands=kwd, _valueType=b.get("valueType"))
    o.fields.update(_isLazy=True, _needsSampling=True, _needsLazyEval=False, _requiredProperties=(), _dependencies=(b.get("object"),) + ops + tuple(kwd.vals))
    o.fields["_conditioned"] = o
    return o


def register_handlers(reg):
    reg.constructors[f"{D}:OperatorDistribution"] = node_ctor
    reg.trust("OperatorDistribution.__init__ (at construction sites inside other carriers)", "modelled as a record of (operator, object, operands, kwoperands, valueType); the real initialiser has its own contract OperatorDistribution.__init__")
    ori_cls = repo_class("scenic.core.vectors:Orientation")
    identity = PObj(ori_cls, tag="globalOrientation")
    reg.global_overrides["scenic.core.vectors:globalOrientation"] = identity
    reg.trust("vectors.globalOrientation", "an opaque token for the identity orientation (q * identity == q is a rotation-group axiom, C07)")
    name = "distributions.makeOperatorHandler"

    def setup(I, env):
        eng = I.eng
        op = ALL_HANDLER_OPS[eng.choose(len(ALL_HANDLER_OPS), "operator")]
        env.vars["op"] = op
        env.vars["ty"] = None
        eng.input_syms.append(("operator", C.Const(None), op))

    def post(I, env, outcome):
        eng = I.eng
        if outcome[0] != "return":
            return
        handler, op = outcome[1], env.vars["op"]
        eng.check(f"{name}#ensures.returns_a_handler", isinstance(handler, FuncVal))
        if not isinstance(handler, FuncVal):
            return
        vt_k = eng.choose(3, "value type")
        vt = (float, int, ori_cls)[vt_k]
        eng.input_syms.append(("valueType", C.Const(None), ("float", "int", "Orientation")[vt_k]))
        self = PObj(repo_class(f"{D}:Distribution"), tag="X")
        self.fields.update(_valueType=vt, _isLazy=True, _needsSampling=True, _needsLazyEval=False, _dependencies=(), _requiredProperties=())
        self.fields["_conditioned"] = self
        unary = op in ("__neg__", "__pos__", "__abs__", "__len__")
        if unary:
            args = []
        elif vt is ori_cls:
            args = [identity if eng.choose(2, "arg is the identity orientation?") == 0 else eng.fresh_real("c")]
        else:
            kind = eng.choose(2, "constant kind")
            c = eng.fresh_real("c") if kind == 0 else eng.fresh_int("c")
            eng.input_syms.append(("c", C.Real() if kind == 0 else C.Int(), c))
            args = [c]
        try:
            res = I.call_value(handler, [self] + args)
        except SymRaise as sr:
            eng.check(f"{name}#ensures.handler_does_not_raise", False, detail=repr(sr.exc))
            return
        if res is self:
            # a shortcut was taken: it must be an identity of Python arithmetic on the value type
            if vt is ori_cls:
                eng.check(f"{name}#ensures.orientation_shortcut_only_for_multiplication_by_the_identity", op in ("__mul__", "__rmul__") and args[0] is identity)
                return
            x = eng.fresh_real("x") if vt is float else eng.fresh_int("x")
            eng.input_syms.append(("x", C.Real() if vt is float else C.Int(), x))
            if unary:
                defined, value = python_op_ext(op, x, None)
            else:
                defined, value = python_op_ext(op, x, args[0])
            if defined is None:
                eng.check(f"{name}#ensures.no_shortcut_for_an_operator_without_arithmetic_meaning", False)
                return
            eng.check(f"{name}#ensures.shortcut_is_an_identity_of_python_arithmetic", _implies(defined, compare("==", value, x)))
            eng.check(f"{name}#ensures.shortcut_operation_is_defined", defined)
            return
        ok = isinstance(res, PObj) and getattr(res.cls, "name", None) == "OperatorDistribution"
        eng.check(f"{name}#ensures.otherwise_builds_an_operator_node", ok)
        if not ok:
            return
        f = res.fields
        eng.check(f"{name}#ensures.node_has_the_operator", f["operator"] == op)
        eng.check(f"{name}#ensures.node_object_is_self", f["object"] is self)
        same = len(f["operands"]) == len(args) and all((a is b) for a, b in zip(f["operands"], args))
        eng.check(f"{name}#ensures.node_operands_are_the_arguments_in_order", same)
        eng.check(f"{name}#ensures.node_has_no_keyword_operands", len(f["kwoperands"].keys) == 0)

    reg.add(
        C.Contract(
            f"{D}:makeOperatorHandler",
            params=dict(op=C.Const(None), ty=C.Const(None)),
            setup=setup,
            post=post,
            replay=replay_handler,
            properties=("C05",),
        )
    )


def replay_handler(inputs, clause):
    from scenic.core.distributions import Distribution

    op, vt = inputs.get("operator"), inputs.get("valueType")
    if vt not in ("float", "int") or "c" not in inputs or "x" not in inputs:
        return None
    ty = float if vt == "float" else int

    class Leaf(Distribution):
        def __init__(self):
            super().__init__(valueType=ty)

    d = Leaf()
    c, x = inputs["c"], ty(inputs["x"]) if vt == "int" else float(inputs["x"])
    res = getattr(d, op)(c)
    if res is not d:
        return None
    try:
        v = _real_op(op, x, c) if op not in ("__pow__", "__rpow__") else (x**c if op == "__pow__" else c**x)
    except ZeroDivisionError:
        return f"X.{op}({c!r}) is simplified to X although the operation is undefined for X = {x!r}"
    if v != x:
        sym = {"__floordiv__": "//", "__truediv__": "/", "__pow__": "**", "__add__": "+", "__radd__": "+", "__sub__": "-", "__mul__": "*", "__rmul__": "*"}.get(op, op)
        return f"X {sym} {c!r} is simplified to X (the very same node), but for the sample X = {x!r} Python gives {v!r}"
    return None


# ------------------------------------------------------------------------------------------------
# (3) OperatorDistribution.sampleGiven / evaluateInner / __init__: homomorphism

REVERSE_OF = {"__add__": "__radd__", "__rsub__": "__sub__", "__mul__": "__rmul__", "__rtruediv__": "__truediv__", "__pow__": "__rpow__"}
SYMBOL_OF = {"__add__": "+", "__rsub__": "-", "__mul__": "*", "__rtruediv__": "/", "__pow__": "**"}


def install_value_in_context(reg):
    """valueInContext at call sites inside other carriers: an abstract, logged evaluation (its own contract is below)."""

    def vic(I, value, context):
        memo = I.__dict__.setdefault("vic_memo", {})
        I.__dict__.setdefault("vic_log", []).append((value, context))
        if id(value) not in memo:
            memo[id(value)] = (value, PObj("ValueInContext", tag=f"ctx({getattr(value, 'tag', value)})"))
        return memo[id(value)][1]

    reg.models[f"{L}:valueInContext"] = vic
    reg.trust("lazy_eval.valueInContext (at call sites inside evaluateInner carriers)", "abstract logged function of (value, context); the real function has its own contract")


def reset_vic(I):
    I.vic_memo, I.vic_log = {}, []


def vic_of(I, value):
    m = I.vic_memo.get(id(value))
    return None if m is None else m[1]


def register_operator_node(reg):
    install_value_in_context(reg)
    OD = f"{D}:OperatorDistribution"

    # ---------------------------------------------------------------- sampleGiven
    SHAPES = ["__add__", "__rsub__", "__mul__", "__getitem__", "__call__", "method_with_keywords"]

    def setup_sg(I, env):
        eng = I.eng
        shape = SHAPES[eng.choose(len(SHAPES), "operator shape")]
        op = "__call__" if shape == "method_with_keywords" else shape
        npos = 2 if shape == "method_with_keywords" else (0 if shape == "__call__" and False else 1)
        kwnames = ["beta", "alpha"] if shape == "method_with_keywords" else []
        reversible = op in REVERSE_OF
        calls = []
        R, R2 = PObj("Result", tag="forward result"), PObj("Result", tag="reverse result")
        fwd_ni = reversible and eng.choose(2, "forward returns NotImplemented?") == 1
        rev_ni = fwd_ni and eng.choose(2, "reverse returns NotImplemented?") == 1
        first = PObj("SampledObject", tag="v(object)")

        def forward(*a, **k):
            calls.append(("forward", a, k))
            return NotImplemented if fwd_ni else R

        first.fields[op] = BuiltinFn(op, forward)
        keys = [PObj("RandomOperand", tag=f"operand{i}") for i in range(npos)]
        vals = [PObj("SampledOperand", tag=f"v(operand{i})") for i in range(npos)]
        if reversible:

            def reverse(*a, **k):
                calls.append(("reverse", a, k))
                return NotImplemented if rev_ni else R2

            vals[0].fields[REVERSE_OF[op]] = BuiltinFn(REVERSE_OF[op], reverse)
        kwkeys = [PObj("RandomOperand", tag=f"kw:{n}") for n in kwnames]
        kwvals = [PObj("SampledOperand", tag=f"v(kw:{n})") for n in kwnames]
        objk = PObj("RandomOperand", tag="object")
        self = env.vars["self"]
        self.fields.update(operator=op, object=objk, operands=tuple(keys), kwoperands=PDict(list(zip(kwnames, kwkeys))), symbol=SYMBOL_OF.get(op), reverse=REVERSE_OF.get(op))
        env.vars["value"] = identity_map(I, [(objk, first)] + list(zip(keys, vals)) + list(zip(kwkeys, kwvals)))
        env.vars.update(_calls=calls, _R=R, _R2=R2, _fwd_ni=fwd_ni, _rev_ni=rev_ni, _first=first, _vals=vals, _kw=list(zip(kwnames, kwvals)), _reversible=reversible)
        eng.input_syms.append(("shape", C.Const(None), shape))
        eng.input_syms.append(("forward_not_implemented", C.Const(None), fwd_ni))
        eng.input_syms.append(("reverse_not_implemented", C.Const(None), rev_ni))

    def post_sg(I, env, outcome):
        eng = I.eng
        name = "distributions.OperatorDistribution.sampleGiven"
        v = env.vars
        calls, vals, kw = v["_calls"], v["_vals"], v["_kw"]
        fw = [c for c in calls if c[0] == "forward"]
        rv = [c for c in calls if c[0] == "reverse"]
        eng.check(f"{name}#ensures.operation_applied_exactly_once_to_the_sampled_object", len(fw) == 1 and calls[0][0] == "forward")
        if len(fw) == 1:
            a, k = fw[0][1], fw[0][2]
            eng.check(f"{name}#ensures.positional_operands_are_the_sampled_operands_in_order", len(a) == len(vals) and all(x is y for x, y in zip(a, vals)))
            eng.check(f"{name}#ensures.keyword_operands_keep_their_names", sorted(k) == sorted(n for n, _ in kw) and all(k.get(n) is val for n, val in kw))
        if not v["_fwd_ni"]:
            eng.check(f"{name}#ensures.result_is_what_the_operation_returned", outcome[0] == "return" and outcome[1] is v["_R"])
            eng.check(f"{name}#ensures.no_reverse_call_unless_NotImplemented", len(rv) == 0)
            return
        ok = len(rv) == 1 and len(rv[0][1]) == 1 and rv[0][1][0] is v["_first"] and not rv[0][2]
        eng.check(f"{name}#ensures.reflected_operation_called_on_the_operand_with_the_object", ok)
        if v["_rev_ni"]:
            eng.check(f"{name}#raises.TypeError_when_both_operations_return_NotImplemented", outcome[0] == "raise" and exc_name(outcome[1]) == "TypeError")
        else:
            eng.check(f"{name}#ensures.result_is_what_the_reflected_operation_returned", outcome[0] == "return" and outcome[1] is v["_R2"])

    reg.add(
        C.Contract(
            f"{OD}.sampleGiven",
            params=dict(self=C.Obj(OD), value=C.Const(None)),
            setup=setup_sg,
            post=post_sg,
            raises=[C.Raises("TypeError", mode="may")],
            inline=["DefaultIdentityDict.__getitem__"],
            replay=replay_operator_sample,
            properties=("C05",),
        )
    )

    # ---------------------------------------------------------------- evaluateInner
    def setup_ei(I, env):
        eng = I.eng
        reset_vic(I)
        npos = eng.choose(3, "number of positional operands")
        nkw = eng.choose(3, "number of keyword operands")
        kwnames = ["beta", "alpha"][:nkw]
        self = env.vars["self"]
        objk = PObj("LazyOperand", tag="object")
        keys = [PObj("LazyOperand", tag=f"operand{i}") for i in range(npos)]
        kwkeys = [PObj("LazyOperand", tag=f"kw:{n}") for n in kwnames]
        self.fields.update(operator="__call__", object=objk, operands=tuple(keys), kwoperands=PDict(list(zip(kwnames, kwkeys))), symbol=None, reverse=None)
        ctx = PObj("Context", tag="context")
        env.vars["context"] = ctx
        env.vars.update(_obj=objk, _keys=keys, _kw=list(zip(kwnames, kwkeys)), _ctx=ctx)
        eng.input_syms.append(("positional", C.Const(None), npos))
        eng.input_syms.append(("keywords", C.Const(None), kwnames))

    def post_ei(I, env, outcome):
        eng = I.eng
        name = "distributions.OperatorDistribution.evaluateInner"
        if outcome[0] != "return":
            return
        v = env.vars
        res = outcome[1]
        ok = isinstance(res, PObj) and getattr(res.cls, "name", None) == "OperatorDistribution"
        eng.check(f"{name}#ensures.builds_an_operator_node", ok)
        if not ok:
            return
        f = res.fields
        eng.check(f"{name}#ensures.same_operator", f["operator"] == "__call__")
        eng.check(f"{name}#ensures.object_is_the_context_value_of_the_object", f["object"] is vic_of(I, v["_obj"]) and f["object"] is not None)
        eng.check(f"{name}#ensures.operands_are_the_context_values_of_the_corresponding_operands", len(f["operands"]) == len(v["_keys"]) and all(a is vic_of(I, k) for a, k in zip(f["operands"], v["_keys"])))
        kws = f["kwoperands"]
        eng.check(f"{name}#ensures.keyword_names_preserved_in_order", list(kws.keys) == [n for n, _ in v["_kw"]])
        eng.check(f"{name}#ensures.keyword_operands_are_the_context_values_of_the_corresponding_operands", len(kws.vals) == len(v["_kw"]) and all(a is vic_of(I, k) for a, (_, k) in zip(kws.vals, v["_kw"])))
        eng.check(f"{name}#ensures.everything_evaluated_in_the_given_context", all(c is v["_ctx"] for _, c in I.vic_log))

    reg.add(
        C.Contract(
            f"{OD}.evaluateInner",
            params=dict(self=C.Obj(OD), context=C.Const(None)),
            setup=setup_ei,
            post=post_ei,
            replay=replay_operator_evaluate,
            properties=("C05",),
        )
    )


def replay_operator_sample(inputs, clause):
    """Real OperatorDistribution.sampleGiven on recording operands."""
    from scenic.core.distributions import OperatorDistribution
    from scenic.core.utils import DefaultIdentityDict

    shape = inputs.get("shape")
    op = "__call__" if shape == "method_with_keywords" else shape
    fwd_ni, rev_ni = bool(inputs.get("forward_not_implemented")), bool(inputs.get("reverse_not_implemented"))
    calls = []

    class Rec:
        def __init__(self, tag):
            self.tag = tag

        def __repr__(self):
            return self.tag

    first = Rec("v(object)")
    npos = 2 if shape == "method_with_keywords" else 1
    kwn = ["beta", "alpha"] if shape == "method_with_keywords" else []
    vals = [Rec(f"v(operand{i})") for i in range(npos)]
    kwv = {n: Rec(f"v(kw:{n})") for n in kwn}

    def fwd(*a, **k):
        calls.append(("forward", a, k))
        return NotImplemented if fwd_ni else "R"

    def rev(*a, **k):
        calls.append(("reverse", a, k))
        return NotImplemented if rev_ni else "R2"

    setattr(first, op, fwd)
    if op in REVERSE_OF:
        setattr(vals[0], REVERSE_OF[op], rev)

    class Leaf:
        pass

    from scenic.core.distributions import Distribution

    class Key(Distribution):
        def __init__(self):
            super().__init__()

    objk, keys, kwk = Key(), [Key() for _ in vals], {n: Key() for n in kwn}
    node = OperatorDistribution(op, objk, tuple(keys), dict(kwk), valueType=object)
    m = DefaultIdentityDict()
    m[objk] = first
    for k, v in zip(keys, vals):
        m[k] = v
    for n in kwn:
        m[kwk[n]] = kwv[n]
    try:
        res = node.sampleGiven(m)
    except TypeError as e:
        if fwd_ni and rev_ni:
            return None
        return f"sampleGiven raised TypeError: {e}"
    fw = [c for c in calls if c[0] == "forward"]
    if len(fw) != 1 or list(fw[0][1]) != vals or fw[0][2] != kwv:
        return f"{op} was applied as {calls!r}; expected one call with positional {vals!r} and keywords {kwv!r}"
    want = "R" if not fwd_ni else ("R2" if not rev_ni else None)
    if res != want:
        return f"sampleGiven returned {res!r}, expected {want!r} (calls {calls!r})"
    return None


def replay_operator_evaluate(inputs, clause):
    """Real evaluateInner of a node with lazily evaluated positional and keyword operands."""
    from scenic.core.distributions import Distribution, OperatorDistribution
    from scenic.core.lazy_eval import DelayedArgument, LazilyEvaluable

    npos, kwnames = int(inputs.get("positional", 0)), list(inputs.get("keywords", []))

    class Leaf(Distribution):
        def __init__(self):
            super().__init__()

    def lazy(tag):
        return DelayedArgument(("p",), lambda ctx: ("ctx", tag), _internal=True)

    obj = Leaf()
    ops = tuple(lazy(f"operand{i}") for i in range(npos))
    kws = {n: lazy(f"kw:{n}") for n in kwnames}
    node = OperatorDistribution("__call__", obj, ops, kws, valueType=object)
    ctx = LazilyEvaluable.makeContext(p=1)
    res = node.evaluateInner(ctx)  # an exception inside the repository is reported by the runner
    want_ops = tuple(("ctx", f"operand{i}") for i in range(npos))
    want_kw = {n: ("ctx", f"kw:{n}") for n in kwnames}
    if tuple(res.operands) != want_ops or dict(res.kwoperands) != want_kw or list(res.kwoperands) != kwnames:
        return f"evaluateInner built operands {res.operands!r} / keywords {res.kwoperands!r}; expected {want_ops!r} / {want_kw!r}"
    return None


# ------------------------------------------------------------------------------------------------
# (3b) OperatorDistribution.__init__: the node records the operation faithfully

REFLECTED = {}
for _o in ["add", "sub", "mul", "truediv", "floordiv", "mod", "divmod", "pow"]:
    REFLECTED[f"__{_o}__"] = f"__r{_o}__"
    REFLECTED[f"__r{_o}__"] = f"__{_o}__"


def register_operator_init(reg):
    from .common import install_distribution_stubs
    from pyvc.values import Opaque

    install_distribution_stubs(reg)
    reg.models["scenic.core.type_support:underlyingType"] = lambda I, thing: Opaque("underlyingType")
    reg.models[f"{D}:OperatorDistribution.inferType"] = lambda I, *a, **k: Opaque("inferredType")
    reg.models[f"{D}:AttributeDistribution.inferType"] = lambda I, *a, **k: Opaque("inferredType")
    reg.trust("type_support.underlyingType / *.inferType", "stubs returning an unknown type: type inference is not a carrier of C05")
    OD = f"{D}:OperatorDistribution"
    OPS = ["__add__", "__radd__", "__rsub__", "__floordiv__", "__rpow__", "__neg__", "__getitem__", "__call__"]

    def setup(I, env):
        eng = I.eng
        op = OPS[eng.choose(len(OPS), "operator")]
        npos = 0 if op == "__neg__" else (2 if op == "__call__" else 1)
        kwn = ["beta", "alpha"] if op == "__call__" else []
        obj = operand_stub("object", None, None)
        ops = [operand_stub(f"operand{i}", None, None) for i in range(npos)]
        kws = [operand_stub(f"kw:{n}", None, None) for n in kwn]
        as_list = eng.choose(2, "operands given as a list?") == 1
        env.vars.update(operator=op, obj=obj, operands=PList(ops) if as_list else tuple(ops), kwoperands=PDict(list(zip(kwn, kws))), valueType=None)
        env.vars.update(_ops=ops, _kw=list(zip(kwn, kws)))

    def post(I, env, outcome):
        eng = I.eng
        name = "distributions.OperatorDistribution.__init__"
        if outcome[0] != "return":
            return
        v, f = env.vars, env.vars["self"].fields
        op = v["operator"]
        eng.check(f"{name}#ensures.operator_recorded", f.get("operator") == op)
        eng.check(f"{name}#ensures.object_recorded", f.get("object") is v["obj"])
        got = f.get("operands")
        eng.check(f"{name}#ensures.operands_recorded_in_order", isinstance(got, tuple) and len(got) == len(v["_ops"]) and all(a is b for a, b in zip(got, v["_ops"])))
        kw = f.get("kwoperands")
        eng.check(f"{name}#ensures.keyword_operands_recorded_with_their_names", isinstance(kw, PDict) and list(kw.keys) == [n for n, _ in v["_kw"]] and all(a is b for a, (_, b) in zip(kw.vals, v["_kw"])))
        eng.check(f"{name}#ensures.reflected_operator_is_the_python_reflection", f.get("reverse") == REFLECTED.get(op))
        eng.check(f"{name}#ensures.symbol_only_for_reversible_operators", (f.get("symbol") is not None) == (op in REFLECTED))
        deps = f.get("_dependencies")
        want = [v["obj"]] + v["_ops"] + [b for _, b in v["_kw"]]
        eng.check(f"{name}#ensures.dependencies_are_object_then_operands_then_keyword_operands", isinstance(deps, tuple) and len(deps) == len(want) and all(a is b for a, b in zip(deps, want)))

    reg.add(
        C.Contract(
            f"{OD}.__init__",
            params=dict(self=C.Obj(OD), operator=C.Const(None), obj=C.Const(None), operands=C.Const(None), kwoperands=C.Const(None), valueType=C.Const(None)),
            setup=setup,
            post=post,
            inline=["toDistribution"],
            properties=("C05",),
        )
    )


# ------------------------------------------------------------------------------------------------
# (4) monotonicDistributionFunction.support (keyword arm included) and the monotonicity precondition at every
#     decoration site found in the tree; custom support functions of distributionFunction(support=...)

_mono = z3.Function("monotone_method", z3.RealSort(), z3.RealSort(), z3.RealSort(), z3.RealSort())


def register_monotonic(reg):
    name = "distributions.monotonicDistributionFunction.support"

    def closure_env(I):
        def method(*args, **kwargs):
            vals = list(args) + [kwargs[k] for k in sorted(kwargs)]
            if any(v is None for v in vals):
                I.raise_("TypeError", "the wrapped function does not accept None")
            if len(vals) != 3:
                I.raise_("TypeError", "wrong number of arguments")
            return SV(_mono(*[toz3(v, want_real=True) for v in vals]), True)

        return dict(method=BuiltinFn("method", method))

    def setup(I, env):
        eng = I.eng
        a1, a2, b1, b2, c1, c2 = z3.Reals("a1!m a2!m b1!m b2!m c1!m c2!m")
        # requires: `method` is non-decreasing in every argument
        eng.assume(z3.ForAll([a1, a2, b1, b2, c1, c2], z3.Implies(z3.And(a1 <= a2, b1 <= b2, c1 <= c2), _mono(a1, b1, c1) <= _mono(a2, b2, c2)), patterns=[z3.MultiPattern(_mono(a1, b1, c1), _mono(a2, b2, c2))]))
        ivs = [make_interval(eng, n) for n in ("arg0", "arg1", "kw")]
        env.vars["subsupports"] = (ivs[0], ivs[1])
        env.vars["k"] = ivs[2]
        env.vars["_ivs"] = ivs

    def post(I, env, outcome):
        eng = I.eng
        if outcome[0] != "return":
            return
        pts, hyps = [], []
        for n, (lo, hi) in zip(("x0", "x1", "xk"), env.vars["_ivs"]):
            x, h = point_in(eng, n, lo, hi)
            pts.append(x)
            hyps.append(h)
        value = SV(_mono(*[toz3(p, want_real=True) for p in pts]), True)
        check_sound(eng, name, outcome[1], True, value, sv_and(*hyps))
        res = outcome[1]
        if isinstance(res, tuple) and len(res) == 2:
            ivs = env.vars["_ivs"]
            eng.check(f"{name}#ensures.lower_bound_known_when_all_lower_bounds_known", (res[0] is not None) or any(lo is None for lo, _ in ivs))
            eng.check(f"{name}#ensures.upper_bound_known_when_all_upper_bounds_known", (res[1] is not None) or any(hi is None for _, hi in ivs))

    reg.add(
        C.Contract(
            f"{D}:monotonicDistributionFunction.support",
            params=dict(subsupports=C.Const(None), k=C.Const(None)),
            kwargs={"k": None},
            closure_env=closure_env,
            setup=setup,
            post=post,
            replay=replay_monotonic_support,
            note="two positional arguments and one keyword argument (symbolic intervals, each bound possibly unknown); "
            "precondition: method is non-decreasing in every argument (discharged at the decoration sites)",
            bounded=True,
            properties=("C05",),
        )
    )

    # ---- decoration sites
    for mod, fn in find_decorated("monotonicDistributionFunction"):
        register_monotone_site(reg, mod, fn)
    for mod, fn, sup in find_custom_supports():
        register_custom_support_site(reg, mod, fn, sup)


_mention_cache = {}


def _scenic_modules_mentioning(word):
    import os

    key = (extract.SRC, word)
    if key in _mention_cache:
        return _mention_cache[key]
    out = _mention_cache[key] = []
    root = os.path.join(extract.SRC, "scenic")
    for dp, dn, fns in os.walk(root):
        for fn in fns:
            if fn.endswith(".py"):
                p = os.path.join(dp, fn)
                try:
                    with open(p, encoding="utf-8") as fh:
                        if word not in fh.read():
                            continue
                except OSError:
                    continue
                rel = os.path.relpath(p, extract.SRC)[:-3].replace(os.sep, ".")
                if rel.endswith(".__init__"):
                    rel = rel[: -len(".__init__")]
                out.append(rel)
    out.sort()
    return out


def find_decorated(deco):
    """Module-level functions decorated with @<deco> (bare name or call) anywhere under src/scenic."""
    out = []
    for mod in _scenic_modules_mentioning("@" + deco):
        m = extract.get_module(mod)
        for node in m.tree.body:
            if isinstance(node, ast.FunctionDef):
                for d in node.decorator_list:
                    f = d.func if isinstance(d, ast.Call) else d
                    if isinstance(f, ast.Name) and f.id == deco:
                        out.append((mod, node.name))
    return out


def find_custom_supports():
    """Module-level functions decorated with @distributionFunction(support=<module-level name>)."""
    out = []
    for mod in _scenic_modules_mentioning("@distributionFunction(support="):
        m = extract.get_module(mod)
        for node in m.tree.body:
            if isinstance(node, ast.FunctionDef):
                for d in node.decorator_list:
                    if isinstance(d, ast.Call) and isinstance(d.func, ast.Name) and d.func.id == "distributionFunction":
                        for kw in d.keywords:
                            if kw.arg == "support" and isinstance(kw.value, ast.Name) and isinstance(m.top.get(kw.value.id), ast.FunctionDef):
                                out.append((mod, node.name, kw.value.id))
    return out


def _python_builtins(I):
    return PDict([("max", I.builtins["max"]), ("min", I.builtins["min"]), ("abs", I.builtins["abs"])])


def register_monotone_site(reg, mod, fn):
    target = f"{mod}:{fn}"
    short = f"{mod.split('.')[-1]}.{fn}"
    N = 2
    holder = {}

    def setup(I, env):
        eng = I.eng
        holder["c"].env["__builtins__"] = _python_builtins(I)
        xs = [eng.fresh_real(f"x{i}") for i in range(N)]
        ys = [eng.fresh_real(f"y{i}") for i in range(N)]
        for i in range(N):
            eng.assume(compare("<=", xs[i], ys[i]))
            eng.input_syms.append((f"x{i}", C.Real(), xs[i]))
            eng.input_syms.append((f"y{i}", C.Real(), ys[i]))
        env.vars["args"] = tuple(xs)
        env.vars["_ys"] = ys

    def post(I, env, outcome):
        eng = I.eng
        if outcome[0] != "return":
            return
        ex = extract.extract(target)
        f = FuncVal(ex.node, ex.module, None, target, None)
        try:
            r2 = I.run_function(f, list(env.vars["_ys"]), {}, holder["c"])
        except SymRaise as sr:
            eng.check(f"{short}#requires_of_monotonicDistributionFunction.total_on_reals", False, detail=repr(sr.exc))
            return
        eng.check(f"{short}#requires_of_monotonicDistributionFunction.non_decreasing_in_every_argument", compare("<=", outcome[1], r2))

    c = C.Contract(
        target,
        params=dict(args=C.Const(None)),
        setup=setup,
        post=post,
        replay=make_replay_monotone_site(mod, fn),
        note="decoration site of @monotonicDistributionFunction: called with 2 real arguments x <= y componentwise",
        bounded=True,
        properties=("C05",),
    )
    holder["c"] = c
    reg.add(c, key=f"{target}[monotone]")


def make_replay_monotone_site(mod, fn):
    def replay(inputs, clause):
        import importlib

        from scenic.core.distributions import FunctionDistribution, Range, supportInterval, underlyingFunction

        f = getattr(importlib.import_module(mod), fn)
        raw = underlyingFunction(f)
        xs = [float(inputs[f"x{i}"]) for i in range(2)]
        ys = [float(inputs[f"y{i}"]) for i in range(2)]
        a, b = raw(*xs), raw(*ys)
        if a > b + 1e-12:
            lo_hi = None
            try:
                # the consequence for supports: an interval whose ends are (x_i, y_i)
                d = f(*[Range(x, y) if x < y else x for x, y in zip(xs, ys)])
                lo_hi = supportInterval(d)
            except Exception:
                pass
            return f"{mod}.{fn} is declared monotonic, but {fn}{tuple(xs)} = {a} > {fn}{tuple(ys)} = {b} although {xs} <= {ys} componentwise; supportInterval({fn}(Range(x_i, y_i)...)) = {lo_hi}"
        return None

    return replay


def register_custom_support_site(reg, mod, fn, sup):
    target = f"{mod}:{sup}"
    short = f"{mod.split('.')[-1]}.{sup}"
    N = 2
    holder = {}

    def setup(I, env):
        eng = I.eng
        holder["c"].env["__builtins__"] = _python_builtins(I)
        ivs = [make_interval(eng, f"arg{i}") for i in range(N)]
        env.vars["subsupports"] = tuple(ivs)
        env.vars["_ivs"] = ivs

    def post(I, env, outcome):
        eng = I.eng
        if outcome[0] != "return":
            return
        pts, hyps = [], []
        for i, (lo, hi) in enumerate(env.vars["_ivs"]):
            x, h = point_in(eng, f"x{i}", lo, hi)
            pts.append(x)
            hyps.append(h)
        ex = extract.extract(f"{mod}:{fn}")
        f = FuncVal(ex.node, ex.module, None, f"{mod}:{fn}", None)
        try:
            value = I.run_function(f, pts, {}, holder["c"])
        except SymRaise:
            return
        check_sound(eng, f"{short}[support of {fn}]", outcome[1], True, value, sv_and(*hyps))

    ex = extract.extract(target)
    params = dict(subsupports=C.Const(None)) if ex.node.args.vararg is not None and ex.node.args.vararg.arg == "subsupports" else None
    if params is None:
        return  # unknown calling convention: listed as not reached
    c = C.Contract(target, params=params, setup=setup, post=post, note=f"custom support function of {fn}: 2 arguments", bounded=True, properties=("C05",))
    holder["c"] = c
    reg.add(c, key=f"{target}[support of {fn}]")


def replay_monotonic_support(inputs, clause):
    """Real monotonicDistributionFunction around a monotone function of two positional and one keyword argument."""
    from scenic.core.distributions import monotonicDistributionFunction

    def f(a, b, k=0.0):
        return a + b + k

    h = monotonicDistributionFunction(f)
    ivs = [(inputs.get(f"{n}.lo"), inputs.get(f"{n}.hi")) for n in ("arg0", "arg1", "kw")]
    d = h(_stub_dist(*ivs[0]), _stub_dist(*ivs[1]), k=_stub_dist(*ivs[2]))
    lo, hi = d.supportInterval()
    pts = [inputs.get(n) for n in ("x0", "x1", "xk")]
    if any(p is None for p in pts):
        # no point in the model (a totality obligation): take the interval ends
        pts = [iv[0] if iv[0] is not None else (iv[1] if iv[1] is not None else 0.0) for iv in ivs]
    v = f(float(pts[0]), float(pts[1]), k=float(pts[2]))
    if (lo is not None and v < lo - 1e-9) or (hi is not None and v > hi + 1e-9):
        return f"support of a monotone f(a, b, k=) over intervals {ivs} is reported as ({lo}, {hi}) but f{tuple(pts)} = {v}"
    if lo is None and all(iv[0] is not None for iv in ivs):
        return f"lower bound unknown although every lower bound is known: {ivs}"
    if hi is None and all(iv[1] is not None for iv in ivs):
        return f"upper bound unknown although every upper bound is known: {ivs}"
    return None
