"""Sidecar contracts for the lifting layer of scenic.core.distributions / lazy_eval / geometry (C05).

Oracles (all from the property statement, none from the code):
  * interval soundness: a reported bound (not None) is a bound of EVERY value `op(x, y)` the expression can take when
    the operands range over their own reported intervals; computing the interval never raises;
  * simplification shortcuts are identities of Python arithmetic on the value type;
  * sampling is a homomorphism: the Python operation applied to the sampled operands, in order, keyword names kept;
  * evaluateInner rebuilds the same operation over the context values of the *corresponding* operands.
Floats are reals (A1)."""
import ast

import z3

from pyvc import contracts as C
from pyvc import extract
from pyvc.interp import BuiltinFn, FuncVal, SymRaise
from pyvc.values import Infinity, PDict, PExc, PList, PObj, SV, compare, sv_and, sv_ite, sv_not, sv_or, tobool, toz3

from .common import repo_class
from .distributions import identity_map

D = "scenic.core.distributions"
L = "scenic.core.lazy_eval"
G = "scenic.core.geometry"

OPT_REAL = C.Opt(C.Real())


# ------------------------------------------------------------------------------------------------
# helpers


def _implies(h, c):
    return z3.Implies(tobool(h), tobool(c))


def _absv(x):
    return sv_ite(compare(">=", x, 0), x, 0 - x)


def _floor(q):
    return SV(z3.ToReal(z3.ToInt(toz3(q, want_real=True))), True)


def python_op(op, x, y=None):
    """(defined?, value) of the Python operation `x.<op>(y)` on real numbers (A1)."""
    if op in ("__add__", "__radd__"):
        return True, x + y
    if op == "__sub__":
        return True, x - y
    if op == "__rsub__":
        return True, y - x
    if op in ("__mul__", "__rmul__"):
        return True, x * y
    if op == "__truediv__":
        return compare("!=", y, 0), x / y
    if op == "__rtruediv__":
        return compare("!=", x, 0), y / x
    if op == "__floordiv__":
        return compare("!=", y, 0), _floor(x / y)
    if op == "__rfloordiv__":
        return compare("!=", x, 0), _floor(y / x)
    if op == "__mod__":
        return compare("!=", y, 0), x - y * _floor(x / y)
    if op == "__rmod__":
        return compare("!=", x, 0), y - x * _floor(y / x)
    if op == "__neg__":
        return True, 0 - x
    if op == "__pos__":
        return True, x
    if op == "__abs__":
        return True, _absv(x)
    return None, None  # no arithmetic meaning modelled (pow, getitem, call, round, len, divmod)


def make_interval(eng, name):
    """An operand's reported interval: each bound is None (unknown) or a real; forks over the 4 shapes."""
    form = eng.choose(4, f"{name} interval shape")
    lo = eng.fresh_real(f"{name}.lo") if form in (0, 1) else None
    hi = eng.fresh_real(f"{name}.hi") if form in (0, 2) else None
    if lo is not None and hi is not None:
        eng.assume(compare("<=", lo, hi))  # requires: an operand's interval is well formed (lo <= hi)
    eng.input_syms.append((f"{name}.lo", OPT_REAL, lo))
    eng.input_syms.append((f"{name}.hi", OPT_REAL, hi))
    return lo, hi


def point_in(eng, name, lo, hi):
    """A fresh value of an operand together with the hypothesis that it lies in the operand's interval."""
    x = eng.fresh_real(name)
    hyp = []
    if lo is not None:
        hyp.append(compare("<=", lo, x))
    if hi is not None:
        hyp.append(compare("<=", x, hi))
    eng.input_syms.append((name, C.Real(), x))
    return x, (sv_and(*hyp) if hyp else True)


def operand_stub(tag, lo, hi):
    """A random operand known only through supportInterval()."""
    o = PObj("RandomOperand", tag=tag)
    o.fields["supportInterval"] = BuiltinFn("supportInterval", lambda: (lo, hi))
    o.fields.update(_isLazy=True, _needsSampling=True, _needsLazyEval=False, _dependencies=(), _requiredProperties=())
    return o


def check_sound(eng, name, result, defined, value, hyp):
    """result = (l, r): every defined value under the hypothesis lies inside the non-None bounds."""
    ok = isinstance(result, tuple) and len(result) == 2
    eng.check(f"{name}#ensures.returns_a_pair", ok)
    if not ok:
        return
    lo, hi = result
    h = sv_and(hyp, defined)
    if lo is not None:
        eng.check(f"{name}#ensures.lower_bound_sound", _implies(h, compare("<=", lo, value)))
    if hi is not None:
        eng.check(f"{name}#ensures.upper_bound_sound", _implies(h, compare("<=", value, hi)))
    if lo is None and hi is None:
        eng.check(f"{name}#ensures.no_bound_claimed_is_sound", True)


def exc_name(exc):
    return getattr(exc.cls, "__name__", getattr(exc.cls, "name", str(exc.cls)))


BINARY_WITH_RULE = ["__add__", "__radd__", "__sub__", "__rsub__", "__mul__", "__rmul__", "__truediv__", "__rtruediv__"]
UNARY_WITH_RULE = ["__neg__", "__abs__"]
OTHER_OPS = ["__floordiv__", "__rfloordiv__", "__mod__", "__rmod__", "__pos__", "__pow__", "__rpow__", "__getitem__", "__call__", "__round__", "__len__", "__divmod__"]


def register(reg):
    import numbers as _numbers

    from pyvc.builtins_model import NativeModule

    # `numbers.Number` as the real ABC, so that issubclass(float, numbers.Number) has its Python meaning
    xm = getattr(reg, "extra_modules", None) or {}
    xm["numbers"] = NativeModule("numbers", {"Number": _numbers.Number, "Real": _numbers.Real})
    reg.extra_modules = xm

    def none_binop(I, sym, a, b):
        # Python: arithmetic on None is a TypeError
        if a is None or b is None:
            I.raise_("TypeError", f"unsupported operand type(s) for {sym}: NoneType")
        from pyvc.values import PyvcError

        raise PyvcError(f"binary operator {sym} on {a!r}, {b!r} not modelled (line {I.lineno})")

    reg.binop_fallback = none_binop
    register_support_interval(reg)
    register_handlers(reg)


# ------------------------------------------------------------------------------------------------
# (1) OperatorDistribution.supportInterval


def register_support_interval(reg):
    OD = f"{D}:OperatorDistribution"

    def make(op):
        unary = op in UNARY_WITH_RULE or op in ("__pos__", "__round__", "__len__")
        name = f"distributions.OperatorDistribution.supportInterval[{op}]"

        def setup(I, env):
            eng = I.eng
            l1, r1 = make_interval(eng, "object")
            obj = operand_stub("object", l1, r1)
            self = env.vars["self"]
            env.vars["_iv1"] = (l1, r1)
            if unary:
                operands = ()
                env.vars["_iv2"] = None
            else:
                l2, r2 = make_interval(eng, "operand")
                operands = (operand_stub("operand", l2, r2),)
                env.vars["_iv2"] = (l2, r2)
            self.fields.update(operator=op, object=obj, operands=operands, kwoperands=PDict())
            eng.input_syms.append(("operator", C.Const(None), op))

        def post(I, env, outcome):
            eng = I.eng
            if outcome[0] != "return":
                return  # reported by the generic no-unexpected-exception obligation (totality)
            l1, r1 = env.vars["_iv1"]
            x, hx = point_in(eng, "x", l1, r1)
            if env.vars["_iv2"] is not None:
                l2, r2 = env.vars["_iv2"]
                y, hy = point_in(eng, "y", l2, r2)
            else:
                y, hy = None, True
            defined, value = python_op(op, x, y)
            if defined is None:
                res = outcome[1]
                eng.check(f"{name}#ensures.no_bound_claimed_for_an_operator_without_interval_semantics", isinstance(res, tuple) and len(res) == 2 and res[0] is None and res[1] is None)
                return
            check_sound(eng, name, outcome[1], defined, value, sv_and(hx, hy))

        reg.add(
            C.Contract(
                f"{OD}.supportInterval",
                params=dict(self=C.Obj(OD)),
                setup=setup,
                post=post,
                inline=["supportInterval"],
                replay=replay_operator_support,
                properties=("C05",),
            ),
            key=f"{OD}.supportInterval[{op}]",
        )

    for op in BINARY_WITH_RULE + UNARY_WITH_RULE + OTHER_OPS:
        make(op)


def _stub_dist(lo, hi):
    from scenic.core.distributions import Distribution

    class Operand(Distribution):
        def __init__(self):
            super().__init__(valueType=float)

        def supportInterval(self):
            return lo, hi

    return Operand()


def _real_op(op, x, y):
    import operator as O

    table = {
        "__add__": lambda: x + y, "__radd__": lambda: y + x, "__sub__": lambda: x - y, "__rsub__": lambda: y - x,
        "__mul__": lambda: x * y, "__rmul__": lambda: y * x, "__truediv__": lambda: x / y, "__rtruediv__": lambda: y / x,
        "__floordiv__": lambda: x // y, "__rfloordiv__": lambda: y // x, "__mod__": lambda: x % y, "__rmod__": lambda: y % x,
        "__neg__": lambda: -x, "__pos__": lambda: +x, "__abs__": lambda: abs(x),
    }
    return table[op]() if op in table else None


def replay_operator_support(inputs, clause):
    """Real OperatorDistribution over operands whose supportInterval() is the model's; the value at the model's point."""
    from scenic.core.distributions import OperatorDistribution

    op = inputs["operator"]
    obj = _stub_dist(inputs.get("object.lo"), inputs.get("object.hi"))
    operands = ()
    if "operand.lo" in inputs:
        operands = (_stub_dist(inputs.get("operand.lo"), inputs.get("operand.hi")),)
    node = OperatorDistribution(op, obj, operands, {}, valueType=float)
    lo, hi = node.supportInterval()  # an exception here is reported by the runner (totality)
    x, y = inputs.get("x"), inputs.get("y")
    if x is None:
        return None
    try:
        v = _real_op(op, float(x), None if y is None else float(y))
    except ZeroDivisionError:
        return None
    if v is None:
        if lo is not None or hi is not None:
            return f"supportInterval of {op} claims ({lo}, {hi}) although no interval rule is specified for it"
        return None
    eps = 1e-9 * (1 + abs(v))
    if (lo is not None and v < lo - eps) or (hi is not None and v > hi + eps):
        return f"supportInterval() = ({lo}, {hi}) for {op} with operand intervals object=({inputs.get('object.lo')}, {inputs.get('object.hi')}) operand=({inputs.get('operand.lo')}, {inputs.get('operand.hi')}), but x={x}, y={y} gives the value {v}"
    return None


# ------------------------------------------------------------------------------------------------
# (2) makeOperatorHandler: every shortcut is an identity of Python arithmetic; otherwise the node is `self op arg`

_powfn = z3.Function("python_pow", z3.RealSort(), z3.RealSort(), z3.RealSort())


def python_op_ext(op, x, y):
    """python_op extended with the two facts about ** that the shortcuts may rely on (x**1 == x, x**0 == 1)."""
    if op in ("__pow__", "__rpow__"):
        base, ex = (x, y) if op == "__pow__" else (y, x)
        zb, ze = toz3(base, want_real=True), toz3(ex, want_real=True)
        return True, SV(z3.If(ze == 1, zb, z3.If(ze == 0, z3.RealVal(1), _powfn(zb, ze))), True)
    return python_op(op, x, y)


ALL_HANDLER_OPS = ["__neg__", "__pos__", "__abs__", "__round__", "__getitem__", "__len__"] + [
    "__add__", "__radd__", "__sub__", "__rsub__", "__mul__", "__rmul__", "__truediv__", "__rtruediv__", "__floordiv__",
    "__rfloordiv__", "__mod__", "__rmod__", "__divmod__", "__rdivmod__", "__pow__", "__rpow__",
]


def node_ctor(I, cls, args, kwargs):
    """OperatorDistribution(operator, obj, operands, kwoperands, valueType=None) as a record of its arguments."""
    names = ["operator", "object", "operands", "kwoperands", "valueType"]
    b = dict(zip(names, args))
    b.update(kwargs)
    o = PObj(cls)
    kw = b.get("kwoperands")
    kwd = PDict(list(zip(kw.keys, kw.vals))) if isinstance(kw, PDict) else PDict(list((kw or {}).items()))
    ops = tuple(I.iterate(b.get("operands", ())))
    o.fields.update(operator=b.get("operator"), object=b.get("object"), operands=ops, kwoperands=kwd, _valueType=b.get("valueType"))
    o.fields.update(_isLazy=True, _needsSampling=True, _needsLazyEval=False, _requiredProperties=(), _dependencies=(b.get("object"),) + ops + tuple(kwd.vals))
    o.fields["_conditioned"] = o
    return o


def register_handlers(reg):
    reg.constructors[f"{D}:OperatorDistribution"] = node_ctor
    reg.trust("OperatorDistribution.__init__ (at construction sites inside other carriers)", "modelled as a record of (operator, object, operands, kwoperands, valueType); the real initialiser has its own contract OperatorDistribution.__init__")
    ori_cls = repo_class("scenic.core.vectors:Orientation")
    identity = PObj(ori_cls, tag="globalOrientation")
    reg.global_overrides["scenic.core.vectors:globalOrientation"] = identity
    reg.trust("vectors.globalOrientation", "an opaque token for the identity orientation (q * identity == q is a rotation-group axiom, C07)")
    name = "distributions.makeOperatorHandler"

    def setup(I, env):
        eng = I.eng
        op = ALL_HANDLER_OPS[eng.choose(len(ALL_HANDLER_OPS), "operator")]
        env.vars["op"] = op
        env.vars["ty"] = None
        eng.input_syms.append(("operator", C.Const(None), op))

    def post(I, env, outcome):
        eng = I.eng
        if outcome[0] != "return":
            return
        handler, op = outcome[1], env.vars["op"]
        eng.check(f"{name}#ensures.returns_a_handler", isinstance(handler, FuncVal))
        if not isinstance(handler, FuncVal):
            return
        vt_k = eng.choose(3, "value type")
        vt = (float, int, ori_cls)[vt_k]
        eng.input_syms.append(("valueType", C.Const(None), ("float", "int", "Orientation")[vt_k]))
        self = PObj(repo_class(f"{D}:Distribution"), tag="X")
        self.fields.update(_valueType=vt, _isLazy=True, _needsSampling=True, _needsLazyEval=False, _dependencies=(), _requiredProperties=())
        self.fields["_conditioned"] = self
        unary = op in ("__neg__", "__pos__", "__abs__", "__len__")
        if unary:
            args = []
        elif vt is ori_cls:
            args = [identity if eng.choose(2, "arg is the identity orientation?") == 0 else eng.fresh_real("c")]
        else:
            kind = eng.choose(2, "constant kind")
            c = eng.fresh_real("c") if kind == 0 else eng.fresh_int("c")
            eng.input_syms.append(("c", C.Real() if kind == 0 else C.Int(), c))
            args = [c]
        try:
            res = I.call_value(handler, [self] + args)
        except SymRaise as sr:
            eng.check(f"{name}#ensures.handler_does_not_raise", False, detail=repr(sr.exc))
            return
        if res is self:
            # a shortcut was taken: it must be an identity of Python arithmetic on the value type
            if vt is ori_cls:
                eng.check(f"{name}#ensures.orientation_shortcut_only_for_multiplication_by_the_identity", op in ("__mul__", "__rmul__") and args[0] is identity)
                return
            x = eng.fresh_real("x") if vt is float else eng.fresh_int("x")
            eng.input_syms.append(("x", C.Real() if vt is float else C.Int(), x))
            if unary:
                defined, value = python_op_ext(op, x, None)
            else:
                defined, value = python_op_ext(op, x, args[0])
            if defined is None:
                eng.check(f"{name}#ensures.no_shortcut_for_an_operator_without_arithmetic_meaning", False)
                return
            eng.check(f"{name}#ensures.shortcut_is_an_identity_of_python_arithmetic", _implies(defined, compare("==", value, x)))
            eng.check(f"{name}#ensures.shortcut_operation_is_defined", defined)
            return
        ok = isinstance(res, PObj) and getattr(res.cls, "name", None) == "OperatorDistribution"
        eng.check(f"{name}#ensures.otherwise_builds_an_operator_node", ok)
        if not ok:
            return
        f = res.fields
        eng.check(f"{name}#ensures.node_has_the_operator", f["operator"] == op)
        eng.check(f"{name}#ensures.node_object_is_self", f["object"] is self)
        same = len(f["operands"]) == len(args) and all((a is b) for a, b in zip(f["operands"], args))
        eng.check(f"{name}#ensures.node_operands_are_the_arguments_in_order", same)
        eng.check(f"{name}#ensures.node_has_no_keyword_operands", len(f["kwoperands"].keys) == 0)

    reg.add(
        C.Contract(
            f"{D}:makeOperatorHandler",
            params=dict(op=C.Const(None), ty=C.Const(None)),
            setup=setup,
            post=post,
            replay=replay_handler,
            properties=("C05",),
        )
    )


def replay_handler(inputs, clause):
    from scenic.core.distributions import Distribution

    op, vt = inputs.get("operator"), inputs.get("valueType")
    if vt not in ("float", "int") or "c" not in inputs or "x" not in inputs:
        return None
    ty = float if vt == "float" else int

    class Leaf(Distribution):
        def __init__(self):
            super().__init__(valueType=ty)

    d = Leaf()
    c, x = inputs["c"], ty(inputs["x"]) if vt == "int" else float(inputs["x"])
    res = getattr(d, op)(c)
    if res is not d:
        return None
    try:
        v = _real_op(op, x, c) if op not in ("__pow__", "__rpow__") else (x**c if op == "__pow__" else c**x)
    except ZeroDivisionError:
        return f"X.{op}({c!r}) is simplified to X although the operation is undefined for X = {x!r}"
    if v != x:
        sym = {"__floordiv__": "//", "__truediv__": "/", "__pow__": "**", "__add__": "+", "__radd__": "+", "__sub__": "-", "__mul__": "*", "__rmul__": "*"}.get(op, op)
        return f"X {sym} {c!r} is simplified to X (the very same node), but for the sample X = {x!r} Python gives {v!r}"
    return None
